"""C14 — URL locale prefixes are matched by whole segment and rewritten reversibly.
Theorems: coq/theories/Props/C14.v over the model Runtime/Router.v.
Correspondence: harness h_router compiles /repo/leptos_i18n_router/src/routing.rs by include! and drives
get_locale_from_path / get_new_path (plain-string wrappers, run-time configurable locale set and the compiled
declare_locales! enum), histories of switches, and generate_routes / match_nested of natively built I18nRoute trees."""
import json
import os
import shutil

from vlib import core
from checks import c14_cover as cv

THEOREMS = ["C14_whole_segment", "C14_rewrite_frame", "C14_roundtrip", "C14_history", "C14_history_returns", "C14_spec",
            "C14_spec_locale", "C14_valid_decidable", "C14_valid_nonvacuous", "C14_old_refuted",
            "C14_first_match_frame", "C14_first_match_roundtrip", "C14_first_match_history", "C14_first_match_spec",
            "C14_unique_is_first", "C14_first_match_example", "C14_explicit_prefix_frame", "C14_explicit_prefix_history",
            "C14_explicit_prefix_spec", "C14_explicit_prefix_example",
            "C14_prefix_before_params", "C14_match_locale_exact", "C14_match_bare", "C14_match_spec", "C14_swapped_refuted",
            "C14_fragment_preserved", "C14_fragment_history", "C14_fragment_history_bare", "C14_fragment_examples",
            "C14_double_hash_old_refuted"]
PROPS = "theories/Props/C14.v"
REGISTRY = {
    "level": "proof",
    "technique": "Coq proof over a Gallina model of routing.rs + differential correspondence (coqc vm_compute vs routing.rs "
                 "compiled by include!)",
    "text": "Theorems C14_whole_segment/C14_rewrite_frame/C14_roundtrip/C14_history/C14_spec (Props/C14.v) hold for every "
            "locale list, base path, route table (static/param/optional/splat/localized segments) and path reading, with the "
            "`valid` hypothesis in the statements; C14_first_match_frame/roundtrip/history/spec extend them to overlapping route "
            "tables and unmatched paths with the router's first-matching-route semantics (any slash spelling of the path). The model is tied to /repo by running get_locale_from_path, get_new_path, "
            "switch histories and real I18nRoute trees on thousands of generated cases and evaluating the Coq spec on the "
            "implementation's answers.",
    "design_ref": "DESIGN.md §5 C14",
    "note": "Trusted: Coq kernel + vm_compute; hand-written model Runtime/Router.v (tied by the correspondence run); Python "
            "generator; Rust harness h_router (DynLocale: a hand-written Locale impl with a run-time name list). Not modelled: "
            "browser history, navigate, effect scheduling, leptos_router's own matcher. No axioms.",
    "engine": "coq",
    "packages": [("h_router",)],
}
PRE = ("From Coq Require Import List NArith.\nImport ListNotations.\n"
       "From LI Require Import Base.StrOps Runtime.Router Runtime.RouterCheck.\nOpen Scope N_scope.\n")

US, RS, GS, FS = "\x1f", "\x1e", "\x1d", "\x1c"

# locale names: prefixes of each other and of ordinary words
NAME_POOL = ["en", "fr", "de", "en-US", "fr-CA", "fil", "fi", "ab", "is", "it", "e", "f", "EN", "日本", "en-US-posix"]
BAD_NAMES = ["", "zh/TW", "/fr"]
WORDS = ["french", "english", "entry", "files", "about", "ab", "de", "fr", "en", "demo", "item", "x", "id", "a", "edit",
         "user", "fr-CA", "frfr", "en-USA", "é", "日本語", "a b", "q?x", "h#x", "counter", "f"]
LOCALIZED = ["about", "a-propos", "ueber", "user", "utilisateur", "benutzer", "search", "rechercher", "fr", "en", "id",
             "tietoja", "x", "édition"]
PARAM_NAMES = ["id", "a", "b", "rest", "x"]
QUERIES = ["", "", "a=1&b=2", "x=/fr/y", "q=fr?en", "tag=x&sort=asc&tag=y", "debug"]
HASHES = ["", "", "top", "/fr", "a?b", "#top", "#/fr", "##x", "#"]


def S(s):
    return core.coq_str(s)


def L(xs):
    return core.coq_list(list(xs))


def coq_aseg(a):
    k = a[0]
    if k == "U":
        return "AUnit"
    if k == "S":
        return "(AStatic %s)" % L(S(x) for x in a[1])
    return "(%s %s)" % ({"P": "AParam", "O": "AOpt", "W": "ASplat"}[k], S(a[1]))


def coq_atab(t):
    return L(L(coq_aseg(a) for a in r) for r in t)


def coq_inst(inst):
    return L(("(IStat %s)" % L(S(x) for x in i[1])) if i[0] == "S" else "(IVal %s)" % S(i[1]) for i in inst)


def coq_optnat(x):
    return "None" if x is None else "(Some %d%%nat)" % x


def coq_res_str(o):
    return "(Panic 0%nat)" if o == "PANIC" else "(Ok %s)" % S(o)


def enc_seg(a, l):
    k = a[0]
    if k == "U":
        return "U"
    if k == "S":
        return "S" + a[1][l]
    return k + a[1]


def enc_tables(atab, n):
    per = []
    for l in range(n):
        per.append(RS.join((FS.join(enc_seg(a, l) for a in r) if r else ".") for r in atab))
    return GS.join(per)


def render(inst, l):
    return [i[1][l] if i[0] == "S" else i[1] for i in inst]


def url_path(names, dflt, bsegs, l, inst):
    segs = list(bsegs) + ([] if l == dflt else [names[l]]) + render(inst, l)
    return "/" + "/".join(segs)


def suffix(q, h):
    """what the property demands: same query, '#' + the fragment (hash without ONE leading '#') when non-empty"""
    frag = h[1:] if h.startswith("#") else h
    return ("?" + q if q else "") + ("#" + frag if frag else "")


def base_string(rng, bsegs):
    core_ = "/".join(bsegs)
    return rng.choice(["", "/"]) + core_ + rng.choice(["", "/"]) if bsegs else rng.choice(["/", "/", "", "//"])


def gen_names(rng):
    k = rng.choice([1, 2, 3, 3, 4, 5, 6])
    names = rng.sample(NAME_POOL, k)
    if rng.random() < 0.03:
        names[rng.randrange(k)] = rng.choice(BAD_NAMES)
    return names, rng.randrange(k) if rng.random() < 0.5 else 0


def gen_route(rng, n, lead=True):
    r = [("S", [""] * n)] if lead else []
    for _ in range(rng.choice([0, 1, 1, 2, 2, 3, 4])):
        c = rng.random()
        if c < 0.30:
            r.append(("S", [rng.choice(WORDS)] * n))
        elif c < 0.58:
            r.append(("S", [rng.choice(LOCALIZED) for _ in range(n)]))
        elif c < 0.76:
            r.append(("P", rng.choice(PARAM_NAMES)))
        elif c < 0.90:
            r.append(("O", rng.choice(PARAM_NAMES)))
        elif c < 0.93:
            r.append(("S", [""] * n))
        elif c < 0.95:
            r.append(("U",))
        else:
            r.append(("W", "rest"))
            break
    return r


def instantiate(rng, r, names):
    inst = []
    for a in r:
        k = a[0]
        if k == "S":
            if all(x != "" for x in a[1]):
                inst.append(("S", a[1]))
        elif k == "P":
            inst.append(("V", value(rng, names, a[1])))
        elif k == "O":
            if rng.random() < 0.6:
                inst.append(("V", value(rng, names, a[1])))
        elif k == "W":
            for _ in range(rng.choice([0, 1, 2, 3])):
                inst.append(("V", value(rng, names, "rest")))
            break
    return inst


def value(rng, names, pname):
    c = rng.random()
    if c < 0.12:
        return pname                      # the parameter's own name (the pre-fix matcher compared against it)
    if c < 0.24:
        return rng.choice(names) or "v"   # a locale name in the middle of the path
    if c < 0.34:
        return rng.choice(LOCALIZED)
    if c < 0.44:
        return str(rng.randrange(1000))
    return rng.choice(WORDS)


def gen_cfg(rng):
    names, dflt = gen_names(rng)
    n = len(names)
    bsegs = rng.choice([[], [], [], ["foo"], ["app", "v2"], ["fr"], ["f"], ["en-US"]])
    lead = rng.random() < 0.9
    atab = [gen_route(rng, n, lead) for _ in range(rng.choice([1, 2, 3, 4, 6]))]
    if rng.random() < 0.6:
        atab.insert(0, [("S", [""] * n)] if lead else [])
    return names, dflt, bsegs, atab


def gen_switch(rng):
    names, dflt, bsegs, atab = gen_cfg(rng)
    n = len(names)
    r = rng.choice(atab)
    inst = instantiate(rng, r, names)
    a, b = rng.randrange(n), rng.randrange(n)
    old = a
    if a == dflt and rng.random() < 0.3:
        old = None
    elif rng.random() < 0.03:
        old = rng.randrange(n)
    return {"names": names, "dflt": dflt, "bsegs": bsegs, "base": base_string(rng, bsegs), "atab": atab, "inst": inst,
            "a": a, "b": b, "old": old, "path": url_path(names, dflt, bsegs, a, inst),
            "search": rng.choice(QUERIES), "hash": rng.choice(HASHES)}


def corpus_switch():
    """the pre-fix defects (DESIGN §9) and the optional/splat ones, as readings of small tables"""
    names = ["en", "fr", "de"]
    plain = lambda w: ("S", [w] * 3)
    root = ("S", [""] * 3)
    about = ("S", ["about", "a-propos", "ueber"])
    out = []

    def case(bsegs, base, atab, inst, a, b, q="", h=""):
        out.append({"corpus": True, "names": names, "dflt": 0, "bsegs": bsegs, "base": base, "atab": atab, "inst": inst, "a": a,
                    "b": b, "old": a, "path": url_path(names, 0, bsegs, a, inst), "search": q, "hash": h})
    case([], "/", [[root, ("P", "p")]], [("V", "french")], 0, 2)                 # /french, en -> de: "/de/french"
    case([], "/", [[root, ("P", "p")]], [("V", "english")], 0, 1)                # /english en->fr gave /fr/glish
    case(["foo"], "/foo", [[root, plain("about")]], [("S", ["about"] * 3)], 1, 2, "a=1", "frag")   # /foo/de/fr/about
    case(["foo"], "foo", [[root, plain("about")]], [("S", ["about"] * 3)], 1, 2, "a=1", "frag")    # /foo/de
    case(["foo"], "/foo/", [[root, plain("about")]], [("S", ["about"] * 3)], 1, 2)
    case([], "/", [[root, about, ("O", "id")]], [("S", about[1]), ("V", "42")], 1, 2)             # optional param present
    case([], "/", [[root, about, ("W", "rest")]], [("S", about[1])], 1, 2)                        # empty splat
    case([], "/", [[root, about, ("O", "a"), ("O", "b")]], [("S", about[1])], 1, 0)               # trailing optionals absent
    case([], "/", [[root], [root, about]], [("S", about[1])], 2, 1, "q", "h")
    return out


def corpus_overlap():
    """overlapping routes: a localized route followed by catch-alls (first match wins)"""
    names = ["en", "fr", "de"]
    root = ("S", [""] * 3)
    about = ("S", ["about", "a-propos", "ueber"])
    tab = [[root], [root, about], [root, ("P", "page")], [root, ("W", "any")]]
    out = []
    for a, b, path in ((0, 1, "/about"), (1, 0, "/fr/a-propos"), (1, 2, "/fr/a-propos/"), (0, 1, "/en/about"), (0, 2, "/en")):
        out.append({"corpus": True, "structured": True, "explicit": path.startswith("/en"), "names": names, "dflt": 0, "bsegs": [], "base": "/", "atab": tab,
                    "inst": [] if path == "/en" else [about], "a": a, "b": b, "old": a, "path": path, "search": "", "hash": "",
                    "intent": {"slashes": "trailing" if path.endswith("/") else "normal", "base": "root",
                               "kinds": [] if path == "/en" else ["localized"],
                               "overlap": "first-of-many"}})
    # the fragment in browser form (window.location.hash keeps its '#') must not be doubled
    c = dict(out[0])
    c["hash"] = "#top"
    out.insert(0, c)
    return out


def gen_locale_case(rng):
    names, _ = gen_names(rng)
    bsegs = rng.choice([[], [], [], ["foo"], ["app", "v2"], ["fr"], ["f"]])
    k = rng.choice([0, 1, 1, 2, 3])
    psegs = []
    c = rng.random()
    under = rng.random() < 0.85
    if under:
        psegs += bsegs
    elif bsegs:
        psegs += [bsegs[0] + "bar"] + bsegs[1:]      # "/foobar" is not under "/foo"
    for i in range(k):
        c = rng.random()
        if i == 0 and c < 0.35:
            psegs.append(rng.choice(names) or "x")
        elif i == 0 and c < 0.65:
            nm = rng.choice(names) or "x"
            psegs.append(rng.choice([nm + "nch", nm + "-XX", nm[:-1] or "z", nm + nm, nm.upper(), nm + " "]))
        else:
            psegs.append(rng.choice(WORDS))
    # render with optional irregular slashes
    if rng.random() < 0.8:
        path = "/" + "/".join(psegs)
    else:
        path = rng.choice(["", "/", "//"]) + rng.choice(["/", "//"]).join(psegs) + rng.choice(["", "/", "//"])
    return {"names": names, "bsegs": bsegs, "base": base_string(rng, bsegs), "psegs": psegs, "path": path}


def corpus_locale():
    n = ["en", "fr", "de"]
    mk = lambda names, bsegs, base, psegs, path: {"names": names, "bsegs": bsegs, "base": base, "psegs": psegs, "path": path}
    return [mk(n, [], "/", ["french", "x"], "/french/x"), mk(n, [], "/", ["english"], "/english"),
            mk(n, [], "/", ["fr", "x"], "/fr/x"), mk(["en", "fr", "en-US"], [], "/", ["en-US", "x"], "/en-US/x"),
            mk(n, ["foo"], "foo", ["foobar", "fr"], "/foobar/fr"), mk(n, ["foo"], "/foo/", ["foo", "fr"], "/foo/fr"),
            mk(n, ["foo"], "/foo", ["foo"], "/foo"), mk(n, [], "", [], "/")]


def gen_free(rng):
    """arbitrary tables (shapes may differ between locales, entries may be missing) and arbitrary paths"""
    names, dflt = gen_names(rng)
    n = len(names)
    tabs = []
    for l in range(n):
        if rng.random() < 0.1:
            tabs.append(None)
            continue
        t = []
        for _ in range(rng.choice([0, 1, 2, 3])):
            r = []
            for _ in range(rng.choice([0, 1, 2, 3, 4])):
                k = rng.choice("SSSSPOWU")
                r.append((k, rng.choice(WORDS + ["", "/x", "a/b"]) if k == "S" else rng.choice(PARAM_NAMES)))
            t.append(r)
        tabs.append(t)
    if rng.random() < 0.7:     # same shape tables more often than not
        t0 = next((t for t in tabs if t), None)
        if t0 is not None:
            tabs = [None if t is None else [[(k, (rng.choice(WORDS) if k == "S" and v and rng.random() < 0.3 else v)) for k, v in r]
                                            for r in t0] for t in tabs]
    segs = [rng.choice(WORDS + names + PARAM_NAMES) or "x" for _ in range(rng.choice([0, 1, 2, 3, 4]))]
    pre = rng.choice([[], [], ["foo"]])
    base = base_string(rng, pre)
    path = rng.choice(["/", "/", "/", "", "//"]) + rng.choice(["/", "/", "/", "//"]).join(pre + segs) + rng.choice(["", "", "/"])
    return {"names": names, "dflt": dflt, "base": base, "tabs": tabs, "path": path, "search": rng.choice(QUERIES),
            "hash": rng.choice(HASHES), "new": rng.randrange(n), "old": rng.choice([None] + list(range(n)))}


def coq_tabs(tabs):
    def seg(k, v):
        return "PUnit" if k == "U" else "(%s %s)" % ({"S": "PStatic", "P": "PParam", "O": "POpt", "W": "PSplat"}[k], S(v))
    return L("None" if t is None else "(Some %s)" % L(L(seg(k, v) for k, v in r) for r in t) for t in tabs)


def enc_free_tables(tabs):
    return GS.join("-" if t is None else RS.join((FS.join(("U" if k == "U" else k + v) for k, v in r) if r else ".") for r in t)
                   for t in tabs)


# the trees built natively in harness/h_router/src/m_tree.rs, as declared route tables
FIXED_ABOUT = ["about", "a-propos", "about-us", "ueber", "a-propos", "tungkol", "tietoja", "ab", "fr"]
FIXED_USER = ["user", "utilisateur", "user", "benutzer", "usager", "user", "kayttaja", "as", "en"]


def fixed_trees(n):
    root = ("S", [""] * n)
    pl = lambda w: ("S", [w] * n)
    about, user = ("S", FIXED_ABOUT), ("S", FIXED_USER)
    t01 = [[root], [root, pl("counter")]]
    t2 = [[root], [root, about], [root, user], [root, user, ("P", "id")], [root, user, ("P", "id"), pl("edit")],
          [root, pl("files"), ("W", "rest")], [root, pl("opt"), ("O", "a"), ("O", "b"), about], [root, pl("en-USA"), pl("french")]]
    t3 = [[root], [root, about, ("P", "x")]]
    # tables whose first segment is a param / optional param / splat, alone and next to static routes (m_tree.rs 4..10)
    t4 = [[root, ("P", "slug")]]
    t5 = [[root], [root, about], [root, ("P", "slug")]]
    t6 = [[root, ("O", "a")]]
    t7 = [[root, pl("counter")], [root, ("O", "a"), pl("x")]]
    t8 = [[root, ("W", "any")]]
    t9 = [[root], [root, pl("counter")], [root, about], [root, ("W", "any")]]
    t10 = [[root, pl("counter")], [root, ("P", "a"), ("P", "b")]]
    return [t01, t01, t2, t3, t4, t5, t6, t7, t8, t9, t10]


TREE_KIND = ["static-only", "static-only", "static-only", "static-only", "param-alone", "param+static", "opt-alone", "opt+static",
             "splat-alone", "splat+static", "param2+static"]
FIRST_CLASSES = ["exact-default", "exact-nondefault", "exact-nested", "prefixed", "one-short", "glued", "other", "none"]


def gen_match_path(rng, atab, names, dflt, klass):
    """a path for match_nested whose first segment is of the given class, followed by an instance of a route (or junk)"""
    n = len(names)
    nested = [i for i, x in enumerate(names) if any(y != x and x.startswith(y) for y in names)]
    l = {"exact-default": dflt, "exact-nested": rng.choice(nested)}.get(klass)
    if l is None:
        l = rng.choice([i for i in range(n) if i != dflt])
    c = rng.random()
    if c < 0.7:
        segs = render(instantiate(rng, rng.choice(atab), names), l if klass.startswith("exact") else dflt)
    elif c < 0.85:
        segs = []
    else:
        segs = [rng.choice(["zzz", "q", "counter", "x"]) for _ in range(rng.choice([1, 2]))]
    nm = names[l]
    if klass.startswith("exact"):
        psegs = [nm] + segs
    elif klass == "prefixed":
        w = nm + rng.choice(["a", "x", "nch", "-XX", "A"])
        psegs = [w if w not in names else nm + "zz"] + segs
    elif klass == "one-short":
        w = nm[:-1]
        psegs = [w if w and w not in names else "q"] + segs
    elif klass == "glued":
        psegs = [nm + (segs[0] if segs else "counter")] + segs[1:]
    elif klass == "other":
        psegs = segs if segs and segs[0] not in names else ["zzz"] + segs
    else:
        psegs = []
    path = "/" + "/".join(psegs)
    if psegs and rng.random() < 0.1:
        path += "/"
    return psegs, path


def run_harness(exe, mode, lines, timeout=600):
    rc, out, err = core.sh([exe, mode], input="".join(x + "\n" for x in lines), timeout=timeout)
    res = out.split("\n")
    if res and res[-1] == "":
        res.pop()
    if rc != 0:
        raise core.Infra("h_router %s failed (rc %d): %s" % (mode, rc, err[-400:]))
    return res


def stage_patched(diffs):
    """development aid (never used by a registered command): /repo's routing.rs with the given diff files applied
    (VERIF_C14_PATCHED=<a.diff>[:<b.diff>]), compiled into the harness with feature `patched`"""
    d = os.path.join(core.CACHE, "work", "C14", "stage", "s3")
    shutil.rmtree(d, ignore_errors=True)
    os.makedirs(os.path.join(d, "leptos_i18n_router", "src"))
    shutil.copy(os.path.join(core.REPO, "leptos_i18n_router/src/routing.rs"), os.path.join(d, "leptos_i18n_router/src/routing.rs"))
    for f in [x for x in diffs.split(":") if x]:
        rc, out, err = core.sh(["patch", "-p1", "-i", f], cwd=d)
        if rc != 0:
            raise core.Infra("cannot stage %s: %s" % (f, out + err))
    return os.path.join(core.cargo_build("h_router", features=["patched"], target_sub="target_c14p"), "h_router")


def size_of(c):
    return (len(c.get("inst", [])), sum(len(r) for r in c.get("atab", [])), len(c["names"]), len(c.get("path", "")))


def run(ctx):
    from checks import isolate
    isolate.enter(ctx)
    if os.environ.get("VERIF_C14_PATCHED"):
        exe = stage_patched(os.environ["VERIF_C14_PATCHED"])
    else:
        exe = os.path.join(core.cargo_build("h_router"), "h_router")
    ok, problems = core.coq_audit(ctx, PROPS, THEOREMS)
    built, log = core.coq_build(["theories/Runtime/RouterCheck.vo"])
    if not built:
        raise core.Infra("Runtime/RouterCheck.vo does not build: " + log[-600:])
    rng = ctx.rng
    quick = ctx.quick
    n_switch, n_loc, n_free, n_hist, n_struct = (900, 900, 600, 250, 1800) if quick else (9000, 6000, 5000, 2500, 14000)

    # ---------------------------------------------------------------- cases
    lcases = corpus_locale() + [gen_locale_case(rng) for _ in range(n_loc)]
    # structured stream: explicit coverage dimensions, every feasible pair of values reached (checks/c14_cover.py)
    scases, _tbl, s_filled, s_unreached = cv.build(rng, n_struct)
    for i, c in enumerate(corpus_overlap()):
        scases.insert(i, c)
    ncases = corpus_switch() + [c for c in scases if "ls" not in c] + [gen_switch(rng) for _ in range(n_switch)]
    fcases = [gen_free(rng) for _ in range(n_free)]
    hcases = []
    def esc(x):
        return x.replace("?", "%3F").replace("#", "%23")

    for c in corpus_switch()[-4:] + [gen_switch(rng) for _ in range(n_hist)]:
        n = len(c["names"])
        if any(ch in c["path"] + c["base"] for ch in "?#") or "#" in c["search"]:
            # the harness re-parses every URL like a browser; '?' and '#' cannot occur in a pathname: percent-encode them
            c["names"] = [esc(x) for x in c["names"]]
            c["inst"] = [(k, esc(v)) if k == "V" else (k, [esc(x) for x in v]) for k, v in c["inst"]]
            c["atab"] = [[(a[0], [esc(x) for x in a[1]]) if a[0] == "S" else a for a in r] for r in c["atab"]]
            c["search"] = c["search"].replace("#", "%23")
            c["path"] = url_path(c["names"], c["dflt"], c["bsegs"], c["a"], c["inst"])
        k = rng.choice([1, 2, 3, 4, 6])
        ls = [rng.randrange(n) for _ in range(k)]
        if rng.random() < 0.7:
            ls[-1] = c["a"]                       # ends in the original locale
        h = dict(c)
        h.update({"ls": ls, "by_path": rng.random() < 0.4})
        hcases.append(h)
    hcases = [c for c in scases if "ls" in c] + hcases
    # the compiled enum: same generators with its fixed name list
    lines = ["E"]
    enum_names = None

    def cfg_lines(c, tables):
        return [US.join(["C", RS.join(c["names"]), str(c.get("dflt", 0))]), US.join(["T", tables])]

    plan = []   # (kind, case)
    for c in lcases:
        lines += [US.join(["C", RS.join(c["names"]), "0"]), US.join(["L", c["base"], c["path"]])]
        plan += [None, ("L", c)]
    for c in ncases:
        lines += cfg_lines(c, enc_tables(c["atab"], len(c["names"])))
        lines.append(US.join(["N", c["base"], c["path"], c["search"], c["hash"], str(c["b"]),
                              "-" if c["old"] is None else str(c["old"])]))
        plan += [None, None, ("N", c)]
    for c in fcases:
        lines += cfg_lines(c, enc_free_tables(c["tabs"]))
        lines.append(US.join(["N", c["base"], c["path"], c["search"], c["hash"], str(c["new"]),
                              "-" if c["old"] is None else str(c["old"])]))
        plan += [None, None, ("F", c)]
    for c in hcases:
        lines += cfg_lines(c, enc_tables(c["atab"], len(c["names"])))
        lines.append(US.join(["H", c["base"], c["path"], c["search"], c["hash"], str(c["a"]),
                              "p" if c["by_path"] else "c", ",".join(map(str, c["ls"]))]))
        plan += [None, None, ("H", c)]
    outs = run_harness(exe, "path", lines)
    if len(outs) != len(lines):
        raise core.Infra("h_router path: %d lines for %d commands" % (len(outs), len(lines)))
    ef = outs[0].split(US)
    enum_names, enum_dflt = ef[1].split(RS), int(ef[2])
    outs = outs[1:]
    for p, o in zip(plan, outs):
        if p is not None:
            p[1]["impl"] = o if p[0] != "H" else (o if o == "PANIC" else (o.split(US) if o != "" else []))

    # second pass: the real generated enum (fixed names) for locale reads and switches
    en = len(enum_names)
    ecases_l, ecases_n = [], []
    lines = ["E"]
    for _ in range(n_loc // 3):
        c = gen_locale_case(rng)
        c["names"] = enum_names
        f = c["psegs"][len(c["bsegs"]):]
        if f and rng.random() < 0.6:
            nm = rng.choice(enum_names)
            c["psegs"][len(c["bsegs"])] = rng.choice([nm, nm, nm + "x", nm[:-1] or "z"])
        c["path"] = "/" + "/".join(c["psegs"])
        ecases_l.append(c)
        lines.append(US.join(["L", c["base"], c["path"]]))
    trees = fixed_trees(en)
    for _ in range(n_switch // 4):
        atab = rng.choice(trees)
        r = rng.choice(atab)
        inst = instantiate(rng, r, enum_names)
        a, b = rng.randrange(en), rng.randrange(en)
        bsegs = rng.choice([[], [], ["app"]])
        c = {"names": enum_names, "dflt": enum_dflt, "bsegs": bsegs, "base": base_string(rng, bsegs), "atab": atab,
             "inst": inst, "a": a, "b": b, "old": a, "path": url_path(enum_names, enum_dflt, bsegs, a, inst),
             "search": rng.choice(QUERIES), "hash": rng.choice(HASHES)}
        ecases_n.append(c)
        lines.append(US.join(["T", enc_tables(atab, en)]))
        lines.append(US.join(["N", c["base"], c["path"], c["search"], c["hash"], str(b), str(a)]))
    outs = run_harness(exe, "path", lines)[1:]
    k = 0
    for c in ecases_l:
        c["impl"] = outs[k]
        k += 1
    for c in ecases_n:
        c["impl"] = outs[k + 1]
        k += 2
    lcases += ecases_l
    ncases += ecases_n

    # natively built I18nRoute trees: every tree kind x every class of first path segment
    tlines, tplan = [], []
    for ti, atab in enumerate(trees):
        for klass in FIRST_CLASSES:
            for _ in range(6 if quick else 40):
                psegs, path = gen_match_path(rng, atab, enum_names, enum_dflt, klass)
                tlines.append(US.join([str(ti), path]))
                tplan.append({"tree": ti, "tree_kind": TREE_KIND[ti], "first_class": klass, "names": enum_names, "psegs": psegs,
                              "path": path})
    touts = run_harness(exe, "tree", tlines)
    theads = [x for x in touts if x.startswith("TREE ")]
    touts = touts[len(theads):]
    if len(theads) != len(trees) or len(touts) != len(tplan):
        raise core.Infra("h_router tree: unexpected output shape")
    for c, o in zip(tplan, touts):
        c["impl"] = o

    # ---------------------------------------------------------------- Coq evaluation
    def lcase_term(c):
        o = c["impl"]
        return "(mk_lcase %s %s %s %s %s %s)" % (L(S(x) for x in c["names"]), S(c["base"]), S(c["path"]),
                                                 L(S(x) for x in c["bsegs"]), L(S(x) for x in c["psegs"]),
                                                 "None" if o == "-" else "(Some %s%%nat)" % o)

    def ncase_term(c):
        return "(mk_ncase %s %d%%nat %s %s %s %s %d%%nat %d%%nat %s %s %s %s %s)" % (
            L(S(x) for x in c["names"]), c["dflt"], S(c["base"]), L(S(x) for x in c["bsegs"]), coq_atab(c["atab"]),
            coq_inst(c["inst"]), c["a"], c["b"], coq_optnat(c["old"]), S(c["path"]), S(c["search"]), S(c["hash"]),
            coq_res_str(c["impl"]))

    def fcase_term(c):
        return "(mk_fcase %s %d%%nat %s %s %s %s %s %d%%nat %s %s)" % (
            L(S(x) for x in c["names"]), c["dflt"], S(c["base"]), coq_tabs(c["tabs"]), S(c["path"]), S(c["search"]),
            S(c["hash"]), c["new"], coq_optnat(c["old"]), coq_res_str(c["impl"]))

    def hcase_term(c):
        o = c["impl"]
        impl = "(Panic 0%nat)" if o == "PANIC" else "(Ok %s)" % L(S(x) for x in o)
        return "(mk_hcase %s %d%%nat %s %s %s %s %d%%nat %s %s %s %s %s %s)" % (
            L(S(x) for x in c["names"]), c["dflt"], S(c["base"]), L(S(x) for x in c["bsegs"]), coq_atab(c["atab"]),
            coq_inst(c["inst"]), c["a"], "true" if c["by_path"] else "false", L("%d%%nat" % x for x in c["ls"]),
            S(c["path"]), S(c["search"]), S(c["hash"]), impl)

    def parse_route(s):
        if s == ".":
            return []
        return [(x[0], x[1:]) for x in s.split(FS) if x]

    tcases = []
    for ti, h in enumerate(theads):
        f = h.split(US)
        tabs = [[parse_route(r) for r in t.split(RS) if r] for t in f[1].split(GS)]
        routes = [parse_route(r) for r in f[2].split(RS) if r]
        seg = lambda k, v: "PUnit" if k == "U" else "(%s %s)" % ({"S": "PStatic", "P": "PParam", "O": "POpt", "W": "PSplat"}[k], S(v))
        tcases.append("(mk_tcase %s %d%%nat %s %s %s)" % (
            L(S(x) for x in enum_names), enum_dflt, coq_atab(trees[ti]), coq_tabs(tabs),
            L(L(seg(k, v) for k, v in r) for r in routes)))

    def mres(r):
        if r == "none":
            return "None"
        matched, remaining, params = r.split(FS)
        ps = L("(%s, %s)" % (S(kv.split("=", 1)[0]), S(kv.split("=", 1)[1])) for kv in params.split(",") if kv)
        return "(Some (%s, %s))" % (S(remaining), ps)

    def mcase_term(c):
        o = c["impl"]
        if o in ("PANIC", "MISMATCH"):
            return None
        loc, ri, rb, per = o.split(US)
        first = c["path"][1:].split("/")[0]
        if ri == "none":
            impl = "None"
        else:
            matched = ri.split(FS)[0]
            impl = "(Some (%s, %s, %s))" % ("None" if loc == "-" else "Some %s%%nat" % loc, S(matched), mres(ri)[6:-1])
        c["locale"] = None if loc == "-" else int(loc)
        c["outcome"] = "no-match" if ri == "none" else ("bare" if loc == "-" else "locale")
        return "(mk_m2case %s (Some %s) %s %s %s)" % (L(S(x) for x in c["names"]), S(first), L(mres(x) for x in per.split(RS)),
                                                      mres(rb), impl)

    lcodes = core.coq_eval(ctx, "c14l", PRE, [lcase_term(c) for c in lcases], "check_l")
    ncodes = core.coq_eval(ctx, "c14n", PRE, [ncase_term(c) for c in ncases], "check_n")
    fcodes = core.coq_eval(ctx, "c14f", PRE, [fcase_term(c) for c in fcases], "check_f")
    hcodes = core.coq_eval(ctx, "c14h", PRE, [hcase_term(c) for c in hcases], "check_h")
    tcodes = core.coq_eval(ctx, "c14t", PRE, tcases, "check_t")
    mterms = [mcase_term(c) for c in tplan]
    mpanic = [c for c, t in zip(tplan, mterms) if t is None]
    tplan = [c for c, t in zip(tplan, mterms) if t is not None]
    mcodes = core.coq_eval(ctx, "c14m", PRE, [t for t in mterms if t is not None], "check_m2")
    mpair = {}
    for c, code in zip(tplan, mcodes):
        key = "%s x %s" % (c["tree_kind"], c["first_class"])
        m = mpair.setdefault(key, {"cases": 0, "locale": 0, "bare": 0, "no-match": 0})
        m["cases"] += 1
        m[c["outcome"]] += 1
    mzero = ["%s x %s" % (k, f) for k in sorted(set(TREE_KIND)) for f in FIRST_CLASSES if ("%s x %s" % (k, f)) not in mpair]

    # structured stream: cross-check the Python side's reading of the domain and of the overlap class with Coq, then the
    # pairwise table over the cases Coq confirms to be inside the domain
    sn = [(c, code) for c, code in zip(ncases, ncodes) if c.get("structured")]
    sh = [(c, code) for c, code in zip(hcases, hcodes) if c.get("structured")]
    klass = core.coq_eval(ctx, "c14k", PRE, [ncase_term(c) for c, _ in sn], "nclass")
    rounds = core.coq_eval(ctx, "c14o", PRE, [ncase_term(c) for c, _ in sn], "nround")
    oracle_mismatch = []
    table = cv.Table()
    tagged = 0
    for (c, code), k in zip(sn, klass):
        c.setdefault("tags", cv.tags(c))
        if ["no-match", "unique", "first-of-many", "shadowed"][k] != c["tags"]["overlap"]:
            oracle_mismatch.append({"what": "overlap class", "python": c["tags"]["overlap"], "coq_nclass": k, "case": c["path"]})
    for c, code in sn + sh:
        c.setdefault("tags", cv.tags(c))
        if code == 1:
            oracle_mismatch.append({"what": "python says inside the domain, Coq says outside", "path": c["path"], "names": c["names"]})
        else:
            table.add(c["tags"])
            tagged += 1
    pair_report = cv.report(table, s_unreached)
    pair_report["cases_tagged"] = tagged
    pair_report["cases_added_by_targeted_generation"] = s_filled
    roundtrip_hyp = {"holds": sum(1 for r in rounds if r == 1), "fails": sum(1 for r in rounds if r == 0)}

    groups = [("get_locale_from_path", lcases, lcodes), ("get_new_path", ncases, ncodes), ("get_new_path (free-form)", fcases, fcodes),
              ("history", hcases, hcodes), ("match_nested", tplan, mcodes)]
    bad, disagree = [], []
    for what, cs, codes in groups:
        for c, code in zip(cs, codes):
            if code == 3:
                bad.append((what, c))
            elif code == 2:
                disagree.append((what, c))
    for c in mpanic:
        disagree.append(("match_nested (harness PANIC/MISMATCH)", c))
    for i, code in enumerate(tcodes):
        if code != 0:
            disagree.append(("generate_routes/RouteSegments of tree %d" % i, {"names": enum_names, "tree": i, "head": theads[i]}))

    def view(what, c):
        v = {"function": what}
        for k in ("names", "dflt", "base", "bsegs", "psegs", "path", "search", "hash", "a", "b", "old", "ls", "by_path", "atab",
                  "inst", "tabs", "new", "tree", "tree_kind", "first_class", "impl"):
            if k in c:
                v[k] = c[k]
        if what in ("get_new_path", "history") and "inst" in c:
            segs, cur, exp = cv.render(c["inst"], c["a"]), c["a"], []
            for l in c.get("ls", [c.get("b")]):
                segs = cv.expected_segs(len(c["names"]), c["atab"], cur, l, segs)
                cur = l
                exp.append(cv.url(c["names"], c["dflt"], c["bsegs"], l, segs) + suffix(c["search"], c["hash"]))
            v["expected_first_match"] = exp
            v["readings_of_source_path"] = len(cv.all_parses(len(c["names"]), c["a"], c["atab"], cv.render(c["inst"], c["a"])))
        for k in ("tags", "forced"):
            if k in c:
                v[k] = {d: (sorted(x) if isinstance(x, set) else x) for d, x in c[k].items()}
        return v

    if bad:
        bad.sort(key=lambda wc: (0 if wc[1].get("corpus") else 1, size_of(wc[1]), wc[0]))
        what, c = bad[0]
        expl = {
            "get_locale_from_path": "spec_locale (Coq, Runtime/Router.v) is false: the locale returned is not the one whose name equals "
                                    "the first path segment after the base path (or a locale was returned for a path that has none)",
            "get_new_path": "spec_first_match is false: the rewritten URL is not base + prefix of the new locale + the segments of the "
                            "FIRST reading of the path (first matching route of the source locale's table) with its static segments "
                            "in the new locale's spelling (a path no route matches is kept) + same query and fragment",
            "history": "a URL in the history of switches differs from the one expected by first-match semantics "
                       "(in particular switching back does not restore the original URL although the image reads the same way)",
            "match_nested": "spec_match is false: the locale reported by match_nested must be the first locale whose name is exactly the "
                            "first path segment and under which the inner route tree matches the rest of the path; otherwise no "
                            "locale and the whole path matched by the inner tree (oracle: leptos_router on the inner tree alone)",
        }.get(what, "")
        byf = {}
        for w, _ in bad:
            byf[w] = byf.get(w, 0) + 1
        firsts = {}
        for w, cc in bad:
            firsts.setdefault(w, view(w, cc))
        core.violation(ctx, "spec", {"failing_input": view(what, c), "explanation": expl, "count": len(bad), "by_function": byf,
                                     "smallest_per_function": firsts})
    elif disagree or not ok or oracle_mismatch:
        what, c = (disagree or [("", {})])[0]
        core.violation(ctx, "correspondence", {
            "broken": ("theorem/audit: " + "; ".join(problems)) if not ok else
                      ("correspondence Runtime/Router.v vs leptos_i18n_router/src/routing.rs (%s)" % what) if disagree else
                      "the generator's reference semantics (checks/c14_cover.py) disagrees with Runtime/Router.v",
            "first_disagreeing_input": view(what, c) if disagree else None, "disagreements": len(disagree),
            "oracle_mismatch": oracle_mismatch[:5]}, no_input=True)

    nontrivial = set()
    valid_n = 0
    for c, code in zip(ncases, ncodes):
        if code in (0, 3) or (code == 2):
            pass
        if code in (0, 3):
            valid_n += 1
            if c["a"] != c["b"] and c["inst"]:
                nontrivial.add((tuple(c["names"]), c["dflt"], c["base"], c["path"], c["a"], c["b"], c["search"], c["hash"]))
    for c, code in zip(lcases, lcodes):
        if code in (0, 3) and c["psegs"]:
            nontrivial.add((tuple(c["names"]), c["base"], c["path"]))
    for c, code in zip(hcases, hcodes):
        if code in (0, 3) and len(c["ls"]) >= 2:
            nontrivial.add((tuple(c["names"]), c["base"], c["path"], tuple(c["ls"]), c["by_path"]))
    hist = {}
    for what, cs, codes in groups:
        for code in codes:
            key = "%s:code%d" % (what, code)
            hist[key] = hist.get(key, 0) + 1
    kinds = {}
    for c in ncases:
        for a in (x for r in c["atab"] for x in r):
            k = {"S": "static", "P": "param", "O": "optional", "W": "splat", "U": "unit"}[a[0]]
            if k == "static" and len(set(a[1])) > 1:
                k = "localized"
            kinds[k] = kinds.get(k, 0) + 1
    total = sum(len(cs) for _, cs, _ in groups) + len(tcases)
    core.write_evidence(ctx, {
        "evaluations": total, "distinct_nontrivial": len(nontrivial),
        "rule": "structured stream (checks/c14_cover.py): 12 explicit dimensions (names nested/flat, adversarial words, source/target "
                "locale, base spelling, segment kind x position, overlap class, query, fragment, slash spelling, locale argument, "
                "history length), random then targeted generation until every feasible pair of values is reached; overlapping "
                "route tables and unmatched paths are inside the domain (first-match semantics). Plus: random (locale names incl. prefixes of each other and of words, default index, base path spelling, declared route "
                "table with static/localized/param/optional/splat segments, a reading of one route, source and target locale, query, "
                "fragment); corpus of the pre-fix defects first; free-form tables/paths for agreement only; histories of 1-6 switches "
                "(70% end in the original locale; `locale` argument from the context or read from the path); locale reads and switches "
                "also through the compiled declare_locales! enum; 4 natively built I18nRoute trees (generate_routes, RouteSegments, "
                "match_nested). non-trivial = inside `valid` with a!=b and a non-empty reading / non-empty path / >=2 switches; "
                "distinct by the strings handed to the implementation",
        "samples": [view("get_new_path", c) for c in ncases[:2] + ncases[12:14]] + [view("history", hcases[5])] + [view("get_locale_from_path", lcases[9])],
        "traces_validated_against_impl": total,
        "disagreements": len(disagree), "spec_failures_on_impl": len(bad),
        "switch_cases_inside_valid": valid_n, "switch_cases_total": len(ncases),
        "skipped_outside_valid": sum(1 for _, _, codes in groups for x in codes if x == 1),
        "input_distribution": hist, "declared_segment_kinds": kinds, "audit_problems": problems,
        "patched_build": bool(os.environ.get("VERIF_C14_PATCHED")),
        "pairwise_coverage": pair_report,
        "match_nested_pairwise": {"dimensions": {"tree_kind": sorted(set(TREE_KIND)), "first_class": FIRST_CLASSES},
                                  "cells": mpair, "zero_cells": mzero, "harness_panics": len(mpanic)},
        "roundtrip_hypothesis_on_structured_switches": roundtrip_hyp,
        "oracle_mismatches": len(oracle_mismatch),
    }, assumptions=[
        "routing.rs is compiled by include! into the harness crate (same source text as the library, `ssr` cfg declared)",
        "DynLocale (harness) implements leptos_i18n::Locale with a run-time name list; the path functions use only get_all, as_str, "
        "default, == and Hash; the compiled declare_locales! enum is driven as well",
        "browser history, navigate(), request_animation_frame and effect scheduling are not modelled; a history is the sequence of "
        "get_new_path calls the effects make, with the URL re-parsed (first '#', then first '?') between steps",
        "leptos_router's matcher (StaticSegment::test etc.) is not modelled; match_nested is observed, not modelled"])


def replay(ctx, path):
    from checks import isolate
    isolate.enter(ctx)
    obj = json.load(open(path))
    print(json.dumps(obj, indent=1, ensure_ascii=False))
    c = obj.get("failing_input") or obj.get("first_disagreeing_input")
    if not c or c.get("function") != "get_new_path" or "inst" not in c:
        return 0
    exe = os.path.join(core.cargo_build("h_router"), "h_router")
    n = len(c["names"])
    atab = [[tuple(a) for a in r] for r in c["atab"]]
    lines = [US.join(["C", RS.join(c["names"]), str(c["dflt"])]), US.join(["T", enc_tables(atab, n)]),
             US.join(["N", c["base"], c["path"], c["search"], c["hash"], str(c["b"]), "-" if c["old"] is None else str(c["old"])])]
    out = run_harness(exe, "path", lines)[2]
    c2 = dict(c)
    c2["atab"] = atab
    c2["inst"] = [tuple(i) for i in c["inst"]]
    c2["impl"] = out
    term = "(mk_ncase %s %d%%nat %s %s %s %s %d%%nat %d%%nat %s %s %s %s %s)" % (
        L(S(x) for x in c2["names"]), c2["dflt"], S(c2["base"]), L(S(x) for x in c2["bsegs"]), coq_atab(c2["atab"]),
        coq_inst(c2["inst"]), c2["a"], c2["b"], coq_optnat(c2["old"]), S(c2["path"]), S(c2["search"]), S(c2["hash"]), coq_res_str(out))
    code = core.coq_eval(ctx, "c14r", PRE, [term], "check_n")[0]
    print("implementation now: %r" % out)
    print("expected          : %r" % (c.get("expected_first_match") or c.get("expected")))
    print("check_n code      : %d (0 ok, 1 outside valid, 2 differs from model, 3 spec false)" % code)
    return 1 if code == 3 else 0
