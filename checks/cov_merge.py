"""Pairwise-coverage dimensions, tagging and directed builders for the generators of C03 and C07.

Tagging analyses the *project* (configuration + files), never the scenario it was built from and
never the implementation's answer, so random, exhaustive, corpus and directed cases are tagged by
the same code.  See checks/pairwise.py."""
from checks import merge_common as mc

# ------------------------------------------------------------------ shared analysis


def order_of(p):
    return mc.cfg_order(p)


def node_at(tree, path):
    """('defined'|'null'|'absent'|'group_null'|'group_absent'|'group'|'blocked', node)"""
    t = tree
    for i, k in enumerate(path):
        last = i == len(path) - 1
        if t[0] != "G":
            return "blocked", None          # a value where a group is needed
        if k not in t[1]:
            return ("absent" if last else "group_absent"), None
        t = t[1][k]
        if t[0] == "N":
            return ("null" if last else "group_null"), None
    return ("group" if t[0] == "G" else "defined"), t


def leaf_paths(tree, pre=()):
    for k, v in tree[1].items():
        if v[0] == "G":
            yield from leaf_paths(v, pre + (k,))
        elif v[0] == "L":
            yield pre + (k,), v


def has_null(tree):
    return any(v[0] == "N" or (v[0] == "G" and has_null(v)) for v in tree[1].values())


def mismatch(d, t):
    """group/value mismatch reachable through groups of both"""
    for k, v in t[1].items():
        if k in d[1]:
            dv = d[1][k]
            if (dv[0] == "G" and v[0] == "L") or (dv[0] == "L" and v[0] == "G"):
                return True
            if dv[0] == "G" and v[0] == "G" and mismatch(dv, v):
                return True
    return False


def outcome_of(p):
    roles = order_of(p)
    for ns in (p["namespaces"] or ["-"]):
        d = p["files"]["%s/%s" % (ns, roles[0])]
        if has_null(d):
            return "err_default_null"
        for r in roles[1:]:
            if mismatch(d, p["files"]["%s/%s" % (ns, r)]):
                return "err_mismatch"
    return "ok"


def walk_shape(l, inh, dflt):
    if l not in inh:
        return "none"
    seen, cur = [l], l
    while True:
        nxt = inh.get(cur)
        if nxt is None:
            return "chain_end"
        if nxt == dflt:
            return "to_default" if cur == l else "chain_default"
        if nxt in seen:
            if nxt == l:
                return "self" if cur == l else "cycle"
            return "rho"
        seen.append(nxt)
        cur = nxt


def loop_tail(l, inh, dflt):
    """(cycle length or None, hops before the cycle / to the end of the walk)"""
    seq, cur = [l], l
    while True:
        nxt = inh.get(cur)
        if nxt is None:
            return None, len(seq) - 1
        if nxt == dflt:
            return None, len(seq)
        if nxt in seq:
            i = seq.index(nxt)
            return len(seq) - i, i
        seq.append(nxt)
        cur = nxt


def source_of(l, inh, dflt, defines):
    """the locale whose value l uses (Python restatement for tagging only)"""
    seen, cur = [l], l
    while not defines(cur):
        nxt = inh.get(cur)
        if nxt is None or nxt in seen:
            return dflt
        seen.append(nxt)
        cur = nxt
    return cur


def resolution(l, inh, dflt, defines):
    if defines(l):
        return "own"
    seen, cur, hops = [l], l, 0
    while True:
        nxt = inh.get(cur)
        if nxt is None:
            return "default_by_end"
        if nxt in seen:
            return "default_by_loop"
        hops += 1
        if nxt == dflt:
            return "default_explicit"
        if defines(nxt):
            return "inherited_1" if hops == 1 else "inherited_far"
        seen.append(nxt)
        cur = nxt


def cap(n, top):
    return str(n) if n < top else "%d+" % top


# ------------------------------------------------------------------ C03

C03_DIMS = {
    "state": ["defined", "null", "absent", "group_null", "group_absent"],
    "inh": ["none", "to_default", "self", "chain_end", "chain_default", "cycle", "rho"],
    "res": ["own", "inherited_1", "inherited_far", "default_by_end", "default_by_loop", "default_explicit"],
    "loop": ["none", "1", "2", "3+"],       # length of the `inherits` cycle the walk from the locale runs into
    "tail": ["0", "1", "2+"],               # hops from the locale to that cycle (0 = it is on it), else to the end of the walk
    "depth": ["1", "2", "3+"],
    "ns": ["none", "first", "later"],
    "pos": ["second", "later"],
    "nloc": ["2", "3", "4", "5+"],
    "fork": ["no", "yes"],
    "ndefaulted": ["0", "1", "2", "3+"],
    "name_order": ["none", "self", "before_target", "after_target"],
    "src_kind": ["literal", "interpolated", "empty", "ref_empty", "ref_text", "component"],   # the value the locale ends up using
    "listed": ["default_first", "default_not_first"],
    "build": ["normal", "suppress"],
}
INH_RES = {
    "none": {"own", "default_by_end"},
    "to_default": {"own", "default_explicit"},
    "self": {"own", "default_by_loop"},
    "chain_end": {"own", "inherited_1", "inherited_far", "default_by_end"},
    "chain_default": {"own", "inherited_1", "inherited_far", "default_explicit"},
    "cycle": {"own", "inherited_1", "inherited_far", "default_by_loop"},
    "rho": {"own", "inherited_1", "inherited_far", "default_by_loop"},
}


def c03_infeasible(d1, v1, d2, v2):
    if d1 == "state" and d2 == "res" and ((v1 == "defined") != (v2 == "own")):
        return "a locale uses its own value iff its file defines the key"
    if d1 == "inh" and d2 == "res" and v2 not in INH_RES[v1]:
        return "the outcome of the walk is determined by its shape"
    if d1 == "state" and d2 == "depth" and v1.startswith("group_") and v2 == "1":
        return "a top-level key has no parent group"
    if d1 == "inh" and d2 == "loop":
        ok = {"none": ["none"], "to_default": ["none"], "chain_end": ["none"], "chain_default": ["none"], "self": ["1"],
              "cycle": ["2", "3+"], "rho": ["1", "2", "3+"]}[v1]
        if v2 not in ok:
            return "the cycle length is part of the shape of the walk"
    if d1 == "inh" and d2 == "tail":
        ok = {"none": ["0"], "to_default": ["1"], "chain_end": ["1", "2+"], "chain_default": ["2+"], "self": ["0"],
              "cycle": ["0"], "rho": ["1", "2+"]}[v1]
        if v2 not in ok:
            return "the number of hops is part of the shape of the walk"
    if d1 == "res" and d2 == "loop":
        if v1 == "default_by_loop" and v2 == "none":
            return "the outcome of the walk is determined by its shape"
        if v1 in ("default_by_end", "default_explicit") and v2 != "none":
            return "the outcome of the walk is determined by its shape"
    if d1 == "res" and d2 == "tail" and v2 == "0" and v1 == "default_explicit":
        return "the outcome of the walk is determined by its shape"
    if d1 == "res" and d2 == "tail" and v2 == "1" and v1 == "inherited_far" and False:
        return None
    if d1 == "loop" and d2 == "tail" and v1 == "none" and False:
        return None
    if d1 == "loop" and d2 == "nloc":
        need = {"none": 0, "1": 1, "2": 2, "3+": 3}[v1] + 1
        if need > {"2": 2, "3": 3, "4": 4, "5+": 9}[v2]:
            return "not enough non-default locales"
    if d1 == "tail" and d2 == "nloc" and v1 == "2+" and v2 == "2":
        return "not enough non-default locales"
    if d1 == "name_order" and d2 == "loop" and ((v1 == "none" and v2 != "none") or (v1 == "self" and v2 != "1")):
        return "name order is relative to the locale's inherits target"
    if d1 == "name_order" and d2 == "tail" and v1 in ("none", "self") and v2 != "0":
        return "name order is relative to the locale's inherits target"
    if d1 == "name_order" and d2 == "tail" and v1 in ("before_target", "after_target") and v2 == "0" and False:
        return None
    if d1 == "fork" and v1 == "yes" and d2 == "tail" and v2 == "0" and False:
        return None
    if d1 == "nloc" and v1 == "2":
        if d2 == "pos" and v2 == "later":
            return "with two locales the only non-default locale is second"
        if d2 == "inh" and v2 in ("chain_end", "chain_default", "cycle", "rho"):
            return "needs a second non-default locale"
        if d2 == "res" and v2 in ("inherited_1", "inherited_far"):
            return "needs a second non-default locale"
        if d2 == "fork" and v2 == "yes":
            return "needs a second non-default locale"
    if d1 == "nloc" and v1 == "3" and d2 == "res" and v2 == "inherited_far":
        return "two hops to a defining non-default locale need four locales"
    if d1 == "inh" and d2 == "fork":
        if v1 == "none" and v2 == "yes":
            return "fork = another locale inherits from the same locale as this one: needs an inherits entry"
    if d1 == "ndefaulted":
        if v1 == "0" and d2 == "state" and v2 != "defined":
            return "the locale itself is one of the defaulted locales"
        if v1 == "0" and d2 == "res" and v2 != "own":
            return "the locale itself is one of the defaulted locales"
        if v1 == "1" and d2 == "res" and v2 == "inherited_far":
            return "two hops: the locale and its first parent both lack the key"
        if d2 == "nloc" and ((v2 == "2" and v1 in ("2", "3+")) or (v2 == "3" and v1 == "3+")):
            return "not enough non-default locales"
    if d1 == "name_order" and d2 == "inh" and ((v1 == "none") != (v2 == "none") or (v1 == "self") != (v2 == "self")):
        return "name order is relative to the locale's inherits target"
    if d1 == "name_order" and d2 == "res":
        if v1 == "none" and v2 not in INH_RES["none"]:
            return "the outcome of the walk is determined by its shape"
        if v1 == "self" and v2 not in INH_RES["self"]:
            return "the outcome of the walk is determined by its shape"
        if v1 in ("before_target", "after_target") and v2 == "default_by_end" :
            return None
    if d1 == "name_order" and d2 == "fork" and v1 == "none" and v2 == "yes":
        return "fork = another locale inherits from the same locale as this one: needs an inherits entry"
    if d1 == "name_order" and d2 == "nloc" and v2 == "2" and v1 in ():
        return None
    return None


def c03_tags(p, build):
    """one observation per (namespace, value path of the default file, non-default locale)"""
    if outcome_of(p) != "ok":
        return []
    order = order_of(p)
    dflt, inh = order[0], p["inherits"]
    listed = "default_first" if p["locales"] and p["locales"][0] == dflt else "default_not_first"
    obs = []
    for ns in (p["namespaces"] or ["-"]):
        d = p["files"]["%s/%s" % (ns, dflt)]
        for path, leaf in leaf_paths(d):
            nodes = {l: node_at(p["files"]["%s/%s" % (ns, l)], path) for l in order}
            st = {l: nodes[l][0] for l in order}
            for i, l in enumerate(order[1:]):
                obs.append({
                    "state": st[l], "inh": walk_shape(l, inh, dflt),
                    "res": resolution(l, inh, dflt, lambda x: st[x] == "defined"),
                    "loop": "none" if loop_tail(l, inh, dflt)[0] is None else cap(loop_tail(l, inh, dflt)[0], 3),
                    "tail": cap(loop_tail(l, inh, dflt)[1], 2),
                    "depth": cap(len(path), 3),
                    "ns": "none" if ns == "-" else "first" if ns == p["namespaces"][0] else "later",
                    "ndefaulted": cap(sum(1 for x in order[1:] if st[x] != "defined"), 3),
                    "name_order": ("none" if l not in inh else "self" if inh[l] == l else
                                   "before_target" if l.encode() < inh[l].encode() else "after_target"),
                    "pos": "second" if i == 0 else "later", "nloc": cap(len(order), 5),
                    "fork": "yes" if l in inh and any(x != l and inh.get(x) == inh[l] for x in order[1:]) else "no",
                    "src_kind": mc.leaf_kind(nodes[source_of(l, inh, dflt, lambda x: st[x] == "defined")][1]),
                    "listed": listed, "build": build})
    return obs


class KindIds:
    """payload ids of a requested kind (every 7th id is written with an interpolated variable)"""

    def __init__(self):
        self.n = 0

    def __call__(self, kind=None):
        self.n += 1
        while kind is not None and mc.INTERPOLATED(self.n) != (kind == "interpolated"):
            self.n += 1
        return self.n


def nest(path, node, siblings=None):
    """a forest holding [node] at [path] (node None = leave the last key out), plus a filler key at every level"""
    d = {}
    if len(path) == 1:
        if node is not None:
            d[path[0]] = node
    else:
        d[path[0]] = ["G", nest(path[1:], node, siblings)]
    if siblings is not None:
        d["zz"] = ["L", siblings()]
    return d


def file_with_state(path, state, ids, rng):
    if state == "defined":
        return nest(path, ["L", ids()], ids)
    if state == "null":
        return nest(path, ["N"], ids)
    if state == "absent":
        return nest(path, None, ids)
    cut = rng.randrange(1, len(path))          # which ancestor group is null / missing
    if state == "group_null":
        return nest(path[:cut], ["N"], ids)
    return nest(path[:cut], None, ids)


def c03_draw(rng, gap):
    sc = {d: rng.choice(v) for d, v in C03_DIMS.items()}
    d1, v1, d2, v2 = gap
    sc[d1], sc[d2] = v1, v2
    # make the free dimensions consistent with the forced ones where that is cheap
    if "res" not in (d1, d2):
        ok = [r for r in INH_RES[sc["inh"]] if (r == "own") == (sc["state"] == "defined")]
        if not ok:
            return None
        sc["res"] = rng.choice(sorted(ok))
    elif "inh" not in (d1, d2):
        ok = [i for i, rs in INH_RES.items() if sc["res"] in rs]
        sc["inh"] = rng.choice(sorted(ok))
    if "state" not in (d1, d2):
        if sc["res"] == "own":
            sc["state"] = "defined"
        elif sc["state"] == "defined":
            sc["state"] = rng.choice(["null", "absent", "group_null", "group_absent"])
    if sc["state"].startswith("group_") and sc["depth"] == "1":
        if "depth" in (d1, d2):
            if "state" in (d1, d2):
                return None
            sc["state"] = rng.choice(["null", "absent"]) if sc["res"] != "own" else "defined"
        else:
            sc["depth"] = rng.choice(["2", "3+"])
    return sc


def c03_build(rng, sc):
    shape = sc["inh"]
    want_t = {"0": 0, "1": 1, "2+": rng.choice([2, 2, 3])}[sc.get("tail", "1")]
    want_k = {"none": 0, "1": 1, "2": 2, "3+": rng.choice([3, 3, 4])}[sc.get("loop", "none")]
    entry = None
    if shape in ("none", "to_default", "self"):
        inter = 0
    elif shape == "chain_end":
        inter = max(1, want_t)
    elif shape == "chain_default":
        inter = max(1, want_t - 1)
    elif shape == "cycle":
        inter = max(2, want_k) - 1
    else:                                   # rho: a tail into a cycle that does not contain the locale
        t, k = max(1, want_t), max(1, want_k)
        inter, entry = t - 1 + k, t - 1
    if sc["res"] == "inherited_far" and inter < 2:
        if shape == "rho":
            inter, entry = 2, rng.choice([0, 1])
        elif shape in ("chain_end", "chain_default", "cycle"):
            inter = 2
        else:
            return None
    need = 2 + inter + (1 if sc["fork"] == "yes" else 0)
    nloc = {"2": 2, "3": 3, "4": 4, "5+": rng.choice([5, 6])}[sc["nloc"]]
    if sc["nloc"] != "5+" and need > nloc:
        return None
    nloc = max(nloc, need)
    if nloc > len(mc.LOCALE_POOL):
        return None
    if sc["pos"] == "later" and nloc < 3:
        return None
    if sc["fork"] == "yes" and shape == "none":
        return None
    names = rng.sample(mc.LOCALE_POOL, nloc)
    D, L = names[0], names[1]
    chain = names[2:2 + inter]
    rest = names[2 + inter:]
    inh = {}
    seq = [L] + chain
    for a, b in zip(seq, seq[1:]):
        inh[a] = b
    last = seq[-1]
    if shape in ("to_default", "chain_default"):
        inh[last] = D
    elif shape == "self":
        inh[L] = L
    elif shape == "cycle":
        inh[last] = L
    elif shape == "rho":
        inh[last] = chain[entry]
    forker = None
    if sc["fork"] == "yes":
        forker = rest.pop(0)
        inh[forker] = inh[L]
    elif L in inh:
        # no other locale may share L's target
        if any(x != L and inh.get(x) == inh[L] for x in inh):
            return None
    depth = {"1": 1, "2": 2, "3+": rng.choice([3, 3, 4])}[sc["depth"]]
    path = ["g", "h", "k_x", "sub"][:depth - 1] + ["a"]
    ids = KindIds()
    others = [x for x in names[2:] if x != forker] + ([forker] if forker else [])
    order = [D, L] + others if sc["pos"] == "second" else [D] + others + [L]
    nss = {"none": None, "first": rng.choice([["common"], ["common", "home"]]),
           "later": rng.choice([["admin", "common"], ["home", "admin", "common"]])}[sc["ns"]]
    files = {}
    for ns in (nss or ["-"]):
        focus_ns = ns in ("-", "common")
        for nm in names:
            if not focus_ns:
                files["%s/%s" % (ns, nm)] = ["G", {"t": ["L", ids()]} if nm == D or rng.random() < 0.5 else {}]
                continue
            if nm == D:
                dd = nest(path, ["L", ids()], ids)
                files["%s/%s" % (ns, nm)] = ["G", dd]
                continue
            if nm == L:
                st = sc["state"]
            elif nm in chain:
                j = chain.index(nm)
                defines = (sc["res"] == "inherited_1" and j == 0) or (sc["res"] == "inherited_far" and j == 1)
                if sc["res"] == "own":
                    defines = rng.random() < 0.5
                st = "defined" if defines else rng.choice(["null", "absent"] + (["group_null", "group_absent"] if depth > 1 else []))
            else:
                st = rng.choice(["defined", "null", "absent"])
            files["%s/%s" % (ns, nm)] = ["G", file_with_state(path, st, ids, rng)]
    # the value the focus locale ends up using has the requested kind (in the locale it comes from)
    src = {"own": L, "inherited_1": chain[0] if chain else None, "inherited_far": chain[1] if len(chain) > 1 else None}.get(sc["res"], D)
    if src is None:
        return None
    fns = "-" if nss is None else "common"
    kind = sc["src_kind"]
    for nm in names:
        t = files["%s/%s" % (fns, nm)][1]
        want_empty = (kind == "ref_empty") if nm == src else rng.random() < 0.5
        if nm == src and kind == "ref_text":
            want_empty = False
        t[mc.HELPER] = ["L", mc.EMPTY, ""] if want_empty else ["L", 800000 + ids()]
    st = files["%s/%s" % (fns, src)]
    node = st
    for k in path[:-1]:
        node = node[1].get(k)
        if node is None or node[0] != "G":
            return None
    if path[-1] not in node[1] or node[1][path[-1]][0] != "L":
        return None
    if kind in ("literal", "interpolated"):
        node[1][path[-1]] = ["L", ids(kind)]
    else:
        node[1][path[-1]] = mc.special_leaf(kind, fns, st[1][mc.HELPER][1])
    listed = list(order)
    if sc["listed"] == "default_not_first":
        if len(listed) == 1:
            return None
        i = rng.randrange(1, len(listed))
        listed[0], listed[i] = listed[i], listed[0]      # ConfigFile::new swaps it back
    return {"default": D, "locales": listed, "inherits": inh, "namespaces": nss, "files": files, "roles": order}


# ------------------------------------------------------------------ C07

C07_DIMS = {
    "kstate": ["present_leaf", "present_group", "null_leaf", "null_group", "absent_leaf", "absent_group",
               "surplus_leaf", "surplus_group", "surplus_null", "mism_group_for_leaf", "mism_leaf_for_group",
               "under_null_group", "under_absent_group"],
    "depth": ["1", "2", "3+"],
    "ns": ["none", "only", "first", "later"],
    "pos": ["second", "later"],
    "prev": ["first_locale", "prev_present", "prev_null", "prev_absent", "prev_unreachable"],
    "inh": ["none", "to_default", "to_other", "loop"],
    "balance": ["neither", "only_absent", "only_surplus", "absent<surplus", "absent=surplus", "absent>surplus"],
    "nloc": ["1", "2", "3", "4+"],
    "outcome": ["ok", "err_mismatch", "err_default_null"],
    "build": ["normal", "suppress"],
}


def c07_infeasible(d1, v1, d2, v2):
    if d1 == "kstate" and d2 == "outcome" and (v1.startswith("mism_") != (v2 == "err_mismatch")):
        return "a group/value mismatch is an error; a rejected project shows no diagnostics for its other keys"
    if d1 == "outcome" and v1 == "err_default_null" and d2 in ("kstate", "balance", "prev", "depth", "pos", "inh"):
        return "a null in the default locale is rejected before any locale is merged"
    if d1 == "kstate" and d2 == "balance":
        if v1.startswith("absent_") and v2 in ("neither", "only_surplus"):
            return "the key itself is counted at its level"
        if v1.startswith("surplus_") and v2 in ("neither", "only_absent"):
            return "the key itself is counted at its level"
        if v1.startswith("under_") and v2 is not None:
            return "below a null/absent group nothing is compared"
    if d1 == "kstate" and d2 == "depth" and v1.startswith("under_") and v2 == "1":
        return "a top-level key has no parent group"
    if d1 == "prev":
        if d2 == "pos" and ((v1 == "first_locale") != (v2 == "second")):
            return "the second locale is the first one merged"
        if d2 == "nloc" and v2 == "2" and v1 != "first_locale":
            return "with two locales the only non-default locale is second"
        if d2 == "depth" and v2 == "1" and v1 == "prev_unreachable":
            return "a top-level key has no parent group"
    if d1 == "nloc" and v1 == "2":
        if d2 == "pos" and v2 == "later":
            return "with two locales the only non-default locale is second"
        if d2 == "inh" and v2 == "to_other":
            return "needs a second non-default locale"
    if d1 == "nloc" and v1 == "1":
        if d2 in ("kstate", "balance", "prev", "depth", "pos", "inh"):
            return "no non-default locale"
        if d2 == "outcome" and v2 == "err_mismatch":
            return "no non-default locale"
    return None


def c07_inh_kind(l, inh, dflt):
    s = walk_shape(l, inh, dflt)
    if s == "none":
        return "none"
    if inh[l] == dflt:
        return "to_default"
    if s in ("self", "cycle", "rho"):
        return "loop"
    return "to_other"


def c07_under(d, depth, base, ks, prevf, path, obs):
    for k, dv in d[1].items():
        if dv[0] == "N":
            continue
        obs.append(dict(base, kstate=ks, depth=cap(depth, 3), balance=None, prev=prev_state(prevf, path + [k])))
        if dv[0] == "G":
            c07_under(dv, depth + 1, base, ks, prevf, path + [k], obs)


def prev_state(prevf, path):
    if prevf is None:
        return "first_locale"
    st = node_at(prevf, path)[0]
    return {"defined": "prev_present", "group": "prev_present", "null": "prev_null", "absent": "prev_absent"}.get(st, "prev_unreachable")


def c07_level(d, t, depth, base, prevf, path, obs):
    keys = sorted(set(d[1]) | set(t[1]))
    n_abs = sum(1 for k in d[1] if k not in t[1])
    n_sur = sum(1 for k in t[1] if k not in d[1])
    bal = ("neither" if not n_abs and not n_sur else "only_absent" if not n_sur else "only_surplus" if not n_abs else
           "absent<surplus" if n_abs < n_sur else "absent=surplus" if n_abs == n_sur else "absent>surplus")
    for k in keys:
        dv, tv = d[1].get(k), t[1].get(k)
        if dv is None:
            ks = {"L": "surplus_leaf", "G": "surplus_group", "N": "surplus_null"}[tv[0]]
        elif dv[0] == "N":
            continue                       # a null in the default: the whole project is an error
        elif tv is None:
            ks = "absent_leaf" if dv[0] == "L" else "absent_group"
        elif tv[0] == "N":
            ks = "null_leaf" if dv[0] == "L" else "null_group"
        elif dv[0] == "L":
            ks = "present_leaf" if tv[0] == "L" else "mism_group_for_leaf"
        else:
            ks = "present_group" if tv[0] == "G" else "mism_leaf_for_group"
        obs.append(dict(base, kstate=ks, depth=cap(depth, 3), balance=bal, prev=prev_state(prevf, path + [k])))
        if ks == "present_group":
            c07_level(dv, tv, depth + 1, base, prevf, path + [k], obs)
        elif ks in ("null_group", "absent_group"):
            c07_under(dv, depth + 1, base, "under_null_group" if ks == "null_group" else "under_absent_group",
                      prevf, path + [k], obs)


def c07_tags(p, build):
    order = order_of(p)
    dflt, inh = order[0], p["inherits"]
    nss = p["namespaces"]
    out = outcome_of(p)
    obs = []
    for j, ns in enumerate(nss or ["-"]):
        d = p["files"]["%s/%s" % (ns, dflt)]
        for i, l in enumerate(order[1:]):
            base = {"ns": "none" if nss is None else "only" if len(nss) == 1 else "first" if j == 0 else "later",
                    "pos": "second" if i == 0 else "later", "inh": c07_inh_kind(l, inh, dflt),
                    "nloc": cap(len(order), 4), "outcome": out, "build": build}
            prevf = p["files"]["%s/%s" % (ns, order[i])] if i > 0 else None
            c07_level(d, p["files"]["%s/%s" % (ns, l)], 1, base, prevf, [], obs)
    if len(order) == 1 and out == "ok":
        obs = [{"ns": "none" if nss is None else "only" if len(nss) == 1 else "first", "nloc": "1", "outcome": out, "build": build}]
    # a project that is rejected shows no diagnostics: only what raises the error counts as exercised
    if out == "err_mismatch":
        obs = [o for o in obs if o["kstate"].startswith("mism_")]
    elif out == "err_default_null":
        bad_ns = [j for j, ns in enumerate(nss or ["-"]) if has_null(p["files"]["%s/%s" % (ns, dflt)])][0]
        obs = [{"ns": "none" if nss is None else "only" if len(nss) == 1 else "first" if bad_ns == 0 else "later",
                "nloc": cap(len(order), 4), "outcome": out, "build": build}]
    return obs


def c07_draw(rng, gap):
    sc = {d: rng.choice(v) for d, v in C07_DIMS.items()}
    d1, v1, d2, v2 = gap
    sc[d1], sc[d2] = v1, v2
    if sc["kstate"].startswith("mism_") and sc["outcome"] == "ok":
        if "outcome" in (d1, d2) and "kstate" in (d1, d2):
            return None
        if "outcome" in (d1, d2):
            sc["kstate"] = rng.choice([k for k in C07_DIMS["kstate"] if not k.startswith("mism_")])
        else:
            sc["outcome"] = "err_mismatch"
    if sc["outcome"] == "err_mismatch" and not sc["kstate"].startswith("mism_"):
        if "kstate" in (d1, d2):
            return None
        sc["kstate"] = rng.choice(["mism_group_for_leaf", "mism_leaf_for_group"])
    if sc["outcome"] == "ok" and "outcome" not in (d1, d2) and rng.random() < 0.0:
        pass
    if "pos" in (d1, d2) and "prev" not in (d1, d2):
        sc["prev"] = "first_locale" if sc["pos"] == "second" else rng.choice(C07_DIMS["prev"][1:])
    elif "prev" in (d1, d2):
        if "pos" in (d1, d2) and ((sc["prev"] == "first_locale") != (sc["pos"] == "second")):
            return None
        sc["pos"] = "second" if sc["prev"] == "first_locale" else "later"
    elif (sc["prev"] == "first_locale") != (sc["pos"] == "second"):
        sc["prev"] = "first_locale" if sc["pos"] == "second" else rng.choice(C07_DIMS["prev"][1:])
    if sc["kstate"].startswith("under_"):
        if "balance" in (d1, d2):
            return None
        sc["balance"] = "neither"
        if sc["depth"] == "1":
            if "depth" in (d1, d2):
                return None
            sc["depth"] = rng.choice(["2", "3+"])
    if sc["prev"] == "prev_unreachable" and sc["depth"] == "1":
        if "depth" in (d1, d2) and "prev" in (d1, d2):
            return None
        if "depth" in (d1, d2):
            sc["prev"] = rng.choice(["prev_present", "prev_null", "prev_absent"])
        else:
            sc["depth"] = rng.choice(["2", "3+"])
    return sc


def c07_build(rng, sc):
    if sc["nloc"] == "1":
        if sc["outcome"] == "err_mismatch":
            return None
        D = rng.choice(mc.LOCALE_POOL)
        nss1 = {"none": None, "only": [rng.choice(mc.NS_POOL)]}.get(sc["ns"], rng.sample(mc.NS_POOL, 2))
        bad = len(nss1) - 1 if nss1 and sc["ns"] == "later" else 0
        fl = {}
        for j, ns in enumerate(nss1 or ["-"]):
            t = {"a": ["L", 1 + j], "g": ["G", {"x": ["L", 10 + j]}]}
            if sc["outcome"] == "err_default_null" and j == bad:
                t["dn"] = ["N"]
            fl["%s/%s" % (ns, D)] = ["G", t]
        return {"default": D, "locales": [D], "inherits": {}, "namespaces": nss1, "files": fl, "roles": [D]}
    nloc = {"2": 2, "3": 3, "4+": rng.choice([4, 5])}[sc["nloc"]]
    if sc["pos"] == "later" and nloc < 3:
        return None
    if sc["inh"] == "to_other" and nloc < 3:
        return None
    ks, bal = sc["kstate"], sc["balance"]
    own_abs = 1 if ks.startswith("absent_") else 0
    own_sur = 1 if ks.startswith("surplus_") else 0
    choices = {"neither": [(0, 0)], "only_absent": [(1, 0), (2, 0), (3, 0)], "only_surplus": [(0, 1), (0, 2), (0, 3)],
               "absent<surplus": [(1, 2), (1, 3), (2, 3)], "absent=surplus": [(1, 1), (2, 2)],
               "absent>surplus": [(2, 1), (3, 1), (3, 2)]}[bal]
    choices = [(a, s) for a, s in choices if a >= own_abs and s >= own_sur]
    if not choices:
        return None
    n_abs, n_sur = rng.choice(choices)
    names = rng.sample(mc.LOCALE_POOL, nloc)
    D, L, others = names[0], names[1], names[2:]
    inh = {}
    if sc["inh"] == "to_default":
        inh[L] = D
    elif sc["inh"] == "to_other":
        inh[L] = others[0]
    elif sc["inh"] == "loop":
        if others and rng.random() < 0.5:
            inh[L], inh[others[0]] = others[0], L
        else:
            inh[L] = L
    for o in others:
        if o not in inh and rng.random() < 0.3:
            inh[o] = rng.choice([D, L, o])
    ids = mc.Ids()
    depth = {"1": 1, "2": 2, "3+": rng.choice([3, 4])}[sc["depth"]]
    groups = ["g", "h", "sub", "k_x"][:depth - 1]
    # the focus level
    dl, ll = {}, {}
    focus = "a"
    leaf = lambda: ["L", ids()]      # noqa: E731
    grp = lambda: ["G", {"x": ["L", ids()], "y": ["L", ids()]}]      # noqa: E731
    if ks == "present_leaf":
        dl[focus], ll[focus] = leaf(), leaf()
    elif ks == "present_group":
        dl[focus], ll[focus] = grp(), ["G", {"x": ["L", ids()]}]
    elif ks == "null_leaf":
        dl[focus], ll[focus] = leaf(), ["N"]
    elif ks == "null_group":
        dl[focus], ll[focus] = grp(), ["N"]
    elif ks == "absent_leaf":
        dl[focus] = leaf()
    elif ks == "absent_group":
        dl[focus] = grp()
    elif ks == "surplus_leaf":
        ll[focus] = leaf()
    elif ks == "surplus_group":
        ll[focus] = grp()
    elif ks == "surplus_null":
        ll[focus] = ["N"]
    elif ks == "mism_group_for_leaf":
        dl[focus], ll[focus] = leaf(), grp()
    elif ks.startswith("under_"):
        dl[focus] = leaf() if rng.random() < 0.6 else grp()
    else:
        dl[focus], ll[focus] = grp(), leaf()
    for i in range(n_abs - own_abs):
        dl["m%d" % i] = leaf() if rng.random() < 0.7 else grp()
    for i in range(n_sur - own_sur):
        ll["s%d" % i] = leaf() if rng.random() < 0.6 else (["N"] if rng.random() < 0.3 else grp())
    dl["p"], ll["p"] = leaf(), leaf()                 # one key present on both sides
    if sc.get("extra_mismatch"):
        dl["q"], ll["q"] = leaf(), grp()

    def wrap(level):
        t = level
        for g in reversed(groups):
            t = {g: ["G", t], "zz": ["L", ids()]}
        return t
    def wrap_cut(levels, top):
        """the groups chain cut at its last group: that group is [top] (null) or left out (None)"""
        t = {groups[-1]: top} if top is not None else {}
        t["zz"] = ["L", ids()]
        for g in reversed(groups[:-1]):
            t = {g: ["G", t], "zz": ["L", ids()]}
        return t
    dtree = wrap(dl)
    if ks == "under_null_group":
        ltree = wrap_cut(groups, ["N"])
    elif ks == "under_absent_group":
        ltree = wrap_cut(groups, None)
    else:
        ltree = wrap(ll)
    if sc["outcome"] == "err_default_null":
        dtree["dn"] = ["N"]
    nss = {"none": None, "only": [rng.choice(mc.NS_POOL)], "first": rng.sample(mc.NS_POOL, rng.choice([2, 3])),
           "later": rng.sample(mc.NS_POOL, rng.choice([2, 3]))}[sc["ns"]]
    focus_j = len(nss) - 1 if sc["ns"] == "later" else 0
    order = [D, L] + others if sc["pos"] == "second" else [D] + others + [L]
    prev_file = None
    if sc["pos"] == "later":
        pv = sc["prev"]
        if pv == "prev_unreachable":
            prev_file = wrap_cut(groups, ["N"] if rng.random() < 0.5 else None)
        else:
            lvl = {"p": ["L", ids()]}
            if pv == "prev_present" and focus in dl:
                lvl[focus] = ["L", ids()] if dl[focus][0] == "L" else ["G", {"x": ["L", ids()]}]
            elif pv == "prev_present":
                lvl[focus] = ["L", ids()]            # a surplus key that the previous locale holds as well
            elif pv == "prev_null":
                lvl[focus] = ["N"]
            prev_file = wrap(lvl)
    files = {}
    for j, ns in enumerate(nss or ["-"]):
        for nm in names:
            if sc["pos"] == "later" and nm == others[-1] and j == focus_j:
                files["%s/%s" % (ns, nm)] = ["G", prev_file]
            elif j != focus_j:
                files["%s/%s" % (ns, nm)] = ["G", {"t": ["L", ids()]} if nm == D or rng.random() < 0.6 else {"u": ["L", ids()]}]
            elif nm == D:
                files["%s/%s" % (ns, nm)] = ["G", dtree]
            elif nm == L:
                files["%s/%s" % (ns, nm)] = ["G", ltree]
            else:
                files["%s/%s" % (ns, nm)] = mc.derive_tree(rng, ids, ["G", dtree] if not has_null(["G", dtree]) else ["G", {"zz": ["L", 1]}],
                                                           p_absent=0.3, p_null=0.2, p_surplus=0.3)
    return {"default": D, "locales": list(order), "inherits": inh, "namespaces": nss, "files": files, "roles": order}
