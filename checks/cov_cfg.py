"""Pairwise-coverage dimensions, tagging and directed builder for the C19 generator (checks/C19.py).
An observation is one generated case (configuration as written + file format + directory layout);
tagging reads only those inputs (the expected outcome is derived from the documented precedence, never
from the implementation's answer)."""
import os

EXTS = {"json": ["json"], "yaml": ["yaml", "yml"], "json5": ["json5"]}
LOCS = ["en", "fr", "de", "it", "fr-CA", "pt-BR", "es", "nl"]
NSS = ["common", "home", "admin", "a_b"]
ABS = "@ABS@"        # replaced by the case directory when the project is written

DIMS = {
    "req": ["present", "missing_default", "missing_locales"],
    "dpos": ["first", "second", "later", "unlisted"],
    "dups": ["none", "adjacent", "non_adjacent", "three", "of_default", "by_trim"],
    "nlisted": ["0", "1", "2", "3", "4+"],
    "ns": ["none", "one", "several", "dup"],
    "dir": ["unset", "plain", "nested", "dot_slash", "parent", "hidden", "trailing_slash", "absolute"],
    "inh": ["none", "valid", "cycle", "to_default_unlisted", "unknown_key", "unknown_value", "default_key"],
    "inh_form": ["none", "inline", "subtable"],
    "unknown": ["0", "1+"],
    "surround": ["none", "before", "after", "both"],
    "pad": ["none", "some"],
    "fmt": ["json", "yaml", "json5"],
    "layout": ["complete", "missing_file", "alt_ext", "both_ext"],
    "malformed": ["none", "type_locales", "type_default", "no_section", "syntax", "type_inherits", "dup_key"],
    # the text around the section (it does not change the table the section denotes)
    "eol": ["lf", "crlf", "mixed", "lone_cr"],
    "head": ["none", "one", "two", "std", "many"],        # lines before the header: 0, 1, 2, 6+, 50+
    "final_nl": ["yes", "no"],
    "bom": ["no", "yes"],
    "trail": ["none", "spaces", "tab", "comment"],        # what follows the header on its line
    "indent": ["no", "yes"],
    "mention": ["none", "comment", "comment_end", "string"],   # the header string mentioned before the section header
    "outcome": ["ok", "dup_locales", "dup_namespaces", "unknown_locale", "default_inherits", "missing_field", "not_found", "deser"],
}


def strip_all(xs):
    return [x.strip() for x in xs]


def dir_kind(d):
    if d is None:
        return "unset"
    if d.startswith(ABS) or d.startswith("/"):
        return "absolute"
    if d.startswith("../"):
        return "parent"
    if d.startswith("./"):
        return "dot_slash"
    if d.startswith("."):
        return "hidden"
    if d.endswith("/"):
        return "trailing_slash"
    if "/" in d:
        return "nested"
    return "plain"


def dups_kind(raw):
    ls = strip_all(raw)
    cnt = {}
    for x in ls:
        cnt[x] = cnt.get(x, 0) + 1
    d = [x for x, n in cnt.items() if n > 1]
    if not d:
        return "none", d
    if any(cnt[x] >= 3 for x in d):
        return "three", d
    rawcnt = {}
    for x in raw:
        rawcnt[x] = rawcnt.get(x, 0) + 1
    if all(n == 1 for n in rawcnt.values()):
        return "by_trim", d
    x = d[0]
    i = ls.index(x)
    j = ls.index(x, i + 1)
    return ("adjacent" if j == i + 1 else "non_adjacent"), d


def stems_of(cfg):
    d = cfg["default"].strip()
    locs = []
    for x in [d] + strip_all(cfg["locales"]):
        if x not in locs:
            locs.append(x)
    ld = cfg["locales_dir"] if cfg["locales_dir"] is not None else "locales"
    if cfg["namespaces"] is None:
        return [os.path.join(ld, l) for l in locs]
    seen = []
    for ns in strip_all(cfg["namespaces"]):
        if ns not in seen:
            seen.append(ns)
    return [os.path.join(ld, l, ns) for ns in seen for l in locs]


def layout_kind(cfg, fmt, files):
    exts = EXTS[fmt]
    fs = set(files)
    kinds = set()
    for s in stems_of(cfg):
        have = [e for e in exts if s + "." + e in fs]
        if not have:
            kinds.add("missing_file")
        elif len(have) > 1:
            kinds.add("both_ext")
        elif have[0] != exts[0]:
            kinds.add("alt_ext")
    for k in ("missing_file", "both_ext", "alt_ext"):
        if k in kinds:
            return k
    return "complete"


def tags(cfg, fmt, files):
    req = {"default": "missing_default", "locales": "missing_locales"}.get(cfg["missing"], "present")
    d = cfg["default"].strip() if req != "missing_default" else None
    have_l = req != "missing_locales"
    ls = strip_all(cfg["locales"]) if have_l else []
    o = {"req": req, "fmt": fmt, "malformed": cfg["malformed"] or "none",
         "unknown": "0" if not cfg["unknown"] else "1+",
         "surround": {(False, False): "none", (True, False): "before", (False, True): "after", (True, True): "both"}[
             (bool(cfg["before"]), bool(cfg["after"]))],
         "dir": dir_kind(cfg["locales_dir"])}
    tx = cfg.get("text") or {}
    o.update({"eol": tx.get("eol", "lf"), "head": tx.get("head", "std"), "final_nl": "yes" if tx.get("final_nl", True) else "no",
              "bom": "yes" if tx.get("bom") else "no", "trail": tx.get("trail", "none"), "indent": "yes" if tx.get("indent") else "no",
              "mention": tx.get("mention", "none")})
    o["dpos"] = None
    if have_l and d is not None:
        o["dpos"] = "unlisted" if d not in ls else ("first", "second")[ls.index(d)] if ls.index(d) < 2 else "later"
    dk, dnames = dups_kind(cfg["locales"]) if have_l else (None, [])
    if dk in ("adjacent", "non_adjacent") and d is not None and d in dnames:
        dk = "of_default"
    o["dups"] = dk
    o["nlisted"] = (str(len(ls)) if len(ls) < 4 else "4+") if have_l else None
    nss = cfg["namespaces"]
    o["ns"] = ("none" if nss is None else "dup" if len(set(strip_all(nss))) < len(nss) else
               "one" if len(nss) == 1 else "several")
    inh = [(k.strip(), v.strip()) for k, v in (cfg["inherits"] or [])]
    known = set(ls) | ({d} if d is not None else set())
    unknown_hit = any(k not in known or v not in known for k, v in inh)
    if not inh:
        ik = "none"
    elif d is not None and any(k == d for k, _ in inh):
        ik = "default_key"
    elif any(k not in known for k, _ in inh):
        ik = "unknown_key"
    elif any(v not in known for _, v in inh):
        ik = "unknown_value"
    elif d is not None and d not in ls and any(v == d for _, v in inh):
        ik = "to_default_unlisted"
    else:
        m = dict(inh)
        cyc = False
        for k in m:
            seen, cur = [k], k
            while cur in m:
                cur = m[cur]
                if cur in seen:
                    cyc = True
                    break
                seen.append(cur)
        ik = "cycle" if cyc else "valid"
    o["inh"] = ik
    o["inh_form"] = "none" if not inh else "subtable" if cfg["inherits_as_table"] else "inline"
    raws = ([cfg["default"]] if d is not None else []) + (cfg["locales"] if have_l else []) + (nss or []) + \
           [x for kv in (cfg["inherits"] or []) for x in kv]
    o["pad"] = "some" if any(x != x.strip() for x in raws) else "none"
    o["layout"] = layout_kind(cfg, fmt, files) if req == "present" else None
    # the documented outcome, by precedence
    if cfg["malformed"]:
        out = "deser"
    elif req != "present":
        out = "missing_field"
    elif unknown_hit:
        out = "unknown_locale"
    elif any(k == d for k, _ in inh):
        out = "default_inherits"
    elif dk != "none":
        out = "dup_locales"
    elif o["ns"] == "dup":
        out = "dup_namespaces"
    elif o["layout"] == "missing_file":
        out = "not_found"
    else:
        out = "ok"
    o["outcome"] = out
    # what an earlier rejection leaves unexamined is not counted as exercised
    for dname in list(o):
        if dname not in VISIBLE[out]:
            o[dname] = None
    return [o]


COMMON = {"outcome", "malformed", "surround", "unknown", "fmt", "req", "eol", "head", "final_nl", "bom", "trail", "indent", "mention"}
VISIBLE = {
    "deser": COMMON,
    "missing_field": COMMON | {"inh_form", "pad"},
    "unknown_locale": COMMON | {"inh_form", "pad", "inh", "dpos", "nlisted"},
    "default_inherits": COMMON | {"inh_form", "pad", "inh", "dpos", "nlisted"},
    "dup_locales": COMMON | {"inh_form", "pad", "inh", "dpos", "nlisted", "dups"},
    "dup_namespaces": COMMON | {"inh_form", "pad", "inh", "dpos", "nlisted", "dups", "ns"},
    "not_found": set(DIMS),
    "ok": set(DIMS),
}


def compatible(d, v, o):
    """can value v of dimension d occur in a configuration whose documented outcome is o"""
    if d == "malformed":
        return (v != "none") == (o == "deser")
    if d == "req":
        return o in ("missing_field", "deser") if v != "present" else o != "missing_field"
    if d == "inh":
        if v in ("unknown_key", "unknown_value"):
            return o in ("unknown_locale", "missing_field", "deser")
        if v == "default_key":
            return o in ("default_inherits", "unknown_locale", "missing_field", "deser")
        return o not in ("unknown_locale", "default_inherits")
    if d == "inh_form" and v == "none":
        return o not in ("unknown_locale", "default_inherits")
    if d == "dups":
        return o not in ("ok", "dup_namespaces", "not_found") if v != "none" else o != "dup_locales"
    if d == "nlisted" and v in ("0", "1"):
        return o != "dup_locales"
    if d == "ns":
        return o not in ("ok", "not_found") if v == "dup" else o != "dup_namespaces"
    if d == "layout":
        return o != "ok" if v == "missing_file" else o != "not_found"
    return True


def structural(d1, v1, d2, v2):
    if d1 == "eol" and v1 == "lone_cr" and d2 == "head" and v2 == "none":
        return "the lone carriage return sits in a line before the header"
    if d1 == "mention" and d2 == "head" and ((v1 != "none" and v2 == "none") or (v1 == "string" and v2 == "one")):
        return "a mention is a line, or a string of the [package] table, before the header"
    if d1 == "surround" and v1 in ("before", "both") and d2 == "head" and v2 in ("none", "one", "two"):
        return "other tables before the section come with the standard or long preamble"
    if d1 == "malformed" and d2 == "req" and ((v1 in ("type_default", "dup_key") and v2 == "missing_default") or
                                               (v1 == "type_locales" and v2 == "missing_locales")):
        return "the malformed field is the one that is left out"
    if d1 == "inh" and d2 == "inh_form" and ((v1 == "none") != (v2 == "none")):
        return "the form is that of a non-empty `inherits` table"
    if d1 == "dups":
        if d2 == "nlisted":
            need = {"none": 0, "adjacent": 2, "non_adjacent": 3, "three": 3, "of_default": 2, "by_trim": 2}[v1]
            if (4 if v2 == "4+" else int(v2)) < need:
                return "not enough listed locales"
        if v1 == "of_default" and d2 == "dpos" and v2 == "unlisted":
            return "the duplicated default is listed"
        if v1 == "by_trim" and d2 == "pad" and v2 == "none":
            return "duplicates that appear only after trimming need a padded name"
        if v1 == "of_default" and d2 == "inh" and v2 == "to_default_unlisted":
            return "the duplicated default is listed"
    if d1 == "dpos" and d2 == "nlisted":
        if {"first": 1, "second": 2, "later": 3, "unlisted": 0}[v1] > (4 if v2 == "4+" else int(v2)):
            return "not enough listed locales"
    if d1 == "layout" and d2 == "fmt" and v1 in ("alt_ext", "both_ext") and v2 in ("json", "json5"):
        return "the format has a single extension"
    if d1 == "inh" and v1 == "to_default_unlisted" and d2 == "dpos" and v2 != "unlisted":
        return "the default is listed"
    if d1 == "nlisted" and d2 == "inh":
        if v1 == "0" and v2 in ("valid", "cycle", "to_default_unlisted", "unknown_value"):
            return "an `inherits` entry with a known non-default key needs a listed locale"
        if v1 == "1" and v2 == "valid":
            return "one listed locale can only inherit from itself or from the default"
    return None


def infeasible(d1, v1, d2, v2):
    r = structural(d1, v1, d2, v2) or structural(d2, v2, d1, v1)
    if r:
        return r
    if d2 == "outcome":
        d1, v1, d2, v2 = d2, v2, d1, v1
    if d1 == "outcome":
        if d2 not in VISIBLE[v1]:
            return "not examined when the configuration is rejected earlier (or for another reason)"
        if not compatible(d2, v2, v1):
            return "the value decides the documented outcome otherwise"
        return None
    outs = [o for o in DIMS["outcome"] if compatible(d1, v1, o) and compatible(d2, v2, o)]
    if not outs:
        return "the two values call for different outcomes, the earlier one hides the other"
    if not any(d1 in VISIBLE[o] and d2 in VISIBLE[o] for o in outs):
        return "not examined when the configuration is rejected earlier (or for another reason)"
    return None


# ------------------------------------------------------------------ directed builder

def draw(rng, gap):
    sc = {d: rng.choice(v) for d, v in DIMS.items()}
    # most dimensions at their quiet value most of the time, so that the forced pair decides the outcome
    for d, quiet in (("malformed", "none"), ("req", "present"), ("dups", "none"), ("ns", rng.choice(["none", "one", "several"])),
                     ("inh", rng.choice(["none", "valid"])), ("layout", "complete"), ("pad", "none")):
        if rng.random() < 0.8:
            sc[d] = quiet
    d1, v1, d2, v2 = gap
    sc[d1], sc[d2] = v1, v2
    want = sc["outcome"] if "outcome" in (d1, d2) else None
    if want is not None:
        # steer the inputs towards the requested outcome (tagging decides whether it was reached)
        forced = {d1, d2}

        def setif(d, v):
            if d not in forced:
                sc[d] = v
        if want != "deser":
            setif("malformed", "none")
        if want not in ("missing_field", "deser"):
            setif("req", "present")
        if want == "deser":
            if sc["malformed"] == "none":
                setif("malformed", rng.choice(DIMS["malformed"][1:]))
        elif want == "missing_field":
            if sc["req"] == "present":
                setif("req", rng.choice(["missing_default", "missing_locales"]))
        elif want == "unknown_locale":
            if sc["inh"] not in ("unknown_key", "unknown_value", "default_key"):
                setif("inh", rng.choice(["unknown_key", "unknown_value"]))
            sc["also_unknown"] = True
        else:
            if sc["inh"] in ("unknown_key", "unknown_value") or (sc["inh"] == "default_key") != (want == "default_inherits"):
                setif("inh", "default_key" if want == "default_inherits" else rng.choice(["none", "valid"]))
            if want != "default_inherits":
                if (sc["dups"] != "none") != (want == "dup_locales"):
                    setif("dups", rng.choice(DIMS["dups"][1:]) if want == "dup_locales" else "none")
                if want != "dup_locales":
                    if (sc["ns"] == "dup") != (want == "dup_namespaces"):
                        setif("ns", "dup" if want == "dup_namespaces" else rng.choice(["none", "one", "several"]))
                    if want != "dup_namespaces":
                        if (sc["layout"] == "missing_file") != (want == "not_found"):
                            setif("layout", "missing_file" if want == "not_found" else "complete")
    return sc


def build(rng, sc):
    if (sc["malformed"] in ("type_default", "dup_key") and sc["req"] == "missing_default") or \
            (sc["malformed"] == "type_locales" and sc["req"] == "missing_locales"):
        return None
    names = rng.sample(LOCS, len(LOCS))
    d = names[0]
    pool = names[1:]
    n = {"0": 0, "1": 1, "2": 2, "3": 3, "4+": rng.choice([4, 5])}[sc["nlisted"]]
    dk = sc["dups"]
    extra = {"none": 0, "three": 2}.get(dk, 1)
    m = n - extra
    if m < 0:
        return None
    listed_d = sc["dpos"] != "unlisted"
    if dk == "of_default" and not listed_d:
        return None
    core = pool[:m - (1 if listed_d else 0)] if m - (1 if listed_d else 0) >= 0 else None
    if core is None:
        return None
    core = list(core)
    if listed_d:
        want = {"first": 0, "second": 1, "later": rng.randrange(2, max(3, len(core) + 1))}[sc["dpos"]]
        if want > len(core):
            return None
        core.insert(want, d)
    listed = list(core)
    nond = [x for x in listed if x != d]
    if dk == "of_default":
        listed.insert(rng.randrange(listed.index(d) + 1, len(listed) + 1), d)
    elif dk in ("adjacent", "by_trim", "non_adjacent", "three"):
        if not nond:
            return None
        x = rng.choice(nond)
        i = listed.index(x)
        if dk == "adjacent":
            listed.insert(i + 1, x)
        elif dk == "by_trim":
            listed.insert(rng.randrange(i + 1, len(listed) + 1), rng.choice([" " + x, x + " ", "\t" + x]))
        elif dk == "non_adjacent":
            if i + 2 > len(listed):
                if i == 0:
                    return None
                listed.insert(0, x)
            else:
                listed.insert(rng.randrange(i + 2, len(listed) + 1), x)
        else:
            listed.insert(i + 1, x)
            listed.insert(rng.randrange(0, len(listed) + 1), x)
    nond = [x for x in dict.fromkeys(s.strip() for s in listed) if x != d]
    # namespaces
    nss = {"none": None, "one": [rng.choice(NSS)], "several": rng.sample(NSS, rng.choice([2, 3])), "dup": None}[sc["ns"]]
    if sc["ns"] == "dup":
        nss = rng.sample(NSS, rng.choice([1, 2]))
        nss.insert(rng.randrange(len(nss) + 1), rng.choice(nss))
    # inherits
    ik = sc["inh"]
    inh = None
    if ik != "none":
        if ik == "valid":
            if not nond:
                return None
            k = rng.choice(nond)
            inh = [(k, rng.choice([x for x in nond if x != k] + ([d] if listed_d else []) or [None]))]
            if inh[0][1] is None:
                return None
            if len(nond) > 2 and rng.random() < 0.5:
                k2 = rng.choice([x for x in nond if x not in inh[0]])
                inh.append((k2, inh[0][0]))
        elif ik == "cycle":
            if not nond:
                return None
            if len(nond) >= 2 and rng.random() < 0.6:
                a, b = rng.sample(nond, 2)
                inh = [(a, b), (b, a)]
            else:
                a = rng.choice(nond)
                inh = [(a, a)]
        elif ik == "to_default_unlisted":
            if listed_d or not nond:
                return None
            inh = [(rng.choice(nond), d)]
        elif ik == "unknown_key":
            inh = [("xx", rng.choice(nond + [d]))]
        elif ik == "unknown_value":
            if not nond:
                return None
            inh = [(rng.choice(nond), "xx")]
        elif ik == "default_key":
            inh = [(d, rng.choice(nond) if nond else d)]
            if sc.get("also_unknown"):
                inh.append(("aa", d))
        rng.shuffle(inh)
    pad_some = sc["pad"] == "some"
    dflt_w = d
    if pad_some:
        c = rng.random()
        if c < 0.3:
            dflt_w = " " + d
        elif c < 0.6 and listed:
            i = rng.randrange(len(listed))
            listed[i] = listed[i] + " " if listed[i] == listed[i].strip() else listed[i]
        elif c < 0.8 and nss:
            nss[0] = " " + nss[0]
        elif inh:
            inh[0] = (inh[0][0] + " ", inh[0][1])
        else:
            dflt_w = d + " "
    ldir = {"unset": None, "plain": rng.choice(["locales", "i18n", "l.d"]), "nested": rng.choice(["a/b", "res/i18n/v1"]),
            "dot_slash": "./loc", "parent": "../sib%d" % rng.randrange(10 ** 6), "hidden": rng.choice([".loc", ".i18n"]),
            "trailing_slash": "loc/", "absolute": ABS + "/absloc"}[sc["dir"]]
    before = {"none": "", "after": ""}.get(sc["surround"], '[dependencies]\nleptos = "0.7"\n\n[features]\ndefault = ["hydrate"]\nhydrate = []\n')
    after = {"none": "", "before": ""}.get(sc["surround"], '\n[package.metadata.leptos]\noutput-name = "x"\nlocales = "no"\n\n[[bin]]\nname = "x"\npath = "src/main.rs"\n')
    cfg = {"default": dflt_w, "locales": listed, "namespaces": nss, "locales_dir": ldir,
           "uri": rng.choice([None, None, "i18n/{locale}.json"]), "inherits": inh,
           "missing": {"present": None, "missing_default": "default", "missing_locales": "locales"}[sc["req"]],
           "malformed": None if sc["malformed"] == "none" else sc["malformed"],
           "before": before, "after": after,
           "unknown": [] if sc["unknown"] == "0" else rng.sample(['fallback = "en"', 'verbose = true', 'extra = { a = 1, default = "zz" }',
                                                                 'locales_dir = "nope"', 'Default = "zz"'], rng.choice([1, 2])),
           "order": rng.random(), "inherits_as_table": sc["inh_form"] == "subtable",
           "text": {"eol": sc["eol"], "head": sc["head"], "final_nl": sc["final_nl"] == "yes", "bom": sc["bom"] == "yes",
                    "trail": sc["trail"], "indent": sc["indent"] == "yes", "mention": sc["mention"]}}
    if sc["mention"] != "none" and (sc["head"] == "none" or (sc["mention"] == "string" and sc["head"] == "one")):
        return None
    if (sc["eol"] == "lone_cr" and sc["head"] == "none") or (before and sc["head"] in ("none", "one", "two")):
        return None
    fmt = sc["fmt"]
    files = build_layout(rng, cfg, fmt, sc["layout"])
    if files is None:
        return None
    return {"cfg": cfg, "fmt": fmt, "files": files}


def build_layout(rng, cfg, fmt, kind):
    exts = EXTS[fmt]
    if kind in ("alt_ext", "both_ext") and len(exts) < 2:
        return None
    stems = stems_of(cfg)
    special = rng.randrange(len(stems)) if stems else None
    files = []
    for i, s in enumerate(stems):
        if i == special and kind == "missing_file":
            if rng.random() < 0.5:
                files.append(s + ".txt")
            continue
        if i == special and kind == "alt_ext":
            files.append(s + "." + exts[1])
        elif i == special and kind == "both_ext":
            files += [s + "." + e for e in exts]
        else:
            files.append(s + "." + exts[0])
    return files
