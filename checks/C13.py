"""C13 — locale identifiers round-trip through every representation.
Theorems: coq/theories/Props/C13.v over the model Runtime/LocaleId.v.
Correspondence: harness h_ident compiles one `declare_locales!` per locale set of SETS (src/sets.rs is rendered from
that table; one more set goes through `load_locales!` and the config loader) and prints what every identity method of
the generated enum does; the Coq spec predicate is evaluated on those answers.  The thorough tier additionally
generates and compiles a probe crate over random locale sets."""
import json
import os
import re
import shutil

from vlib import core

THEOREMS = ["C13_string_form", "C13_roundtrip", "C13_exact", "C13_unknown_default", "C13_serde_total", "C13_get_all",
            "C13_default_first", "C13_icu", "C13_spec", "C13_spec_row"]
PROPS = "theories/Props/C13.v"
REGISTRY = {
    "level": "proof",
    "technique": "Coq proof over a Gallina model of the generated Locale enum (match tables, LocaleVisitor, cookie codec, "
                 "ScopedLocale, config normalisation) + differential correspondence against enums compiled with "
                 "declare_locales!/load_locales!",
    "text": "Theorems C13_string_form/C13_roundtrip/C13_exact/C13_unknown_default/C13_serde_total/C13_get_all/"
            "C13_default_first/C13_icu/C13_spec (Props/C13.v) hold for every duplicate-free list of configured names and every "
            "input string (no bound). The model is tied to /repo by compiling the real macro output for ten locale sets "
            "(regions, scripts, variants, near-duplicates, RTL, prefixes, non-canonical spellings, und, a load_locales! config) "
            "and evaluating the Coq spec predicate on what as_str/Display/AsRef/serde_json/serde visitors/FromToStringCodec/"
            "FromStr/get_all/as_icu_locale/as_langid/direction/ScopedLocale answer for every locale and for thousands of "
            "near-miss strings.",
    "design_ref": "DESIGN.md §5 C13",
    "note": "Trusted: Coq kernel + vm_compute; hand-written model Runtime/LocaleId.v (tied by the correspondence run); ICU locale "
            "parsing and CLDR direction are oracles (icu_locid / icu_locid_transform called directly on the configured name by the "
            "harness); rustc (an enum variant per name, derive(Debug) used as the identity of a value); Python generator. "
            "No axioms (Print Assumptions: closed).",
    "engine": "coq",
    "packages": [("h_ident",)],
}
PRE = ("From Coq Require Import List NArith.\nImport ListNotations.\n"
       "From LI Require Import Base.StrOps Runtime.LocaleId Runtime.LocaleIdCheck.\nOpen Scope N_scope.\n")
HARNESS_DIR = os.path.join(core.HARNESS, "h_ident")

# Locale sets compiled into the harness.  via=declare: `declare_locales!` (default must be listed first);
# via=load: `load_locales!()` over harness/h_ident/Cargo.toml + locales/ (raw config values, any order).
SETS = [
    {"mod": "regions", "via": "declare", "default": "en",
     "locales": ["en", "en-US", "en-GB", "en-AU", "en-CA", "fr", "fr-FR", "fr-CA", "pt-BR", "pt-PT", "es-419", "es"]},
    {"mod": "scripts", "via": "declare", "default": "zh",
     "locales": ["zh", "zh-Hant", "zh-Hans", "zh-Hant-TW", "zh-Hans-CN", "zh-TW", "sr", "sr-Latn", "sr-Cyrl", "sr-Cyrl-RS",
                 "uz-Arab", "uz-Latn", "pa-Arab", "pa-Guru", "az-Arab", "az"]},
    {"mod": "variants", "via": "declare", "default": "ca",
     "locales": ["ca", "ca-ES-valencia", "ca-valencia", "en-US-posix", "de", "de-1996", "de-CH-1901", "sl-rozaj"]},
    {"mod": "rtl", "via": "declare", "default": "ar",
     "locales": ["ar", "ar-EG", "ar-SA", "he", "he-IL", "fa", "fa-AF", "ur", "ur-PK", "ps", "yi", "ckb", "sd", "ug", "dv", "en",
                 "ku", "ku-Arab"]},
    {"mod": "prefix", "via": "declare", "default": "fi",
     "locales": ["fi", "fil", "fi-FI", "fil-PH", "en", "eng", "en-001", "en-150", "en-US", "en-US-posix", "en-Latn-US",
                 "en-Latn"]},
    {"mod": "single", "via": "declare", "default": "ja", "locales": ["ja"]},
    {"mod": "order", "via": "declare", "default": "nl", "locales": ["nl", "zu", "af", "en", "nl-BE", "aa"]},
    {"mod": "spelling", "via": "declare", "default": "en_US",
     "locales": ["en_US", "EN-gb", "Fr", "zh-hant", "DE-at", "sr_cyrl_rs"]},
    {"mod": "und", "via": "declare", "default": "und",
     "locales": ["und", "und-Latn", "und-Arab", "und-FR", "und-Hebr-IL", "tlh"]},
    # must mirror [package.metadata.leptos-i18n] of harness/h_ident/Cargo.toml (checked in run())
    {"mod": "cfg", "via": "load", "default": "fr", "locales": ["en", " de ", "fr", "fr-CA"]},
]

# the 25 White_Space code points (what str::trim removes) and look-alikes that are NOT White_Space
WS = [0x9, 0xA, 0xB, 0xC, 0xD, 0x20, 0x85, 0xA0, 0x1680] + list(range(0x2000, 0x200B)) + [0x2028, 0x2029, 0x202F, 0x205F, 0x3000]
NOT_WS = [0x0, 0x8, 0xE, 0x1C, 0x1D, 0x1E, 0x1F, 0x7F, 0x180E, 0x200B, 0x200C, 0x200D, 0x2060, 0xFEFF, 0x2800, 0x3164, 0xAD]
HOMOGLYPH = {"e": "е", "a": "а", "o": "о", "c": "с", "p": "р", "E": "Е", "A": "Α",
             "S": "Ѕ", "n": "ｎ", "r": "ｒ", "-": "‐", "_": "＿", "i": "ı", "I": "İ",
             "s": "ſ", "K": "K", "k": "K"}


def ident_of(name):
    return name.strip().replace("-", "_")


def py_trim(s):
    ws = set(WS)
    a, b = 0, len(s)
    while a < b and ord(s[a]) in ws:
        a += 1
    while b > a and ord(s[b - 1]) in ws:
        b -= 1
    return s[a:b]


def normalised(st):
    """ConfigFile::new in Python - used only to map Debug identifiers to indices (Coq normalises on its own)"""
    names = [py_trim(x) for x in st["locales"]]
    d = py_trim(st["default"])
    if st["via"] == "declare":
        return names
    if d in names:
        i = names.index(d)
    else:
        names.append(d)
        i = len(names) - 1
    names[0], names[i] = names[i], names[0]
    return names


def coq_names(st):
    if st["via"] == "declare":
        return core.coq_list([core.coq_str(n) for n in st["locales"]])
    return "(cfg_normalise (key_new %s) (configured %s))" % (
        core.coq_str(st["default"]), core.coq_list([core.coq_str(n) for n in st["locales"]]))


def render_sets_rs(sets):
    out = ["// GENERATED by /verif/checks/C13.py (render_sets_rs) from its SETS table - do not edit.",
           "use crate::ident::Cmd;", ""]
    for st in sets:
        out.append("pub mod %s {" % st["mod"])
        if st["via"] == "load":
            out.append("    leptos_i18n::load_locales!();")
        else:
            names = st["locales"]
            out.append("    leptos_i18n::declare_locales! {")
            out.append('        default: "%s",' % st["default"])
            out.append("        locales: [%s]," % ", ".join('"%s"' % n for n in names))
            for n in names:
                out.append("        %s: {}," % ident_of(n))
            out.append("    }")
        out.append("}")
        out.append("")
    out.append("pub fn dispatch(set: &str, cmd: &mut Cmd) -> bool {")
    out.append("    match set {")
    for st in sets:
        out.append('        "%s" => cmd.visit::<%s::i18n::Locale>(),' % (st["mod"], st["mod"]))
    out.append("        _ => return false,")
    out.append("    }")
    out.append("    true")
    out.append("}")
    return "\n".join(out) + "\n"


def sync_file(path, txt):
    try:
        old = open(path).read()
    except OSError:
        old = None
    if old != txt:
        os.makedirs(os.path.dirname(path), exist_ok=True)
        with open(path, "w") as fh:
            fh.write(txt)
        return True
    return False


def hexs(s):
    return ".".join("%x" % ord(c) for c in s)


def unhex(h):
    return "".join(chr(int(x, 16)) for x in h.split(".") if x)


# ------------------------------------------------------------------ near-miss strings

def near_misses(names, all_names, rng, n_random):
    """(string, class) pairs around the configured names of one set"""
    out = []

    def add(s, cls):
        out.append((s, cls))

    for n in names:
        add(n, "exact")
        for v in {n.upper(), n.lower(), n.swapcase(), n.title(), n.capitalize(), n[0].swapcase() + n[1:],
                  n[:-1] + n[-1].swapcase()} - {n}:
            add(v, "case")
        for w in WS:
            add(chr(w) + n, "ws_around")
            add(n + chr(w), "ws_around")
        add(" \t\r\n" + n + "　  ", "ws_around")
        add(chr(rng.choice(WS)) * 3 + n + chr(rng.choice(WS)) + chr(rng.choice(WS)), "ws_around")
        for w in NOT_WS:
            add(chr(w) + n, "notws_around")
            add(n + chr(w), "notws_around")
        add(" " + n + "​ ", "notws_around")
        for k in range(1, len(n)):
            add(n[:k] + rng.choice([" ", "\t", " ", " ", "\n"]) + n[k:], "ws_inner")
        for k in range(0, len(n)):
            add(n[:k], "prefix")
            add(n[k + 1:], "suffix_of")
            add(n[:k] + n[k + 1:], "deletion")
        for suf in ["-", "_", "x", "-US", "-u-ca-gregory", "-x-a", ",", ";q=1", "/", ".json", "\0", n]:
            add(n + suf, "extended")
        for pre in ["-", "_", "x", "x-", "/", "\"", "i-"]:
            add(pre + n, "extended")
        add('"' + n + '"', "quoted")
        add("\\" + n, "quoted")
        if "-" in n:
            add(n.replace("-", "_"), "separator")
            add(n.replace("-", ""), "separator")
            add(n.replace("-", "--"), "separator")
            add(n.replace("-", " - "), "ws_inner")
        if "_" in n:
            add(n.replace("_", "-"), "separator")
        for k, ch in enumerate(n):
            if ch in HOMOGLYPH:
                add(n[:k] + HOMOGLYPH[ch] + n[k + 1:], "homoglyph")
    for s in ["", " ", "\t\n", "　", "​", "null", "default", "Locale", "0", "*"]:
        add(s, "empty_or_unrelated")
    for o in all_names:
        if o not in names:
            add(o, "other_set_name")
    alphabet = sorted(set("".join(names))) + [" ", "-", "_"]
    for _ in range(n_random):
        r = rng.random()
        if r < 0.4:
            n = rng.choice(names)
            s = list(n)
            for _ in range(rng.choice([1, 1, 2, 3])):
                op = rng.random()
                k = rng.randrange(len(s) + 1)
                if op < 0.3 and s:
                    del s[min(k, len(s) - 1)]
                elif op < 0.6:
                    s.insert(k, rng.choice(alphabet))
                elif op < 0.8 and s:
                    k = min(k, len(s) - 1)
                    s[k] = s[k].swapcase()
                else:
                    s.insert(k, chr(rng.choice(WS + NOT_WS)))
            add("".join(s), "random_mutation")
        elif r < 0.7:
            n = rng.choice(names)
            pad = lambda: "".join(chr(rng.choice(WS + WS + NOT_WS)) for _ in range(rng.choice([0, 1, 1, 2, 4])))
            add(pad() + n + pad(), "random_padding")
        else:
            add("".join(rng.choice(alphabet) for _ in range(rng.choice([1, 2, 2, 3, 5, 6]))), "random_string")
    return out


# ------------------------------------------------------------------ running one harness binary over sets

def fields(line):
    return dict(f.split("=", 1) for f in line.split("|")[1:] if "=" in f)


def opt_idx(dbg, idents):
    if dbg == "-":
        return None
    return idents.index(dbg) if dbg in idents else 999999


def drive(ctx, exe, sets, n_random, tag):
    """returns (items, meta, problems) for the sets compiled into `exe`"""
    rng = ctx.rng
    all_names = sorted({n for st in sets for n in normalised(st)})
    cmds, plan = [], []
    for st in sets:
        names = normalised(st)
        cmds.append("N %s" % st["mod"])
        plan.append(("N", st, None))
        for i in range(len(names) + 1):
            cmds.append("T %s %d" % (st["mod"], i))
            plan.append(("T", st, i))
        for n in names:
            cmds.append("O %s" % hexs(n))
            plan.append(("O", st, n))
        seen = set()
        for s, cls in near_misses(names, all_names, rng, n_random):
            if s in seen:
                continue
            seen.add(s)
            cmds.append("P %s %s" % (st["mod"], hexs(s)))
            plan.append(("P", st, (s, cls)))
    rc, out, err = core.sh([exe], input="\n".join(cmds) + "\n", timeout=600)
    lines = out.splitlines()
    if rc != 0 or len(lines) != len(cmds):
        raise core.Infra("%s: %d lines for %d commands (rc %s): %s" % (exe, len(lines), len(cmds), rc, err[-400:]))
    oracle = {}
    for (kind, st, arg), line in zip(plan, lines):
        if kind == "O":
            f = fields(line)
            oracle[arg] = None if f.get("icu") == "!" else (unhex(f["icu"]), unhex(f["lid"]), f["dir"])
    items, meta, problems = [], [], []
    dircode = {"ltr": 0, "rtl": 1, "auto": 2}
    for (kind, st, arg), line in zip(plan, lines):
        if kind == "O":
            continue
        names = normalised(st)
        idents = [ident_of(n) for n in names]
        sname = "S_%s_%s" % (tag, st["mod"])
        base = {"set": st["mod"], "via": st["via"], "configured_default": st["default"], "configured_locales": st["locales"]}
        if line in ("PANIC", "NOSET", "BADCMD"):
            problems.append(dict(base, command=kind, arg=arg, harness_says=line))
            continue
        if kind == "T" and arg == len(names):
            if line != "OOB":
                problems.append(dict(base, what="get_all has more entries than configured", line=line))
            continue
        if line == "OOB":
            problems.append(dict(base, what="get_all has fewer entries than configured", pos=arg))
            continue
        variants = [("", line.split("|scoped_same=")[0])]
        sc = line.split("|scoped_same=")[1]
        if sc != "true":
            problems.append(dict(base, what="ScopedLocale answers differ from the enum's", command=kind, arg=arg, line=line))
            variants.append(("scoped:", "X|" + sc[len("false:"):]))
        for vtag, text in variants:
            f = fields(text)
            if kind == "N":
                all_idx = [opt_idx(d, idents) for d in f["all"].split(",") if d]
                items.append("CAll (mk_all_case %s %d %s)" % (sname, opt_idx(f["default"], idents),
                                                             core.coq_list(["%d" % i for i in all_idx])))
                meta.append(dict(base, kind=vtag + "get_all", impl_default=f["default"], impl_get_all=f["all"]))
            elif kind == "T":
                name = names[arg]
                o = oracle.get(name)
                ocoq = "None" if o is None else "(Some (%s, %s, %d))" % (core.coq_str(o[0]), core.coq_str(o[1]), dircode[o[2]])
                g = lambda k: core.coq_opt(opt_idx(f[k], idents))
                items.append("CRow (mk_row_case %s %d %d %s %s %s %s %s %s %s %s %s %s %s %s %d %s %d)" % (
                    sname, arg, opt_idx(f["dbg"], idents), ocoq,
                    core.coq_str(unhex(f["as_str"])), core.coq_str(unhex(f["disp"])), core.coq_str(unhex(f["asref"])),
                    core.coq_str(unhex(f["json"])), core.coq_str(unhex(f["enc"])),
                    g("rt_from"), g("rt_disp"), g("rt_json"), g("rt_codec"),
                    core.coq_str(unhex(f["icu"])), core.coq_str(unhex(f["lid"])), dircode[f["dir"]],
                    f["refs"], opt_idx(f["base"], idents)))
                meta.append(dict(base, kind=vtag + "row", name=name, oracle=o,
                                 impl={k: (unhex(v) if k in ("as_str", "disp", "asref", "json", "enc", "icu", "lid") else v)
                                       for k, v in f.items()}))
            else:
                s, cls = arg
                serde = sorted({f[k] for k in ("j", "jr", "vs", "vo", "vb")})
                if len(serde) > 1:
                    problems.append(dict(base, what="serde entry points disagree", input=s, line=text))
                for sd in serde:
                    d = None if sd == "-" else opt_idx(sd, idents)
                    items.append("CParse (mk_parse_case %s %s %s %s %s)" % (
                        sname, core.coq_str(s), core.coq_opt(opt_idx(f["f"], idents)), core.coq_opt(d),
                        core.coq_opt(opt_idx(f["c"], idents))))
                    meta.append(dict(base, kind=vtag + "parse", input=s, input_codepoints=["U+%04X" % ord(c) for c in s],
                                     cls=cls, impl_from_str=f["f"], impl_serde=sd, impl_cookie=f["c"]))
    pre = "".join("Definition S_%s_%s := Eval vm_compute in %s.\n" % (tag, st["mod"], coq_names(st)) for st in sets)
    return pre, items, meta, problems


# ------------------------------------------------------------------ thorough tier: probe crate over random sets

KEYWORDS = {"as", "do", "if", "in", "fn", "is_", "for", "let", "mod", "mut", "pub", "ref", "use", "dyn", "box", "try", "gen",
            "else", "enum", "impl", "loop", "move", "self", "Self", "true", "type", "crate", "super", "where", "while",
            "und"}
LANGS = ["en", "fr", "de", "es", "it", "pt", "nl", "sv", "da", "nb", "fi", "pl", "cs", "ru", "uk", "bg", "sr", "hr", "el", "tr",
         "ar", "he", "fa", "ur", "ps", "ks", "sd", "ug", "yi", "dv", "ckb", "syr", "hi", "bn", "ta", "th", "vi", "id", "ms",
         "zh", "ja", "ko", "yue", "fil", "haw", "gsw", "kab", "az", "uz", "kk", "mn", "pa", "ku", "ha", "sw", "zu", "am"]
SCRIPTS = ["Latn", "Cyrl", "Arab", "Hebr", "Hans", "Hant", "Deva", "Guru", "Thaa", "Adlm", "Nkoo", "Syrc", "Mong"]
REGIONS = ["US", "GB", "FR", "CA", "DE", "CH", "AT", "BE", "ES", "MX", "BR", "PT", "IN", "PK", "IR", "AF", "IL", "EG", "SA",
           "CN", "TW", "HK", "JP", "RS", "BA", "ME", "419", "001", "150"]
VARIANTS = ["posix", "valencia", "1996", "1901", "rozaj", "fonipa", "pinyin", "tarask"]


def random_set(rng, mod):
    n = rng.choice([1, 2, 3, 5, 8, 13])
    names, idents, consts = [], set(), set()
    tries = 0
    while len(names) < n and tries < 400:
        tries += 1
        if names and rng.random() < 0.5:
            lang = rng.choice(names).replace("_", "-").split("-")[0].lower()   # near-duplicates of an earlier entry
        else:
            lang = rng.choice(LANGS)
        parts = [lang]
        if rng.random() < 0.3:
            parts.append(rng.choice(SCRIPTS))
        if rng.random() < 0.55:
            parts.append(rng.choice(REGIONS))
        if rng.random() < 0.12:
            parts.append(rng.choice(VARIANTS))      # icu's locale! macro accepts at most one variant
        sep = "_" if rng.random() < 0.08 else "-"
        name = sep.join(parts)
        c = rng.random()
        if c < 0.05:
            name = name.upper()
        elif c < 0.1:
            name = name.lower()
        ident = ident_of(name)
        const = name.upper().replace("-", "_")
        if ident in KEYWORDS or ident in idents or const in consts or not re.match(r"^[A-Za-z][A-Za-z0-9_]*$", ident):
            continue
        idents.add(ident)
        consts.add(const)
        names.append(name)
    return {"mod": mod, "via": "declare", "default": names[0], "locales": names}


def build_probe(ctx, k):
    """a crate compiling `k` random declare_locales! sets plus one load_locales! config (default unlisted or not first),
    sharing the harness target directory and the driver source of h_ident"""
    rng = ctx.rng
    sets = [random_set(rng, "r%d" % i) for i in range(k)]
    cfg = random_set(rng, "cfg")
    names = list(cfg["locales"])
    default = names[0]
    listed = names[1:] if (len(names) > 1 and rng.random() < 0.4) else names[:]
    rng.shuffle(listed)
    raw = [(" " if rng.random() < 0.2 else "") + x + ("\t" if rng.random() < 0.2 else "") for x in listed]
    cfgset = {"mod": "cfg", "via": "load", "default": default, "locales": raw}
    sets.append(cfgset)
    from checks import isolate
    d = isolate.probe_dir(ctx, "probe")
    pname = isolate.probe_name(ctx, "h_ident_probe")
    shutil.rmtree(os.path.join(d, "locales"), ignore_errors=True)
    os.makedirs(os.path.join(d, "locales"), exist_ok=True)
    os.makedirs(os.path.join(d, "src"), exist_ok=True)
    for n in normalised(cfgset):
        with open(os.path.join(d, "locales", n + ".json"), "w") as fh:
            fh.write('{ "k": "v" }\n')
    htoml = open(os.path.join(HARNESS_DIR, "Cargo.toml")).read()
    deps = htoml[htoml.index("[dependencies]"):]
    deps = deps.split("[package.metadata.leptos-i18n]")[0]
    wtoml = open(os.path.join(core.HARNESS, "Cargo.toml")).read()
    profile = wtoml[wtoml.index("[profile.dev]"):]
    toml = ('[package]\nname = "%s"\nversion = "0.1.0"\nedition = "2021"\n\n[workspace]\n\n%s\n%s\n'
            '[package.metadata.leptos-i18n]\ndefault = %s\nlocales = %s\n' % (
                pname, deps, profile, json.dumps(default), json.dumps(raw)))
    sync_file(os.path.join(d, "Cargo.toml"), toml)
    shutil.copy(os.path.join(core.HARNESS, "Cargo.lock"), os.path.join(d, "Cargo.lock"))
    sync_file(os.path.join(d, "src", "sets.rs"), render_sets_rs(sets))
    sync_file(os.path.join(d, "src", "main.rs"),
              '#![allow(dead_code, unused_imports, non_camel_case_types)]\nmod sets;\n'
              '#[path = "%s/src/ident.rs"]\nmod ident;\n'
              'fn main() {\n    std::panic::set_hook(Box::new(|_| {}));\n    ident::run();\n}\n' % HARNESS_DIR)
    # the macro reads locales/ at expansion time; make sure an edit of the locale files recompiles
    os.utime(os.path.join(d, "src", "sets.rs"))
    rc, out, err = core.sh(["cargo", "build", "--offline"], cwd=d, timeout=2400,
                           env={"CARGO_TARGET_DIR": core.TARGET, "RUSTFLAGS": "--cap-lints warn"})
    if rc != 0:
        return sets, None, (out + err)[-3000:]
    return sets, os.path.join(core.TARGET, "debug", pname), ""


# ------------------------------------------------------------------ the check

def cfg_of_harness():
    t = open(os.path.join(HARNESS_DIR, "Cargo.toml")).read().split("[package.metadata.leptos-i18n]")[1]
    d = re.search(r'default\s*=\s*"([^"]*)"', t).group(1)
    ls = re.findall(r'"([^"]*)"', re.search(r"locales\s*=\s*\[([^\]]*)\]", t).group(1))
    return d, ls


def run(ctx):
    from checks import isolate
    isolate.enter(ctx)
    if sync_file(os.path.join(HARNESS_DIR, "src", "sets.rs"), render_sets_rs(SETS)):
        ctx.say("C13: harness/h_ident/src/sets.rs re-rendered from SETS")
    cfgset = [st for st in SETS if st["via"] == "load"][0]
    if cfg_of_harness() != (cfgset["default"], cfgset["locales"]):
        raise core.Infra("SETS['cfg'] does not mirror harness/h_ident/Cargo.toml")
    bindir = core.cargo_build("h_ident")
    ok, problems_audit = core.coq_audit(ctx, PROPS, THEOREMS)
    okc, logc = core.coq_build(["theories/Runtime/LocaleIdCheck.vo"])
    if not okc:
        raise core.Infra("LocaleIdCheck.v does not build: " + logc[-600:])
    pre, items, meta, problems = drive(ctx, os.path.join(bindir, "h_ident"), SETS, 150 if ctx.quick else 1500, "h")
    probe_info = None
    if not ctx.quick:
        psets, pexe, plog = build_probe(ctx, 10)
        probe_info = {"sets": psets, "built": pexe is not None}
        if pexe is None:
            problems.append({"what": "generated probe crate over random locale sets does not compile", "sets": psets,
                             "log_tail": plog})
        else:
            pre2, items2, meta2, problems2 = drive(ctx, pexe, psets, 1000, "p")
            pre, items, meta, problems = pre + pre2, items + items2, meta + meta2, problems + problems2
    codes = core.coq_eval(ctx, "c13", PRE + pre, items, "check")
    for m, c in zip(meta, codes):
        m["code"] = c
    bad = [m for m in meta if m["code"] == 3]
    disagree = [m for m in meta if m["code"] == 2]
    skipped = [m for m in meta if m["code"] == 1]
    if bad:
        bad.sort(key=lambda m: (len(m["configured_locales"]), len(m.get("input", "")), m["kind"]))
        for m in bad[:5]:
            m["explanation"] = ("the Coq spec predicate of C13 (Runtime/LocaleId.v: spec_parse / spec_row / spec_all) is false on "
                                "what the compiled enum answered: " +
                                {"parse": "a string parsed to a locale whose configured name is not the trimmed string, or a "
                                          "configured name did not parse to its locale",
                                 "row": "a string form, a round trip, the ICU locale/langid or the direction of this locale "
                                        "differs from its configured name / the ICU oracle",
                                 "get_all": "get_all is not every configured locale once with the default first"}
                                .get(m["kind"].split(":")[-1], ""))
        core.violation(ctx, "spec", {"failing_input": bad[0], "more": bad[1:5], "count": len(bad)})
    elif problems or disagree or not ok:
        core.violation(ctx, "correspondence", {
            "broken": ("theorem/audit: " + "; ".join(problems_audit)) if not ok else
                      "correspondence Runtime/LocaleId.v vs the enum generated by leptos_i18n_macro (create_locales_enum)",
            "first_disagreeing_input": (disagree or problems or [None])[0], "disagreements": len(disagree),
            "harness_problems": problems[:5]}, no_input=True)
    parse = [m for m in meta if m["kind"].endswith("parse")]
    hist = {}
    for m in parse:
        hist[m["cls"]] = hist.get(m["cls"], 0) + 1
    outcome = {}
    for m in parse:
        k = "from_str=%s,serde=%s" % ("locale" if m["impl_from_str"] != "-" else "Err",
                                      "default" if m["impl_serde"] == ident_of(normalised_default(m)) else "other")
        outcome[k] = outcome.get(k, 0) + 1
    nontrivial = {(m["set"], m["input"]) for m in parse if m["cls"] != "exact" and m["input"] != ""}
    samples = [m for m in meta if m["kind"] == "get_all"][:1] + [m for m in meta if m["kind"] == "row"][1:2] + \
              [m for m in parse if m["cls"] == "ws_around"][:1] + [m for m in parse if m["cls"] == "case"][:1] + \
              [m for m in parse if m["cls"] == "notws_around"][:1]
    core.write_evidence(ctx, {
        "evaluations": len(meta), "distinct_nontrivial": len(nontrivial),
        "rule": "for each of %d compiled locale sets (%d locales): one get_all case, one row per locale (every printer, every "
                "round trip, ICU locale/langid/direction against icu_locid called on the configured name), and near-miss strings "
                "derived from every configured name (case variants, each of the 25 White_Space code points and 17 non-White_Space "
                "look-alikes before/after, inner whitespace, every prefix/suffix/deletion, extensions, separator swaps, quotes, "
                "homoglyphs, other sets' names) plus random mutations/paddings/strings; non-trivial = not an exact configured "
                "name and not empty; distinct by (set, string)" % (len(SETS), sum(len(normalised(s)) for s in SETS)),
        "samples": samples,
        "traces_validated_against_impl": len(meta),
        "rows": sum(m["kind"].endswith("row") for m in meta), "parse_cases": len(parse),
        "disagreements": len(disagree), "spec_failures_on_impl": len(bad), "skipped_outside_model": len(skipped),
        "harness_problems": problems[:5], "input_distribution": hist, "impl_outcomes": outcome,
        "probe_crate": probe_info, "audit_problems": problems_audit,
    }, assumptions=[
        "ICU locale parsing and the CLDR direction table are oracles: the harness calls icu_locid / icu_locid_transform "
        "(compiled data) directly on the configured name and the spec compares the macro-embedded values with them",
        "a locale value is identified by its derive(Debug) text (the variant identifier = name with '-' replaced by '_')",
        "reading fixed in DESIGN §5 C13: a string counts as a configured name when its str::trim() is one",
        "configurations the macro rejects at compile time are outside the property (two names with the same identifier or the "
        "same upper-cased constant, names that are Rust keywords such as `as`, more than one variant subtag)"])


def normalised_default(m):
    return py_trim(m["configured_default"])


def replay(ctx, path):
    from checks import isolate
    isolate.enter(ctx)
    obj = json.load(open(path))
    print(json.dumps(obj, indent=1, ensure_ascii=False))
    fi = obj.get("failing_input") or obj.get("first_disagreeing_input")
    if not fi or "input" not in fi:
        return 0
    st = [s for s in SETS if s["mod"] == fi["set"] and s["locales"] == fi["configured_locales"]]
    if not st:
        print("(the set of this replay is not compiled into h_ident: it came from a generated probe crate)")
        return 0
    bindir = core.cargo_build("h_ident")
    rc, out, err = core.sh([os.path.join(bindir, "h_ident")], input="P %s %s\n" % (fi["set"], hexs(fi["input"])), timeout=60)
    print("implementation now:", out.strip())
    names = coq_names(st[0])
    print("model:", core.coq_show(ctx, PRE, "model_parse %s %s" % (names, core.coq_str(fi["input"]))))
    f = fields(out.strip().split("|scoped_same=")[0])
    idents = [ident_of(n) for n in normalised(st[0])]
    term = "check (CParse (mk_parse_case %s %s %s %s %s))" % (
        names, core.coq_str(fi["input"]), core.coq_opt(opt_idx(f["f"], idents)),
        core.coq_opt(None if f["j"] == "-" else opt_idx(f["j"], idents)), core.coq_opt(opt_idx(f["c"], idents)))
    res = core.coq_show(ctx, PRE, term)
    print("check code (0 ok, 2 differs from model, 3 spec violated):", res)
    return 1 if re.search(r"=\s*3", res) else 0
