"""C20 — the build helper requests exactly the ICU data the translations use.
Theorems: coq/theories/Props/C20.v over the model Build/IcuKeys.v.
Correspondence: harness h_icu links leptos_i18n_build and runs TranslationsInfos::parse_at_dir / get_icu_keys /
get_locales / get_namespaces on generated project directories; the Coq spec predicate is evaluated on its answers
against the per-locale description the generator produced."""
import json
import os
import shutil

from vlib import core

THEOREMS = ["C20_iff", "C20_iff_namespaces", "C20_iff_project", "C20_var_formatters_union", "C20_locales", "C20_keys", "C20_spec",
            "C20_spec_keys"]
PROPS = "theories/Props/C20.v"
REGISTRY = {
    "level": "proof",
    "technique": "Coq proof over a Gallina model of find_used_datakey/get_icu_keys and of the parser's accumulation of "
                 "variable infos across locales + differential correspondence against leptos_i18n_build on generated projects",
    "text": "Theorems C20_iff/C20_iff_namespaces/C20_iff_project/C20_locales/C20_keys/C20_spec (Props/C20.v) hold for every key "
            "tree, every number of locales and namespaces and every depth (no bound): an option is derived iff some variable of "
            "some leaf has a plural count resp. carries a formatter of that family, in the default locale or in any other locale "
            "at the default's keys. The model is tied to /repo by running TranslationsInfos::{get_icu_keys,get_locales,"
            "get_namespaces} on generated project directories in which every option is placed nowhere / only in a non-default "
            "locale / only in a deep sub-key / only in one namespace / only through a foreign key, and evaluating the Coq spec "
            "predicate on the returned data-key set.",
    "design_ref": "DESIGN.md §5 C20",
    "note": "Trusted: Coq kernel + vm_compute; hand-written model Build/IcuKeys.v (tied by the correspondence run); the per-option "
            "DataKey lists are read from the public Options::into_data_keys and are ICU knowledge, not verified (partial: 'never "
            "lacks data at run time' is not observed); the generator's description of what each value uses after foreign-key "
            "substitution; serde_json; Rust harness h_icu. No axioms (Print Assumptions: closed).",
    "engine": "coq",
    "packages": [("h_icu",)],
}
PRE = ("From Coq Require Import List NArith.\nImport ListNotations.\n"
       "From LI Require Import Build.IcuKeys Build.IcuKeysCheck.\nOpen Scope N_scope.\n")
OPTIONS = ["Plurals", "FormatDateTime", "FormatList", "FormatNums", "FormatCurrency"]
FMT_COQ = {None: "FmtNone", "number": "FmtNumber", "date": "FmtDate", "time": "FmtTime", "datetime": "FmtDateTime",
           "list": "FmtList", "currency": "FmtCurrency"}
FMT_OF_OPTION = {"FormatDateTime": ["date", "time", "datetime"], "FormatList": ["list"], "FormatNums": ["number"],
                 "FormatCurrency": ["currency"]}
FMT_ARGS = {"number": ["", "(grouping_strategy: never)"], "date": ["", "(date_length: short)"],
            "time": ["", "(time_length: full)"], "datetime": ["", "(date_length: short; time_length: full)"],
            "list": ["", "(list_type: and; list_length: short)"], "currency": ["", "(width: narrow; currency_code: EUR)"]}
LOCALE_POOL = ["en", "fr", "de", "ar", "es", "it", "pt-BR", "en-GB"]
NS_POOL = ["common", "home", "admin"]
LIT_CODE = {"str": 0, "bool": 1, "int": 2, "uint": 3, "float": 4}


class Interner:
    def __init__(self):
        self.t = {}

    def __call__(self, s):
        if s not in self.t:
            self.t[s] = len(self.t) + 1
        return self.t[s]


# ------------------------------------------------------------------ abstract values
# parts: list of ("txt", s) | ("var", name, fmt, args) | ("comp", name, parts)
# value: ("absent",) ("null",) ("lit", pyvalue) ("parts", parts) ("plural", ordinal, {form: parts})
#        ("range", type|None, [(parts, count-spec)]) ("fk", ns|None, path, args{name: parts}, prefix_parts)

def render_parts(parts):
    out = []
    for p in parts:
        if p[0] == "txt":
            out.append(p[1])
        elif p[0] == "var":
            out.append("{{ %s%s }}" % (p[1], (", " + p[2] + p[3]) if p[2] else ""))
        else:
            out.append("<%s>%s</%s>" % (p[1], render_parts(p[2]), p[1]))
    return "".join(out)


def parts_pushes(parts):
    out = []
    for p in parts:
        if p[0] == "var":
            out.append(("var", p[1], p[2]))
        elif p[0] == "comp":
            out += parts_pushes(p[2])
    return out


def neutral_parts(rng, allow_vars=True):
    n = rng.choice([1, 1, 2, 3])
    parts = []
    for i in range(n):
        r = rng.random()
        if r < 0.5 or not allow_vars:
            parts.append(("txt", rng.choice(["hello", "a b", "x", "été", "–"])))
        elif r < 0.85:
            parts.append(("var", rng.choice(["name", "who", "x"]), None, ""))
        else:
            parts.append(("comp", rng.choice(["b", "i"]), [("txt", "in"), ("var", "y", None, "")] if rng.random() < 0.5
                          else [("txt", "in")]))
        parts.append(("txt", " "))
    return parts


def is_literal_text(parts):
    return all(p[0] == "txt" for p in parts)


class Project:
    def __init__(self, rng):
        self.rng = rng
        n = rng.choice([1, 2, 2, 3, 3, 4])
        names = rng.sample(LOCALE_POOL, n)
        self.default = rng.choice(names)
        cfg = names[:]
        if rng.random() < 0.2:
            cfg.remove(self.default)          # the default may be left out of `locales`
        self.cfg_locales = cfg
        # ConfigFile::new: the default is swapped to the front (appended first when unlisted)
        norm = cfg[:]
        if self.default not in norm:
            norm.append(self.default)
        i = norm.index(self.default)
        norm[0], norm[i] = norm[i], norm[0]
        self.locales = norm                   # normalised order: default first
        self.namespaces = None if rng.random() < 0.5 else rng.sample(NS_POOL, rng.choice([1, 2, 2, 3]))
        self.trees = {}          # ns -> shape: list of [key, node]; node = {"sub": shape} | {"leaf": {locale: value}}
        self.surplus = {}        # (ns, locale) -> list of (key, value)
        for ns in (self.namespaces or [None]):
            self.counter = 0
            self.trees[ns] = self.gen_shape(0)
            if not self.leaves(ns):
                self.trees[ns].append(self.new_leaf())

    def new_leaf(self):
        self.counter += 1
        return ["k%d" % self.counter, {"leaf": {}}]

    def gen_shape(self, depth):
        shape = []
        for _ in range(self.rng.choice([2, 3, 4, 5, 7]) if depth == 0 else self.rng.choice([1, 2, 3])):
            if depth < 3 and self.rng.random() < 0.3:
                self.counter += 1
                shape.append(["s%d" % self.counter, {"sub": self.gen_shape(depth + 1)}])
            else:
                shape.append(self.new_leaf())
        return shape

    def leaves(self, ns, shape=None, path=()):
        out = []
        for k, node in (self.trees[ns] if shape is None else shape):
            if "sub" in node:
                out += self.leaves(ns, node["sub"], path + (k,))
            else:
                out.append((path + (k,), node["leaf"]))
        return out

    def all_leaves(self):
        return [(ns, path, leaf) for ns in self.trees for path, leaf in self.leaves(ns)]

    def fill_neutral(self):
        rng = self.rng
        for ns, path, leaf in self.all_leaves():
            leaf_ty = rng.choice([None, None, "u32"])      # one count type per key, so that few projects are rejected
            for v in leaf.values():
                if v[0] == "range":
                    leaf_ty = v[1]
            for loc in self.locales:
                if loc in leaf:
                    continue
                r = rng.random()
                if loc != self.default and r < 0.1:
                    leaf[loc] = ("absent",)
                elif loc != self.default and r < 0.15:
                    leaf[loc] = ("null",)
                elif r < 0.22:
                    leaf[loc] = ("lit", rng.choice([5, -3, True, 1.5]))
                elif r < 0.30 and not any(v[0] in ("plural", "fk") for v in leaf.values()):
                    leaf[loc] = ("range", leaf_ty if rng.random() < 0.98 else rng.choice([None, "u32"]),
                                 [(neutral_parts(rng), [0]), (neutral_parts(rng), [1, 2]), (neutral_parts(rng), ["_"])])
                else:
                    leaf[loc] = ("parts", neutral_parts(rng))

    # ---- usage after substitution
    def value_at(self, ns, path, loc):
        for p, leaf in self.leaves(ns):
            if p == path:
                return leaf.get(loc, ("absent",))
        return ("absent",)

    def pushes(self, ns, value, loc):
        """list of ("var", name, fmt) / ("count", name, "plural"|("range", ty)); None for a literal / default"""
        k = value[0]
        if k in ("absent", "null"):
            return "default"
        if k == "lit":
            v = value[1]
            return ("lit", "bool" if isinstance(v, bool) else "float" if isinstance(v, float) else "int" if v < 0 else "uint")
        if k == "parts":
            if is_literal_text(value[1]):
                return ("lit", "str")
            return parts_pushes(value[1])
        if k == "plural":
            out = [("count", "var_count", "plural")]
            for form in value[2].values():
                out += parts_pushes(form)
            return out
        if k == "range":
            out = []
            for parts, _ in value[2]:
                out += parts_pushes(parts)
            out.append(("count", "var_count", ("range", value[1] or "i32")))
            return out
        if k == "fk":
            _, tns, tpath, args, prefix = value
            target = self.value_at(tns if self.namespaces else None, tpath, loc)
            tp = self.pushes(tns, target, loc)
            if tp == "default" or (isinstance(tp, tuple) and tp[0] == "lit"):
                tp = []
            out = parts_pushes(prefix)
            for p in tp:
                if p[0] == "var" and p[1] in args:
                    out += parts_pushes(args[p[1]])          # the argument replaces the variable, formatter included
                elif p[0] == "count" and "count" in args:
                    # `{"count": "{{ n, fmt }}"}`: the count is renamed to n (the formatter written there only shows where
                    # `{{ count }}` occurs in the forms, which the branch above substitutes)
                    newv = [a for a in args["count"] if a[0] == "var"][0]
                    out.append(("count", "var_" + newv[1], p[2]))
                else:
                    out.append(p)
            return out
        raise ValueError(k)

    # ---- serialisation
    def json_value(self, key, value, obj):
        k = value[0]
        if k == "absent":
            return
        if k == "null":
            obj[key] = None
        elif k == "lit":
            obj[key] = value[1]
        elif k == "parts":
            obj[key] = render_parts(value[1])
        elif k == "plural":
            for form, parts in value[2].items():
                obj["%s%s_%s" % (key, "_ordinal" if value[1] else "", form)] = render_parts(parts)
        elif k == "range":
            arr = [value[1]] if value[1] else []
            for parts, spec in value[2]:
                arr.append([render_parts(parts)] + spec)
            obj[key] = arr
        elif k == "fk":
            _, tns, tpath, args, prefix = value
            t = (tns + ":" if (tns and self.namespaces) else "") + ".".join(tpath)
            a = ""
            if args:
                a = ", " + json.dumps({n: render_parts(p) for n, p in args.items()})
            obj[key] = render_parts(prefix) + "$t(%s%s)" % (t, a)

    def json_tree(self, ns, loc, shape=None):
        obj = {}
        for k, node in (self.trees[ns] if shape is None else shape):
            if "sub" in node:
                sub = self.json_tree(ns, loc, node["sub"])
                if sub or loc == self.default or self.rng.random() < 0.8:
                    obj[k] = sub
            else:
                self.json_value(k, node["leaf"].get(loc, ("absent",)), obj)
        if shape is None:
            for k, v in self.surplus.get((ns, loc), []):
                self.json_value(k, v, obj)
        return obj

    def write(self, d):
        shutil.rmtree(d, ignore_errors=True)
        os.makedirs(os.path.join(d, "locales"))
        toml = '[package]\nname = "p"\nversion = "0.1.0"\nedition = "2021"\n\n[package.metadata.leptos-i18n]\n'
        toml += "default = %s\nlocales = %s\n" % (json.dumps(self.default), json.dumps(self.cfg_locales))
        if self.namespaces:
            toml += "namespaces = %s\n" % json.dumps(self.namespaces)
        with open(os.path.join(d, "Cargo.toml"), "w") as fh:
            fh.write(toml)
        files = {}
        for loc in self.locales:
            for ns in (self.namespaces or [None]):
                p = os.path.join(d, "locales", loc, ns + ".json") if ns else os.path.join(d, "locales", loc + ".json")
                os.makedirs(os.path.dirname(p), exist_ok=True)
                txt = json.dumps(self.json_tree(ns, loc), ensure_ascii=False, indent=1)
                files[os.path.relpath(p, d)] = txt
                with open(p, "w") as fh:
                    fh.write(txt)
        return {"Cargo.toml": toml, **files}

    # ---- Coq term
    def coq_uvalue(self, ns, value, loc, intern):
        p = self.pushes(ns, value, loc)
        if p == "default":
            return "UDefault"
        if isinstance(p, tuple):
            return "(ULit %d)" % LIT_CODE[p[1]]
        items = []
        for x in p:
            if x[0] == "var":
                items.append("PushVar %d %s" % (intern("v:var_" + x[1]), FMT_COQ[x[2]]))   # `{{ count }}` IS the count key
            elif x[2] == "plural":
                items.append("PushCount %d Plural" % intern("v:" + x[1]))
            else:
                items.append("PushCount %d (Range %d)" % (intern("v:" + x[1]), intern("t:" + x[2][1])))
        return "(UInterp %s)" % core.coq_list(items)

    def coq_tree(self, ns, loc, intern, shape=None):
        items = []
        for k, node in (self.trees[ns] if shape is None else shape):
            if "sub" in node:
                items.append("(%d, USub %s)" % (intern("k:" + k), self.coq_tree(ns, loc, intern, node["sub"])))
            else:
                items.append("(%d, %s)" % (intern("k:" + k), self.coq_uvalue(ns, node["leaf"].get(loc, ("absent",)), loc, intern)))
        if shape is None:
            for k, v in self.surplus.get((ns, loc), []):
                items.append("(%d, %s)" % (intern("k:" + k), self.coq_uvalue(ns, v, loc, intern)))
        return core.coq_list(items)

    def coq(self, intern):
        def locs(ns):
            return core.coq_list(["(%d, %s)" % (intern("l:" + l), self.coq_tree(ns, l, intern)) for l in self.locales])
        if self.namespaces:
            return "(PNamespaces %s)" % core.coq_list(["(%d, %s)" % (intern("n:" + ns), locs(ns)) for ns in self.namespaces])
        return "(PLocales %s)" % locs(None)


RANGE_TYPES = [None, "i8", "i16", "i32", "i64", "u8", "u16", "u32", "u64", "f32", "f64"]


def option_value(rng, opt, mode="plain", rty=None):
    """a value that uses the option.  mode (formatter options): "plain" = on an ordinary variable; "plural_count" /
    "range_count" = on the COUNT variable of a plural / of a range (`{{ count, number }}` inside the forms / arms)"""
    if opt != "Plurals" and mode in ("plural_count", "range_count"):
        def counted():
            f = rng.choice(FMT_OF_OPTION[opt])
            parts = [("var", "count", f, rng.choice(FMT_ARGS[f]))]
            if rng.random() < 0.5:
                parts = neutral_parts(rng) + parts + [("txt", " x")]
            if rng.random() < 0.2:
                parts = [("comp", "b", parts)]
            return parts
        if mode == "plural_count":
            forms = {"one": counted() if rng.random() < 0.7 else neutral_parts(rng), "other": counted()}
            return ("plural", rng.random() < 0.3, forms)
        arms = [(counted() if rng.random() < 0.6 else neutral_parts(rng), [rng.choice([0, 1, 2])]),
                (counted(), ["_"] if rng.random() < 0.6 else ["3.."])]
        if arms[-1][1] != ["_"]:
            arms.append((neutral_parts(rng), ["_"]))
        return ("range", rty, arms)
    if opt == "Plurals":
        ordinal = rng.random() < 0.3
        forms = {"one": neutral_parts(rng), "other": [("var", "count", None, ""), ("txt", " items")] if rng.random() < 0.5
                 else neutral_parts(rng)}
        return ("plural", ordinal, forms)
    f = rng.choice(FMT_OF_OPTION[opt])
    parts = neutral_parts(rng) + [("var", rng.choice(["amount", "when", "things"]), f, rng.choice(FMT_ARGS[f]))]
    if rng.random() < 0.3:
        parts = [("comp", "b", parts)]
    return ("parts", parts)


PLACEMENTS = ["nowhere", "nowhere", "default_only", "nondefault_only", "deep_subkey", "one_namespace", "via_fk_arg", "via_fk",
              "surplus_only", "everywhere", "count_rename", "count_here_plain_there"]
MODES = ["plain", "plain", "plural_count", "range_count", "range_count"]


def gen_project(rng):
    p = Project(rng)
    plan = {}
    taken = set()

    def pick_leaf(pred=lambda ns, path: True):
        cands = [(ns, path, leaf) for ns, path, leaf in p.all_leaves() if (ns, path) not in taken and pred(ns, path)]
        if not cands:
            return None
        c = rng.choice(cands)
        taken.add((c[0], c[1]))
        return c

    nondefault = p.locales[1:]
    # ONE variable carrying several formatters within ONE key - across locales, within one string, in the forms of one
    # plural, at any sub-key depth - while the families involved are used nowhere else in the project
    multi = {}
    if rng.random() < 0.45:
        fams = [o for o in OPTIONS if o != "Plurals"]
        oa = rng.choice(fams)
        ob = rng.choice(fams + [None])                  # None: the second occurrence has no formatter
        fa = rng.choice(FMT_OF_OPTION[oa])
        fb = rng.choice([f for f in FMT_OF_OPTION[ob] if f != fa] or FMT_OF_OPTION[ob]) if ob else None
        c = pick_leaf((lambda ns, path: len(path) >= 2) if rng.random() < 0.5 else (lambda ns, path: True)) or pick_leaf()
        if c is not None:
            ns, path, leaf = c
            var = rng.choice(["amount", "when", "things"])
            va = ("var", var, fa, rng.choice(FMT_ARGS[fa]))
            vb = ("var", var, fb, rng.choice(FMT_ARGS[fb]) if fb else "")
            if rng.random() < 0.5:
                va, vb = vb, va                         # which one is met first (default locale first, then left to right)
            how = rng.choice(["one_string", "one_string", "across_locales", "plural_forms"])
            if how == "across_locales" and not nondefault:
                how = "one_string"
            if how == "one_string":
                parts = neutral_parts(rng) + [va, ("txt", " / ")] + ([("var", var, None, "")] if rng.random() < 0.3 else []) + [vb]
                for loc in ([rng.choice(p.locales)] if rng.random() < 0.6 else p.locales):
                    leaf[loc] = ("parts", [("comp", "b", parts)] if rng.random() < 0.2 else parts)
            elif how == "across_locales":
                a, b = rng.sample(p.locales, 2)
                leaf[a] = ("parts", neutral_parts(rng) + [va])
                leaf[b] = ("parts", [vb] + neutral_parts(rng))
            else:
                leaf[rng.choice(p.locales)] = ("plural", rng.random() < 0.3, {"one": [va, ("txt", " one")], "other": neutral_parts(rng) + [vb]})
            for o in {oa, ob} - {None}:
                multi[o] = "multi_fmt:%s(%s+%s)(depth %d)" % (how, fa, fb, len(path))
    # a plural declared with several forms in ONE locale only, the other locales declaring just `key_other` (which is then
    # the plural `key`: second pass of the plural merging) - several forms only in a non-default locale and the lone
    # `_other` in the default, or the other way round - at sub-key depth 0..3, with or without namespaces; no other plural
    if nondefault and rng.random() < 0.3:
        want = rng.choice([1, 1, 2, 3, 4])
        cands = [len(path) for ns, path, leaf in p.all_leaves()]
        depth = want if want in cands else rng.choice(cands)
        c = pick_leaf(lambda ns, path: len(path) == depth)
        if c is not None:
            ns, path, leaf = c
            ordinal = rng.random() < 0.3
            full = rng.choice(nondefault) if rng.random() < 0.65 else p.default
            some = lambda: neutral_parts(rng) + ([("var", "count", None, "")] if rng.random() < 0.5 else [])
            forms = {f: some() for f in rng.sample(["zero", "one", "two", "few", "many"], rng.choice([1, 2, 3]))}
            forms["other"] = some()
            for loc in p.locales:
                if loc == full:
                    leaf[loc] = ("plural", ordinal, forms)
                elif loc == p.default or rng.random() < 0.6:
                    leaf[loc] = ("plural", ordinal, {"other": some()})          # written as the lone `key_other`
            multi["Plurals"] = "lone_other:several_forms@%s(depth %d)" % ("default" if full == p.default else "nondefault", len(path) - 1)
    for opt in OPTIONS:
        if opt in multi:
            plan[opt] = multi[opt]                      # used there and nowhere else
            continue
        pl = rng.choice(PLACEMENTS)
        if pl == "nondefault_only" and not nondefault:
            pl = "default_only"
        if pl == "via_fk_arg" and opt == "Plurals":
            pl = "via_fk"
        if pl in ("count_rename", "count_here_plain_there") and (opt == "Plurals" or (pl == "count_here_plain_there" and not nondefault)):
            pl = "default_only"
        mode = "plain" if opt == "Plurals" else rng.choice(MODES)
        rty = rng.choice(RANGE_TYPES)
        if pl == "nowhere":
            plan[opt] = pl
            continue
        if pl == "surplus_only":
            if not nondefault:
                plan[opt] = "nowhere"
                continue
            loc = rng.choice(nondefault)
            ns = rng.choice(list(p.trees))
            p.surplus.setdefault((ns, loc), []).append(("extra_%s" % opt.lower(), option_value(rng, opt, mode, rty)))
            plan[opt] = pl + ":" + mode
            continue
        pred = lambda ns, path: True
        if pl == "deep_subkey":
            pred = lambda ns, path: len(path) >= 2
        if pl == "one_namespace" and p.namespaces:
            only = p.namespaces[-1]
            pred = lambda ns, path: ns == only
        c = pick_leaf(pred)
        if c is None:
            c = pick_leaf()
        if c is None:
            plan[opt] = "nowhere(no free leaf)"
            continue
        ns, path, leaf = c
        if pl == "default_only":
            locs = [p.default]
        elif pl == "nondefault_only":
            locs = [rng.choice(nondefault)]
        elif pl == "everywhere":
            locs = p.locales[:]
        else:
            locs = [rng.choice(p.locales)]
        if pl == "count_here_plain_there":
            # the same variable is the count of a plural / range in one locale and a plain formatted variable in another
            f = rng.choice(FMT_OF_OPTION[opt])
            a, b = rng.sample(p.locales, 2)
            if rng.random() < 0.5:
                leaf[a] = ("plural", False, {"one": neutral_parts(rng), "other": [("var", "count", None, ""), ("txt", " items")]})
            else:
                leaf[a] = ("range", rty, [(neutral_parts(rng), [0]), ([("var", "count", None, "")], ["_"])])
            leaf[b] = ("parts", neutral_parts(rng) + [("var", "count", f, rng.choice(FMT_ARGS[f]))])
            plan[opt] = "%s@count:%s,formatted:%s" % (pl, a, b)
            continue
        if pl == "count_rename":
            # the formatter exists only in the `count` argument of a foreign key to a plural / range that shows its count
            t = pick_leaf(lambda tns, tpath: tns == ns or p.namespaces)
            if t is None:
                pl = "default_only"
            else:
                tns, tpath, tleaf = t
                as_plural = rng.random() < 0.5
                for loc in p.locales:
                    shown = [("txt", "n="), ("var", "count", None, "")]
                    if as_plural:
                        tleaf[loc] = ("plural", False, {"one": shown if rng.random() < 0.5 else neutral_parts(rng), "other": shown})
                    else:
                        tleaf[loc] = ("range", rty, [(neutral_parts(rng), [0]), (shown, ["_"])])
                f = rng.choice(FMT_OF_OPTION[opt])
                for loc in locs:
                    leaf[loc] = ("fk", tns, tpath, {"count": [("var", "n", f, rng.choice(FMT_ARGS[f]))]}, [])
                plan[opt] = "count_rename@%s(%s)" % (",".join(locs), "plural" if as_plural else "range")
                continue
        if pl in ("via_fk_arg", "via_fk"):
            t = pick_leaf(lambda tns, tpath: tns == ns or p.namespaces)
            if t is None:
                pl = "default_only" if locs == [p.default] else "one_locale"
            else:
                tns, tpath, tleaf = t
                for loc in p.locales:
                    if pl == "via_fk_arg":
                        tleaf[loc] = ("parts", [("txt", "v: "), ("var", "arg", None, ""), ("txt", "!")])
                    elif loc in locs:
                        tleaf[loc] = option_value(rng, opt, mode, rty)
                    else:
                        tleaf[loc] = ("parts", neutral_parts(rng))
                for loc in locs:
                    args = {}
                    if pl == "via_fk_arg":
                        f = rng.choice(FMT_OF_OPTION[opt])
                        args = {"arg": [("var", "z", f, rng.choice(FMT_ARGS[f]))]}
                    leaf[loc] = ("fk", tns, tpath, args, [("txt", "see ")] if rng.random() < 0.5 else [])
                plan[opt] = "%s:%s@%s" % (pl, mode if pl == "via_fk" else "plain", ",".join(locs))
                continue
        for loc in locs:
            leaf[loc] = option_value(rng, opt, mode, rty)
        plan[opt] = "%s:%s@%s%s" % (pl, mode, ",".join(locs), "(depth %d)" % len(path))
    # rarely: a range and a plural on the same key in different locales (the parser rejects the project)
    if rng.random() < 0.04 and len(p.locales) >= 2:
        c = pick_leaf()
        if c:
            c[2][p.locales[0]] = ("range", None, [(neutral_parts(rng), [0]), (neutral_parts(rng), ["_"])])
            c[2][p.locales[1]] = option_value(rng, "Plurals")
            plan["mix"] = "range+plural on one key"
    p.fill_neutral()
    return p, plan


def run(ctx):
    from checks import isolate
    isolate.enter(ctx)
    bindir = core.cargo_build("h_icu")
    ok, problems_audit = core.coq_audit(ctx, PROPS, THEOREMS)
    okc, logc = core.coq_build(["theories/Build/IcuKeysCheck.vo"])
    if not okc:
        raise core.Infra("IcuKeysCheck.v does not build: " + logc[-600:])
    # mutation testing only: a harness binary built against a modified scratch copy of /repo (never set by ./check users)
    exe = os.environ.get("VERIF_C20_HARNESS_EXE") or os.path.join(bindir, "h_icu")
    n = 1000 if ctx.quick else 10000
    root = os.path.join(ctx.work, "projects")
    shutil.rmtree(root, ignore_errors=True)
    projects = []
    for i in range(n):
        p, plan = gen_project(ctx.rng)
        d = os.path.join(root, "p%d" % i)
        files = p.write(d)
        projects.append((p, plan, d, files))
    rc, out, err = core.sh([exe], input="OPTS\n" + "".join(d + "\n" for _, _, d, _ in projects), timeout=900)
    lines = out.splitlines()
    if rc != 0 or len(lines) != n + 1 or not lines[0].startswith("OPTS|"):
        raise core.Infra("h_icu: %d lines for %d projects (rc %s): %s" % (len(lines), n, rc, err[-400:]))
    dk = Interner()
    tables = {}
    for f in lines[0].split("|")[1:]:
        name, keys = f.split("=", 1)
        tables[name] = [k for k in keys.split(",") if k]
    tcoq = core.coq_list([core.coq_list(["%d" % dk(k) for k in tables[o]]) for o in OPTIONS])
    pre = PRE + "Definition T_ := %s.\n" % tcoq
    items, meta, panics = [], [], []
    for (p, plan, d, files), line in zip(projects, lines[1:]):
        intern = Interner()
        term = p.coq(intern)
        m = {"plan": plan, "default": p.default, "config_locales": p.cfg_locales, "namespaces": p.namespaces, "files": files,
             "impl": line, "coq_project": term}
        if line == "PANIC":
            panics.append(m)
            continue
        if line.startswith("ERR|"):
            items.append("(mk_case %s T_ false [] [] None)" % term)
        else:
            f = dict(x.split("=", 1) for x in line.split("|")[1:])
            keys = [k for k in f["K"].split(",") if k]
            m["impl_keys"] = keys
            m["impl_options_readable"] = [o for o in OPTIONS if set(tables[o]) <= set(keys)]
            locs = [l for l in f["L"].split(",") if l]
            nss = None if f["N"] == "-" else [x for x in f["N"].split(",") if x]
            if f["KN"] != str(len(keys)):
                m["duplicate_keys_yielded"] = f["KN"]
            items.append("(mk_case %s T_ true %s %s %s)" % (
                term, core.coq_list(["%d" % dk(k) for k in keys]), core.coq_list(["%d" % intern("l:" + l) for l in locs]),
                "None" if nss is None else "(Some %s)" % core.coq_list(["%d" % intern("n:" + x) for x in nss])))
        meta.append(m)
    codes = core.coq_eval(ctx, "c20", pre, items, "check", min_per_shard=10)
    for m, c in zip(meta, codes):
        m["code"] = c
    bad = [m for m in meta if m["code"] == 3]
    disagree = [m for m in meta if m["code"] == 2]
    size = lambda m: sum(len(v) for v in m["files"].values())
    if bad:
        bad.sort(key=size)
        for m in bad[:3]:
            m["explanation"] = ("spec_C20_keys (Coq, Build/IcuKeys.v) is false on the helper's answer: the data keys returned by "
                                "get_icu_keys are not the union of Options::into_data_keys over the options the translations use "
                                "(see plan / files), or get_locales is not the configured locale set")
        core.violation(ctx, "spec", {"failing_input": bad[0], "more": [dict(m, files=None) for m in bad[1:4]], "count": len(bad)})
    elif panics:
        core.violation(ctx, "panic", {"failing_input": panics[0], "explanation": "TranslationsInfos panicked"})
    elif disagree or not ok:
        disagree.sort(key=size)
        core.violation(ctx, "correspondence", {
            "broken": ("theorem/audit: " + "; ".join(problems_audit)) if not ok else
                      "correspondence Build/IcuKeys.v vs leptos_i18n_build (get_icu_keys/get_locales/get_namespaces)",
            "first_disagreeing_input": (disagree or [None])[0], "disagreements": len(disagree)}, no_input=True)
    hist = {}
    for m in meta:
        for o, pl in m["plan"].items():
            k = "%s:%s" % (o, pl.split("@")[0].split("(")[0])
            hist[k] = hist.get(k, 0) + 1
    combos = {}
    for m in meta:
        k = ",".join(m.get("impl_options_readable", ["ERR"])) or "(none)"
        combos[k] = combos.get(k, 0) + 1
    nontrivial = {m["coq_project"] for m in meta if any(not pl.startswith("nowhere") for pl in m["plan"].values())}
    core.write_evidence(ctx, {
        "evaluations": len(meta), "distinct_nontrivial": len(nontrivial),
        "rule": "random projects (1-4 locales, default listed anywhere or unlisted, 0-3 namespaces, key trees of depth <= 4 with "
                "text / variables / components / literals / ranges / null / absent values); each of the 5 options is independently "
                "placed nowhere, in the default locale only, in one non-default locale only, in a sub-key of depth >= 2, in the "
                "last namespace only, only through a foreign-key argument, through a foreign key to a key that uses it, only in a "
                "surplus key (must not count), or in every locale; non-trivial = at least one option placed; distinct by the Coq "
                "term of the project",
        "samples": [dict(m, files={k: v[:400] for k, v in m["files"].items()}) for m in meta[:3]],
        "traces_validated_against_impl": len(meta),
        "disagreements": len(disagree), "spec_failures_on_impl": len(bad), "panics": len(panics),
        "rejected_projects": sum(m["impl"].startswith("ERR|") for m in meta),
        "rejection_reasons": sorted({m["impl"][4:60] for m in meta if m["impl"].startswith("ERR|")})[:10],
        "input_distribution": hist, "impl_option_sets": combos, "option_tables": tables, "audit_problems": problems_audit,
    }, assumptions=[
        "the DataKey list of each option is read from the public Options::into_data_keys; whether those lists are what ICU4X needs "
        "at run time is ICU knowledge and is not checked (the property's last sentence is covered only up to that)",
        "a key of the project is a key of the default locale's tree: a surplus key of another locale is dropped with a warning "
        "and does not count",
        "the generator's description of what a value uses after foreign-key substitution (target's variables, argument "
        "substituted for the variable it names) is part of the trusted correspondence machinery"])
    shutil.rmtree(root, ignore_errors=True)


def replay(ctx, path):
    from checks import isolate
    isolate.enter(ctx)
    obj = json.load(open(path))
    fi = obj.get("failing_input") or obj.get("first_disagreeing_input")
    print(json.dumps({k: v for k, v in obj.items() if k not in ("more",)}, indent=1, ensure_ascii=False)[:6000])
    if not fi or not fi.get("files"):
        return 0
    d = os.path.join(ctx.work, "replay_project")
    shutil.rmtree(d, ignore_errors=True)
    for rel, txt in fi["files"].items():
        p = os.path.join(d, rel)
        os.makedirs(os.path.dirname(p), exist_ok=True)
        with open(p, "w") as fh:
            fh.write(txt)
    bindir = core.cargo_build("h_icu")
    rc, out, err = core.sh([os.path.join(bindir, "h_icu")], input="OPTS\n" + d + "\n", timeout=120)
    lines = out.splitlines()
    print("implementation now:", lines[1] if len(lines) > 1 else err)
    print("model:", core.coq_show(ctx, PRE, "model_C20 %s" % fi["coq_project"]))
    print("expected options:", core.coq_show(
        ctx, PRE, "filter (fun o => project_uses o %s) all_options" % fi["coq_project"]))
    shutil.rmtree(d, ignore_errors=True)
    return 1 if lines[1:] and lines[1] != fi.get("impl") else 0
