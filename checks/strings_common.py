"""Shared by checks/C11.py and checks/C17.py: adversarial text generator, generated translation
projects (Cargo.toml with [package.metadata.leptos-i18n], locales directory, namespaces, subkeys),
parser of the h_strings harness output, Coq term printers for Parser/Strings.v."""
import json
import os
import shutil

import re

from vlib import core

# ---------------------------------------------------------------- adversarial text

WORDS = ["Hello", "world", "x", "é", "ß", "日本", "a b", " ", "  ", "0", "Ünï", "naïve", "I18N", "ok"]
SPECIAL = [
    '"', '""', "\\", "\\\\", '\\"', "'", "/", "\n", "\r", "\r\n", "\t", "\x00", "\x01", "\x07", "\x08", "\x0b", "\x0c", "\x1b", "\x1f",
    "\x7f", "\x80", "\x85", "\x9f", "\xa0", "\xad", "͏", "́", "​", "‌", "‍", "‎", " ", " ",
    "⁠", "﻿", "�", "￿", "", "\U0001F600", "\U0001F468‍\U0001F469", "\U0010FFFF", "\U000E0001",
    "</script>", "</SCRIPT>", "</ScRiPt >", "</script", "<!--", "-->", "<!-- <script>", "<", ">", "&", "&amp;", "&lt;", "]]>",
    "{", "}", "[", "]", ",", ":", ";", "%", "\\u0041", "\\u{a0}", "\\n", "null", "];", "window.x = 1;",
]


def gen_text(rng, plain=True):
    """text that the translation parser keeps as one literal (no `{{`, no `<tag>`, no `$t(`)"""
    n = rng.choice([1, 1, 2, 3, 4, 6])
    parts = []
    for _ in range(n):
        r = rng.random()
        if r < 0.35:
            parts.append(rng.choice(WORDS))
        elif r < 0.9:
            parts.append(rng.choice(SPECIAL))
        else:
            cp = rng.choice([rng.randrange(0, 0x20), rng.randrange(0x7f, 0x100), rng.randrange(0x100, 0x3000),
                             rng.randrange(0x10000, 0x110000)])
            if 0xD800 <= cp < 0xE000:
                cp = 0xE000
            parts.append(chr(cp))
    s = "".join(parts)
    while "{{" in s:
        s = s.replace("{{", "{ {")
    return s


def near_duplicate(rng, t):
    """a text that a sloppy comparison (case folding, trimming, Unicode normalisation) would identify with t"""
    import unicodedata
    k = rng.randrange(5)
    if k == 0:
        return t.swapcase()
    if k == 1:
        return t + " "
    if k == 2:
        return " " + t
    if k == 3:
        return unicodedata.normalize("NFD", t) if unicodedata.normalize("NFD", t) != t else t.upper()
    return t + "​"


# ---------------------------------------------------------------- projects

LOCALE_POOL = ["en", "fr", "de", "it", "pt-BR", "zh-Hant", "es-419"]
# namespace names are configured strings, not identifiers: the generated code maps `-` to `_` for its idents only
NS_POOL = ["common", "user-profile", "admin_panel", "a-b-c", "home"]


def put_file(path, content):
    try:
        with open(path, encoding="utf-8") as fh:
            if fh.read() == content:
                return
    except (OSError, UnicodeDecodeError):
        pass
    tmp = path + ".tmp%d" % os.getpid()
    with open(tmp, "w", encoding="utf-8") as fh:
        fh.write(content)
    os.replace(tmp, path)


class Project:
    """locales[0] is the default; units: {ns or None: {locale: tree}}; tree: list of (key, node);
    node: {"kind": plain|other|sub|absent|null, "json": value, "text": str, "sub": tree}"""

    def __init__(self, locales, namespaces, inherits, units, config_pos=0):
        self.locales, self.namespaces, self.inherits, self.units = locales, namespaces, inherits, units
        # position of the default locale in the `locales = [..]` list of the configuration: the parser swaps it with
        # the first entry, `self.locales` is the order AFTER that swap (the order in which the locales are merged)
        self.config_pos = config_pos if 0 <= config_pos < len(locales) else 0

    def config_locales(self):
        c = list(self.locales)
        c[0], c[self.config_pos] = c[self.config_pos], c[0]
        return c

    def write(self, d, clean=True):
        """clean=False (probe crates): files are only rewritten when their content changes and nothing is removed
        while another run of the same seed may be compiling the same directory"""
        if clean:
            shutil.rmtree(d, ignore_errors=True)
        os.makedirs(os.path.join(d, "locales"), exist_ok=True)
        toml = ['[package]', 'name = "probe"', 'version = "0.1.0"', 'edition = "2021"', '',
                '[package.metadata.leptos-i18n]', 'default = %s' % json.dumps(self.locales[0]),
                'locales = %s' % json.dumps(self.config_locales())]
        if self.namespaces:
            toml.append('namespaces = %s' % json.dumps(self.namespaces))
        if self.inherits:
            toml.append('inherits = { %s }' % ", ".join("%s = %s" % (json.dumps(k), json.dumps(v)) for k, v in self.inherits.items()))
        if clean:
            put_file(os.path.join(d, "Cargo.toml"), "\n".join(toml) + "\n")
        keep = set()
        for ns, per_locale in self.units.items():
            for loc, tree in per_locale.items():
                if ns is None:
                    p = os.path.join(d, "locales", loc + ".json")
                else:
                    os.makedirs(os.path.join(d, "locales", loc), exist_ok=True)
                    p = os.path.join(d, "locales", loc, ns + ".json")
                keep.add(p)
                put_file(p, json.dumps(tree_json(tree), ensure_ascii=((len(loc) + len(ns or "")) % 2 == 0), indent=1))
        if not clean:
            for root, _, files in os.walk(os.path.join(d, "locales")):
                for f in files:
                    if os.path.join(root, f) not in keep:
                        os.remove(os.path.join(root, f))

    def plain_paths(self, ns, loc):
        """(key path, text) of the plain keys of a locale that the generated code has an accessor for, i.e. that the
        default locale defines too (a key only a non-default locale has is a surplus key: warned about, never read)"""
        out = []

        def walk(tree, dtree, path):
            d = dict(dtree)
            for k, node in tree:
                if k not in d:
                    continue
                if node["kind"] == "plain":
                    out.append((path + [k], node["text"]))
                elif node["kind"] == "sub" and d[k]["kind"] == "sub":
                    walk(node["sub"], d[k]["sub"], path + [k])
        walk(self.units[ns][loc], self.units[ns][self.locales[0]], [])
        return out


def tree_json(tree):
    o = {}
    for k, node in tree:
        if node["kind"] == "absent":
            continue
        if node["kind"] == "sub":
            o[k] = tree_json(node["sub"])
        elif node["kind"] == "plural":
            for form, v in node["forms"]:
                o["%s_%s" % (k, form)] = v
        else:
            o[k] = node["json"]
    return o


def gen_default_tree(rng, depth, pool, prefix, plain_keys, ns=None):
    """default locale: every key is present"""
    tree = []
    n = rng.choice([1, 2, 3, 4, 5, 7]) if depth else rng.choice([2, 3, 4, 6, 8])
    for i in range(n):
        r = rng.random()
        if r < 0.42:
            rr = rng.random()
            if pool and rr < 0.22:
                t = rng.choice(pool)           # a second key with the same text: the indexer de-duplicates
            elif pool and rr < 0.34:
                t = near_duplicate(rng, rng.choice(pool))   # ... but only identical texts
            else:
                t = "" if rng.random() < 0.04 else gen_text(rng)
                pool.append(t)
            k = "k%d" % i
            tree.append((k, {"kind": "plain", "json": t, "text": t}))
            plain_keys.append(prefix + [k])
        elif r < 0.52:
            a, b = gen_text(rng), gen_text(rng)
            pool.extend([a, b])
            tree.append(("v%d" % i, {"kind": "other", "json": "%s{{ x }}%s" % (a, b)}))
        elif r < 0.60:
            a, b, c = gen_text(rng), gen_text(rng), gen_text(rng)
            pool.extend([a, b, c])
            tree.append(("c%d" % i, {"kind": "other", "json": "%s<b>%s<i>%s</i></b>%s" % (a, b, c, a)}))
        elif r < 0.68:
            a, b, c = gen_text(rng), gen_text(rng), gen_text(rng)
            rows = [[a, 0], [b, "1..5", 7], [c]] if rng.random() < 0.5 else [[a, "..0"], [c, "_"]]
            tree.append(("r%d" % i, {"kind": "other", "json": rows}))
        elif r < 0.76:
            a, b = gen_text(rng), gen_text(rng)
            forms = [("one", a), ("other", "{{ count }}" + b)]
            if rng.random() < 0.3:
                forms.insert(1, ("few", b))
            tree.append(("p%d" % i, {"kind": "plural", "forms": forms}))
        elif r < 0.84 and plain_keys:
            tpath = rng.choice(plain_keys)
            target = (ns + ":" if ns else "") + ".".join(tpath)
            v = "$t(%s)" % target if rng.random() < 0.5 else "%s$t(%s)%s" % (gen_text(rng), target, gen_text(rng))
            tree.append(("f%d" % i, {"kind": "other", "json": v, "target": tpath}))
        elif r < 0.91:
            tree.append(("n%d" % i, {"kind": "other", "json": gen_nonstring(rng)}))
        elif depth < 3:
            sub = gen_default_tree(rng, depth + 1, pool, prefix + ["s%d" % i], plain_keys, ns)
            tree.append(("s%d" % i, {"kind": "sub", "sub": sub}))
        else:
            t = gen_text(rng)
            tree.append(("k%d" % i, {"kind": "plain", "json": t, "text": t}))
            plain_keys.append(prefix + ["k%d" % i])
    return tree


def gen_nonstring(rng):
    return rng.choice([True, False, 0, 3, 17, -4, -1, 2.5, -0.25, 1e3])


def lit_type(j):
    """LiteralType of a JSON value as the parser reads it (None: not a literal)"""
    if isinstance(j, bool):
        return "b"
    if isinstance(j, int):
        return "i" if j < 0 else "u"
    if isinstance(j, float):
        return "f"
    return None


def derive_tree(rng, dtree, pool, default_texts):
    """another locale: same kinds; keys may be absent (implicit default) or null (explicit default)"""
    tree = []
    for k, node in dtree:
        r = rng.random()
        if r < 0.12:
            tree.append((k, {"kind": "absent"}))
        elif r < 0.2 and node["kind"] != "plural":
            tree.append((k, {"kind": "null", "json": None}))
        elif node["kind"] == "plain" and rng.random() < 0.1:
            tree.append((k, {"kind": "other", "json": gen_nonstring(rng)}))    # a number / boolean where the default locale has a text
        elif node["kind"] == "plain":
            rr = rng.random()
            if rr < 0.15 and pool:
                t = rng.choice(pool)
            elif rr < 0.22 and pool:
                t = near_duplicate(rng, rng.choice(pool))
            elif rr < 0.3 and default_texts:
                t = rng.choice(default_texts)      # same text as somewhere in the default locale
            else:
                t = gen_text(rng)
            pool.append(t)
            tree.append((k, {"kind": "plain", "json": t, "text": t}))
        elif node["kind"] == "sub":
            tree.append((k, {"kind": "sub", "sub": derive_tree(rng, node["sub"], pool, default_texts)}))
        elif node["kind"] == "plural":
            forms = [(f, (gen_text(rng) if "{{" not in v else "{{ count }}" + gen_text(rng))) for f, v in node["forms"]]
            tree.append((k, {"kind": "plural", "forms": forms}))
        else:
            j = node["json"]
            if isinstance(j, str) and "$t(" in j:
                tree.append((k, dict(node, kind="fk")))    # kept only if its target exists here, see fix_foreign
            elif isinstance(j, str) and "{{" in j:
                tree.append((k, {"kind": "other", "json": "%s{{ x }}" % gen_text(rng)}))
            elif isinstance(j, str):
                tree.append((k, {"kind": "other", "json": "<b>%s</b>%s" % (gen_text(rng), gen_text(rng))}))
            elif isinstance(j, list):
                tree.append((k, {"kind": "other", "json": [[gen_text(rng), 0], [gen_text(rng)]]}))
            elif rng.random() < 0.45:
                t = gen_text(rng)                                              # a plain text where the default locale has a number / boolean
                pool.append(t)
                tree.append((k, {"kind": "plain", "json": t, "text": t}))
            elif rng.random() < 0.4:
                tree.append((k, {"kind": "other", "json": gen_nonstring(rng)}))    # possibly another literal type
            else:
                tree.append((k, dict(node)))
    return tree


def add_surplus(rng, tree):
    """a key the default locale does not have (surplus key: a warning, its text is never read nor indexed)"""
    t = gen_text(rng)
    tree.append(("x_surplus", {"kind": "plain", "json": t, "text": t}))


def fix_foreign(tree, root=None):
    """a `$t(path)` whose target is absent or null in this locale is an error of the parser: such keys are
    left out (they default to the default locale's value)"""
    root = root if root is not None else tree

    def present(path):
        t = root
        for i, k in enumerate(path):
            node = dict(t).get(k)
            if node is None:
                return False
            if i == len(path) - 1:
                return node["kind"] == "plain"
            if node["kind"] != "sub":
                return False
            t = node["sub"]
        return False
    for i, (k, node) in enumerate(tree):
        if node["kind"] == "fk":
            tree[i] = (k, dict(node, kind="other") if present(node["target"]) else {"kind": "absent"})
        elif node["kind"] == "sub":
            fix_foreign(node["sub"], root)


def gen_project(rng, max_locales=4, force_ns=None):
    nl = rng.choice([1, 2, 2, 3, 3, max_locales])
    locales = rng.sample(LOCALE_POOL, nl)
    use_ns = force_ns if force_ns is not None else (rng.random() < 0.45)
    namespaces = rng.sample(NS_POOL, rng.choice([1, 2, 3])) if use_ns else None
    inherits = {}
    if nl >= 3 and rng.random() < 0.4:
        inherits[locales[2]] = locales[1]
    units = {}
    for ns in (namespaces or [None]):
        per = {}
        pool, plain_keys = [], []
        dtree = gen_default_tree(rng, 0, pool, [], plain_keys, ns)
        per[locales[0]] = dtree
        dtexts = list(pool)
        for loc in locales[1:]:
            per[loc] = derive_tree(rng, dtree, [], dtexts)
            fix_foreign(per[loc])
            if rng.random() < 0.1:
                add_surplus(rng, per[loc])
        units[ns] = per
    return Project(locales, namespaces, inherits, units, config_pos=rng.choice([0, 0, 1, 2, 3]))


def single_string_project(text):
    """the smallest project: one locale, one key"""
    tree = [("k0", {"kind": "plain", "json": text, "text": text})]
    return Project(["en"], None, {}, {None: {"en": tree}})


# ---------------------------------------------------------------- harness output

def unhex(tok):
    assert tok[0] in "sk", tok
    body = tok[1:]
    return "".join(chr(int(x, 16)) for x in body.split(".")) if body else ""


class Shape(Exception):
    pass


def parse_value(toks, i):
    """returns (python tree, next index); tree = ('L', s, idx) | ('R', [..]) | ('C', v) | ('P', [..], other) | ('B', [..]) | (tag,)"""
    t = toks[i]
    if t in ("D", "F", "V", "S"):
        return (t,), i + 1
    if t in ("Ob", "Oi", "Ou", "Of"):
        return ("O", t[1]), i + 1
    if t == "L":
        return ("L", unhex(toks[i + 1]), int(toks[i + 2])), i + 3
    if t in ("R", "B"):
        n = int(toks[i + 1])
        i += 2
        vs = []
        for _ in range(n):
            v, i = parse_value(toks, i)
            vs.append(v)
        return (t, vs), i
    if t == "C":
        v, i = parse_value(toks, i + 1)
        return ("C", v), i
    if t == "P":
        n = int(toks[i + 1])
        i += 2
        vs = []
        for _ in range(n):
            v, i = parse_value(toks, i)
            vs.append(v)
        o, i = parse_value(toks, i)
        return ("P", vs, o), i
    raise Shape("unexpected token %r" % t)


def parse_group(toks, i):
    if toks[i] != "G":
        raise Shape("expected G, got %r" % toks[i])
    n = int(toks[i + 1])
    i += 2
    entries = []
    for _ in range(n):
        k = unhex(toks[i])
        i += 1
        if toks[i] == "N":
            count, nloc, nstr = int(toks[i + 1]), int(toks[i + 2]), int(toks[i + 3])
            g, i = parse_group(toks, i + 4)
            entries.append((k, ("N", count, nloc, nstr, g)))
        elif toks[i] == "X":
            # the block has no nested Locale for this top locale (`X <number of nested locales>`): kept as a block that
            # expects an impossible number of strings, so that the spec predicate names it
            entries.append((k, ("N", 2 ** 64 - 1, int(toks[i + 1]), 0, [])))
            i += 2
        elif toks[i] == "M":
            raise Shape("locale has no value for key %r of the generated code (%s)" % (k, toks[i]))
        else:
            v, i = parse_value(toks, i)
            entries.append((k, ("E", v)))
    return entries, i


def parse_harness_line(line):
    """-> dict(status, err, units: {(ns, locale): {count, strings, tree}}, write, files: {relpath: bytes})"""
    res = {"status": None, "err": None, "units": {}, "order": [], "write": None, "files": {}}
    for rec in line.split(";"):
        toks = rec.split(" ")
        if toks[0] == "R":
            res["status"] = toks[1]
            if len(toks) > 2:
                res["err"] = unhex(toks[2])
        elif toks[0] == "U":
            ns = None if toks[1] == "-" else unhex(toks[1])
            loc = unhex(toks[2])
            n = int(toks[4])
            strings = [unhex(t) for t in toks[5:5 + n]]
            res["units"][(ns, loc)] = {"count": int(toks[3]), "strings": strings}
            res["order"].append((ns, loc))
        elif toks[0] == "T":
            ns = None if toks[1] == "-" else unhex(toks[1])
            loc = unhex(toks[2])
            try:
                g, _ = parse_group(toks, 3)
                res["units"][(ns, loc)]["tree"] = g
            except Shape as e:
                res["units"][(ns, loc)]["shape_error"] = str(e)
        elif toks[0] == "I":
            ns = None if toks[1] == "-" else unhex(toks[1])
            try:
                res.setdefault("kinds", {})[ns] = parse_kinds(toks, 2)[0]
            except Shape as e:
                res.setdefault("kinds_error", str(e))
        elif toks[0] == "P":
            res["previous_write"] = toks[1] if len(toks) == 2 else toks[1] + " " + unhex(toks[2])
        elif toks[0] == "W":
            res["write"] = toks[1] if len(toks) == 2 else toks[1] + " " + unhex(toks[2])
        elif toks[0] == "F":
            res["files"][unhex(toks[1])] = bytes.fromhex(toks[2][1:])
    return res


# ---------------------------------------------------------------- Coq terms (Parser/Strings.v)

LIT_TY = {"s": "TString", "b": "TBool", "i": "TSigned", "u": "TUnsigned", "f": "TFloat"}


def parse_kinds(toks, i):
    """the `I` record: [(key, 'I' | 'T<x>' | [nested])]"""
    if toks[i] != "G":
        raise Shape("expected G, got %r" % toks[i])
    n = int(toks[i + 1])
    i += 2
    out = []
    for _ in range(n):
        k = unhex(toks[i])
        i += 1
        if toks[i] == "G":
            sub, i = parse_kinds(toks, i)
            out.append((k, sub))
        else:
            out.append((k, toks[i]))
            i += 1
    return out, i


def coq_kinds(ks):
    out = "IKNil"
    for k, e in reversed(ks):
        if isinstance(e, list):
            ce = "(IESub %s)" % coq_kinds(e)
        elif e == "I":
            ce = "(IEVal IInterpol)"
        else:
            ce = "(IEVal (ILit %s))" % LIT_TY[e[1]]
        out = "(IKCons %s %s %s)" % (core.coq_str(k), ce, out)
    return out


def coq_strs(ss):
    return core.coq_list([core.coq_str(s) for s in ss])


def coq_pv(v):
    t = v[0]
    if t == "L":
        return "(PLit %s %d)" % (core.coq_str(v[1]), v[2] if v[2] < 2 ** 62 else 2 ** 64 - 1)
    if t == "D":
        return "PDefault"
    if t == "F":
        return "PForeign"
    if t == "V":
        return "PVar"
    if t == "S":
        return "PSubV"
    if t == "O":
        return "(PLitOther %s)" % LIT_TY[v[1]]
    if t == "R":
        return "(PRanges %s)" % coq_pvs(v[1])
    if t == "B":
        return "(PBloc %s)" % coq_pvs(v[1])
    if t == "C":
        return "(PComp %s)" % coq_pv(v[1])
    if t == "P":
        return "(PPlurals %s %s)" % (coq_pvs(v[1]), coq_pv(v[2]))
    raise ValueError(t)


def coq_pvs(vs):
    out = "PNil"
    for v in reversed(vs):
        out = "(PCons %s %s)" % (coq_pv(v), out)
    return out


def coq_group(g):
    out = "GNil"
    for k, e in reversed(g):
        if e[0] == "E":
            ce = "(EVal %s)" % coq_pv(e[1])
        else:
            ce = "(ESub %d %d %s)" % (e[1], e[2], coq_group(e[4]))
        out = "(GCons %s %s %s)" % (core.coq_str(k), ce, out)
    return out


def tree_stats(g, st=None):
    st = st if st is not None else {"lits": 0, "sub": 0, "depth": 0, "kinds": set()}

    def pv(v):
        st["kinds"].add(v[0])
        if v[0] == "L":
            st["lits"] += 1
        elif v[0] in ("R", "B"):
            for x in v[1]:
                pv(x)
        elif v[0] == "C":
            pv(v[1])
        elif v[0] == "P":
            for x in v[1]:
                pv(x)
            pv(v[2])

    def grp(g, d):
        st["depth"] = max(st["depth"], d)
        for _, e in g:
            if e[0] == "E":
                pv(e[1])
            else:
                st["sub"] += 1
                grp(e[4], d + 1)
    grp(g, 0)
    return st


def utf8_or_none(b):
    try:
        return b.decode("utf-8")
    except UnicodeDecodeError:
        return None


# ---------------------------------------------------------------- generated probe crate (dynamic_load + ssr)

REPO = core.REPO     # the tree the probe crate is compiled against

CARGO_TOML = """[package]
name = "{name}"
version = "0.1.0"
edition = "2021"

[workspace]

[dependencies]
leptos = {{ version = "0.7.7", features = ["ssr"] }}
leptos_i18n = {{ path = "{repo}/leptos_i18n", default-features = false, features = ["ssr", "dynamic_load", "json_files", "cookie", "plurals", "icu_compiled_data", "interpolate_display"] }}
tokio = {{ version = "1", features = ["rt"] }}
any_spawner = {{ version = "0.2", features = ["tokio"] }}
serde_json = "1"

[profile.dev]
debug = 0
opt-level = 0

[profile.dev.package."*"]
opt-level = 1
debug = 0

[package.metadata.leptos-i18n]
{i18n}
"""

MAIN_RS = """// generated by /verif/checks/strings_common.py — do not edit
#![allow(non_snake_case, unused_imports, dead_code, unused_variables)]
use leptos::prelude::*;
use leptos_i18n::context::{{CookieOptions, UseLocalesOptions}};
use leptos_i18n::__private::fetch_translations::RegisterCtx;
use leptos_i18n::I18nContext;
use std::sync::{{Arc, Mutex}};

leptos_i18n::load_locales!();
use i18n::*;

/// server side the futures of the `*_string!` / `*_display!` accessors are ready at once
fn ready<F: std::future::Future>(fut: F) -> F::Output {{
    let mut fut = std::pin::pin!(fut);
    let mut cx = std::task::Context::from_waker(std::task::Waker::noop());
    match fut.as_mut().poll(&mut cx) {{
        std::task::Poll::Ready(v) => v,
        std::task::Poll::Pending => panic!("translation future pending on the server"),
    }}
}}

/// LAZY access: `td!` gives a closure, the unit's accessor runs when the HTML is rendered
fn touch(i: usize) -> AnyView {{
    match i {{
{arms}
        _ => ().into_any(),
    }}
}}

/// LAZY access through the context (current locale): `t!`
fn touch_ctx(i18n: I18nContext<Locale>, i: usize) -> AnyView {{
    match i {{
{arms_t}
        _ => ().into_any(),
    }}
}}

/// EAGER accesses: the accessor runs where the macro is evaluated (a component body)
fn eager_td_string(i: usize) -> String {{
    match i {{
{arms_tds}
        _ => String::new(),
    }}
}}
fn eager_td_display(i: usize) -> String {{
    match i {{
{arms_tdd}
        _ => String::new(),
    }}
}}
fn eager_t_string(i18n: I18nContext<Locale>, i: usize) -> String {{
    match i {{
{arms_ts}
        _ => String::new(),
    }}
}}
fn eager_t_display(i18n: I18nContext<Locale>, i: usize) -> String {{
    match i {{
{arms_tsd}
        _ => String::new(),
    }}
}}
fn eager(i18n: I18nContext<Locale>, code: char, i: usize) -> usize {{
    match code.to_ascii_lowercase() {{
        'e' => eager_td_string(i).len(),
        'd' => eager_td_display(i).len(),
        'c' => eager_t_string(i18n, i).len(),
        'p' => eager_t_display(i18n, i).len(),
        _ => 0,
    }}
}}

fn hex(s: &str) -> String {{
    let mut o = String::from("x");
    for b in s.as_bytes() {{
        o.push_str(&format!("{{:02x}}", b));
    }}
    o
}}

#[derive(Clone, Default)]
struct Req {{
    lazy: Vec<usize>,            // `7`   td! in the view
    lazy_ctx: Vec<usize>,        // `l7`  t!(i18n, ..) in the view
    page: Vec<(char, usize)>,    // `e7` td_string!, `d7` td_display!, `c7` t_string!, `p7` t_display! in the page component's body
    nested: Vec<(char, usize)>,  // `E7` `D7` `C7` `P7` the same in the body of a component nested in the page
    outside: Vec<usize>,         // `o7`  td! rendered outside of any provider, before the page
    wrap: usize,                 // `w0` provider, `w1` provider + I18nSubContextProvider, `w2` provider + provide_i18n_subcontext()
}}

#[component]
fn Inner(acc: Vec<(char, usize)>) -> impl IntoView {{
    let i18n = use_i18n();
    let n: usize = acc.iter().map(|&(c, i)| eager(i18n, c, i)).sum();      // component body: EAGER
    view! {{ <span data-n=n>"n"</span> }}
}}

#[component]
fn Page(req: Req, reg: Arc<Mutex<Option<RegisterCtx<Locale>>>>) -> impl IntoView {{
    let i18n = use_i18n();
    let n: usize = req.page.iter().map(|&(c, i)| eager(i18n, c, i)).sum(); // component body: EAGER
    let lazy = req.lazy.clone();
    let lazy_ctx = req.lazy_ctx.clone();
    view! {{
        <div data-n=n>
            {{move || {{
                *reg.lock().unwrap() = use_context::<RegisterCtx<Locale>>();
                lazy.iter().map(|&i| touch(i)).collect_view()
            }}}}
            {{move || lazy_ctx.iter().map(|&i| touch_ctx(i18n, i)).collect_view()}}
            <Inner acc=req.nested.clone() />
        </div>
    }}
}}

#[component]
#[allow(deprecated)]
fn PlainSub(req: Req, reg: Arc<Mutex<Option<RegisterCtx<Locale>>>>) -> impl IntoView {{
    // a sub-context made with the plain function instead of the component
    let _ctx = leptos_i18n::context::provide_i18n_subcontext::<Locale>(None);
    view! {{ <Page req=req reg=reg /> }}
}}

fn render(req: Req) -> (String, String) {{
    // accessors that run outside of any provider (no RegisterCtx in scope): nothing may be embedded for them
    if !req.outside.is_empty() {{
        let o = Owner::new();
        let _ = o.with(|| req.outside.iter().map(|&i| touch(i)).collect_view().to_html());
    }}
    let slot: Arc<Mutex<Option<RegisterCtx<Locale>>>> = Arc::new(Mutex::new(None));
    let slot2 = slot.clone();
    let owner = Owner::new();
    let html = owner.with(|| {{
        let cookie_options: CookieOptions<Locale> = CookieOptions::default()
            .ssr_cookies_header_getter(|| None)
            .ssr_set_cookie(|_c| {{}});
        let lang = UseLocalesOptions::default().ssr_lang_header_getter(|| None);
        match req.wrap {{
            1 => view! {{
                <I18nContextProvider cookie_options=cookie_options ssr_lang_header_getter=lang set_lang_attr_on_html=false set_dir_attr_on_html=false>
                    <I18nSubContextProvider>
                        <Page req=req reg=slot2 />
                    </I18nSubContextProvider>
                </I18nContextProvider>
            }}
            .to_html(),
            2 => view! {{
                <I18nContextProvider cookie_options=cookie_options ssr_lang_header_getter=lang set_lang_attr_on_html=false set_dir_attr_on_html=false>
                    <PlainSub req=req reg=slot2 />
                </I18nContextProvider>
            }}
            .to_html(),
            _ => view! {{
                <I18nContextProvider cookie_options=cookie_options ssr_lang_header_getter=lang set_lang_attr_on_html=false set_dir_attr_on_html=false>
                    <Page req=req reg=slot2 />
                </I18nContextProvider>
            }}
            .to_html(),
        }}
    }});
    let raw = slot.lock().unwrap().as_ref().map(|r| r.to_array()).unwrap_or_default();
    (html, raw)
}}

/// what the hydrating client does with the embedded value: every unit's `locale` and `id` go through the Deserialize
/// impls of the generated `Locale` and unit-id types.  "ok", "unparsed" (the script is not JSON) or the rejected values.
fn client_ids(raw: &str) -> String {{
    type UnitId = <Locale as leptos_i18n::Locale>::TranslationUnitId;
    let Some(rest) = raw.strip_prefix("window.__LEPTOS_I18N_TRANSLATIONS = ") else {{ return "unparsed".to_string() }};
    let rest = rest.trim_end().trim_end_matches(';');
    let Ok(serde_json::Value::Array(units)) = serde_json::from_str::<serde_json::Value>(rest) else {{ return "unparsed".to_string() }};
    let mut bad = Vec::new();
    for u in units {{
        let id = u.get("id").cloned().unwrap_or(serde_json::Value::Null);
        if serde_json::from_value::<UnitId>(id.clone()).is_err() {{
            bad.push(format!("id:{{}}", hex(&id.to_string())));
        }}
        let l = u.get("locale").cloned().unwrap_or(serde_json::Value::Null);
        if serde_json::from_value::<Locale>(l.clone()).is_err() {{
            bad.push(format!("locale:{{}}", hex(&l.to_string())));
        }}
    }}
    if bad.is_empty() {{ "ok".to_string() }} else {{ bad.join(",") }}
}}

fn parse(line: &str) -> Req {{
    let mut r = Req::default();
    for tok in line.split(',').filter(|s| !s.is_empty()) {{
        let c = tok.chars().next().unwrap();
        if c.is_ascii_digit() {{
            if let Ok(i) = tok.parse() {{
                r.lazy.push(i);
            }}
            continue;
        }}
        let Ok(i) = tok[1..].parse::<usize>() else {{ continue }};
        match c {{
            'l' => r.lazy_ctx.push(i),
            'o' => r.outside.push(i),
            'w' => r.wrap = i,
            'e' | 'd' | 'c' | 'p' => r.page.push((c, i)),
            'E' | 'D' | 'C' | 'P' => r.nested.push((c, i)),
            _ => {{}}
        }}
    }}
    r
}}

fn main() {{
    std::panic::set_hook(Box::new(|_| {{}}));
    let rt = tokio::runtime::Builder::new_current_thread().build().unwrap();
    let local = tokio::task::LocalSet::new();
    local.block_on(&rt, async {{
        let _ = any_spawner::Executor::init_tokio();
        let stdin = std::io::stdin();
        let mut line = String::new();
        loop {{
            line.clear();
            match stdin.read_line(&mut line) {{
                Ok(0) | Err(_) => break,
                Ok(_) => {{}}
            }}
            let req = parse(line.trim());
            let r = std::panic::catch_unwind(std::panic::AssertUnwindSafe(|| render(req)));
            match r {{
                Ok((html, raw)) => println!("H {{}} {{}} {{}}", hex(&html), hex(&raw), client_ids(&raw)),
                Err(_) => println!("PANIC"),
            }}
        }}
    }});
}}
"""


def ident(name):
    return name.replace("-", "_")


def touchables(proj):
    """(namespace, locale, key path, macro arguments) for every key an accessor can be generated for"""
    out = []
    for ns, per in proj.units.items():
        dtree = per[proj.locales[0]]

        def walk(tree, path):
            for k, node in tree:
                if node["kind"] == "plain":
                    yield path + [k], ""
                elif node["kind"] == "other" and isinstance(node["json"], str) and "{{ x }}" in node["json"] and "<" not in node["json"] and "$t(" not in node["json"]:
                    yield path + [k], ', x = "arg"'
                elif node["kind"] == "sub":
                    yield from walk(node["sub"], path + [k])
        for path, args in walk(dtree, []):
            for loc in proj.locales:
                out.append((ns, loc, path, args))
    return out


def effective_locale(proj, ns, loc, path):
    """the locale whose table the accessor of `path` reads for `loc`: a key that is absent or null in a locale
    defaults to the locale it inherits from, else to the default locale (transitively)"""
    seen = set()
    while True:
        t = proj.units[ns][loc]
        present = True
        for i, k in enumerate(path):
            node = dict(t).get(k)
            if node is None or node["kind"] in ("absent", "null"):
                present = False
                break
            if i < len(path) - 1:
                if node["kind"] != "sub":
                    present = False
                    break
                t = node["sub"]
        if present or loc == proj.locales[0]:
            return loc
        seen.add(loc)
        nxt = proj.inherits.get(loc, proj.locales[0])
        loc = proj.locales[0] if nxt in seen else nxt


def write_probe(proj, d, touch_list, name):
    proj.write(d, clean=False)   # locales/
    i18n = ['default = %s' % json.dumps(proj.locales[0]), 'locales = %s' % json.dumps(proj.config_locales())]
    if proj.namespaces:
        i18n.append('namespaces = %s' % json.dumps(proj.namespaces))
    if proj.inherits:
        i18n.append('inherits = { %s }' % ", ".join("%s = %s" % (json.dumps(k), json.dumps(v)) for k, v in proj.inherits.items()))
    put_file(os.path.join(d, "Cargo.toml"), CARGO_TOML.format(repo=REPO, i18n="\n".join(i18n), name=name))
    arms, arms_t, arms_tds, arms_tdd, arms_ts, arms_tsd = [], [], [], [], [], []
    for i, (ns, loc, path, args) in enumerate(touch_list):
        keys = ".".join(([ident(ns)] if ns else []) + path)      # the macros take the identifier form of the namespace
        L = ident(loc)
        arms.append("        %d => td!(Locale::%s, %s%s).into_any()," % (i, L, keys, args))
        arms_tds.append("        %d => ready(td_string!(Locale::%s, %s%s)).to_string()," % (i, L, keys, args))
        arms_tdd.append("        %d => format!(\"{}\", ready(td_display!(Locale::%s, %s%s)))," % (i, L, keys, args))
        if loc == proj.locales[0]:          # the context's locale in the probe is the default locale
            arms_t.append("        %d => t!(i18n, %s%s).into_any()," % (i, keys, args))
            arms_ts.append("        %d => ready(t_string!(i18n, %s%s)).to_string()," % (i, keys, args))
            arms_tsd.append("        %d => format!(\"{}\", ready(t_display!(i18n, %s%s)))," % (i, keys, args))
    os.makedirs(os.path.join(d, "src"), exist_ok=True)
    put_file(os.path.join(d, "src", "main.rs"), MAIN_RS.format(
        arms="\n".join(arms), arms_t="\n".join(arms_t), arms_tds="\n".join(arms_tds), arms_tdd="\n".join(arms_tdd),
        arms_ts="\n".join(arms_ts), arms_tsd="\n".join(arms_tsd)))
    lock = os.path.join(d, "Cargo.lock")
    if not os.path.exists(lock):
        shutil.copy(os.path.join(core.HARNESS, "Cargo.lock"), lock)


def build_probe(d, name, timeout=3000):
    env = {"CARGO_TARGET_DIR": core.TARGET, "RUSTFLAGS": "--cap-lints warn"}
    rc, out, err = core.sh(["cargo", "build", "--offline"], cwd=d, timeout=timeout, env=env)
    if rc != 0:
        raise core.HarnessBuildFailed(name + " (generated probe crate)", (out + err)[-6000:])
    return os.path.join(core.TARGET, "debug", name)


SCRIPT_OPEN = re.compile(r"<script[^>]*>", re.I)
SCRIPT_END = re.compile(r"</script[\t\n\f\r />]", re.I)


def extract_script(html):
    """(body, rest) of the first script element, by the tokenizer's script-data rule (the element ends at the first
    `</script` followed by whitespace, `/` or `>`); None when there is no script element"""
    m = SCRIPT_OPEN.search(html)
    if not m:
        return None, html
    rest = html[m.end():]
    e = SCRIPT_END.search(rest)
    if not e:
        return rest, ""
    return rest[:e.start()], rest[e.start():]


def py_decode(body):
    pre = "window.__LEPTOS_I18N_TRANSLATIONS = "
    if not body.startswith(pre):
        return None
    t = body[len(pre):].rstrip()
    if t.endswith(";"):
        t = t[:-1]
    try:
        v = json.loads(t)
    except ValueError:
        return None
    try:
        return [(u["locale"], u["id"], list(u["values"])) for u in v]
    except (TypeError, KeyError):
        return None




PAGE_WRAPPER = re.compile(r'^<div data-n="\d+">(.*)<span data-n="\d+">n</span></div>(?:<!>)*$', re.S)


def page_text(h):
    """what the probe's page component rendered for the lazy accessors (its own wrapper elements removed)"""
    m = PAGE_WRAPPER.match(h)
    return m.group(1) if m else h


def unescape_text(h):
    """text content of the rendered nodes: hydration markers removed, the three entities of the HTML text escape undone"""
    return h.replace("<!>", "").replace("&lt;", "<").replace("&gt;", ">").replace("&quot;", '"').replace("&#39;", "'").replace("&amp;", "&")


def text_at(proj, ns, loc, path):
    t = proj.units[ns][loc]
    node = None
    for k in path:
        node = dict(t).get(k)
        if node is None:
            return None
        t = node.get("sub") or []
    return node.get("text") if node and node["kind"] == "plain" else None


# ---------------------------------------------------------------- string classes, pairwise coverage

CLASS_SAMPLES = {            # one representative text per class (used by the class-matrix projects)
    "quote": '"', "backslash": "\\", "c0": "\x01\n", "c1": "\x85", "nbsp": "\xa0", "zw": "\u200d", "u2028": "\u2028",
    "astral": "\U0001F600", "combining": "e\u0301", "empty": "", "close_script": "</script>", "comment": "<!--",
}
CLASSES = list(CLASS_SAMPLES)
ZW_CHARS = "\u200b\u200c\u200d\u2060\ufeff"


def classify(s):
    """the classes of adversarial content a text belongs to"""
    out = set()
    if s == "":
        out.add("empty")
    if '"' in s:
        out.add("quote")
    if "\\" in s:
        out.add("backslash")
    if any(ord(c) < 32 or ord(c) == 127 for c in s):
        out.add("c0")
    if any(0x80 <= ord(c) < 0xA0 for c in s):
        out.add("c1")
    if "\xa0" in s:
        out.add("nbsp")
    if any(c in s for c in ZW_CHARS):
        out.add("zw")
    if "\u2028" in s or "\u2029" in s:
        out.add("u2028")
    if any(ord(c) > 0xFFFF for c in s):
        out.add("astral")
    if any(0x300 <= ord(c) < 0x370 for c in s):
        out.add("combining")
    if "</script" in s.lower():
        out.add("close_script")
    if "<!--" in s:
        out.add("comment")
    return out


def pairwise(cases, dims, infeasible):
    """cases: list of {dim: set(values)}; dims: {dim: [values]}; infeasible(A, a, B, b) -> reason or None.
    Returns the table for the evidence: counts per pair of values of two different dimensions, zero cells listed."""
    names = list(dims)
    counts = {}
    for c in cases:
        for i, A in enumerate(names):
            for B in names[i + 1:]:
                for a in c.get(A, ()):
                    for b in c.get(B, ()):
                        counts[(A, a, B, b)] = counts.get((A, a, B, b), 0) + 1
    table, zero, infeas, total, covered = {}, [], {}, 0, 0
    for i, A in enumerate(names):
        for B in names[i + 1:]:
            cell = {}
            for a in dims[A]:
                for b in dims[B]:
                    total += 1
                    n = counts.get((A, a, B, b), 0)
                    cell["%s|%s" % (a, b)] = n
                    why = infeasible(A, a, B, b)
                    if why:
                        infeas.setdefault(why, 0)
                        infeas[why] += 1
                        if n:
                            infeas.setdefault("(reached although declared infeasible: %s=%s,%s=%s)" % (A, a, B, b), n)
                    elif n:
                        covered += 1
                    else:
                        zero.append("%s=%s x %s=%s" % (A, a, B, b))
            table["%s x %s" % (A, B)] = cell
    return {"dimensions": dims, "cells": total, "feasible": total - sum(v for k, v in infeas.items() if not k.startswith("(")),
            "covered": covered, "zero_cells": zero, "infeasible_by_reason": infeas, "table": table}


def missing_pairs(cases, dims, infeasible):
    names = list(dims)
    have = set()
    for c in cases:
        for i, A in enumerate(names):
            for B in names[i + 1:]:
                for a in c.get(A, ()):
                    for b in c.get(B, ()):
                        have.add((A, a, B, b))
    miss = set()
    for i, A in enumerate(names):
        for B in names[i + 1:]:
            for a in dims[A]:
                for b in dims[B]:
                    if (A, a, B, b) not in have and not infeasible(A, a, B, b):
                        miss.add((A, a, B, b))
    return miss


def case_pairs(c, dims):
    names = list(dims)
    out = set()
    for i, A in enumerate(names):
        for B in names[i + 1:]:
            for a in c.get(A, ()):
                for b in c.get(B, ()):
                    out.add((A, a, B, b))
    return out


MORE_NS = ["common", "user-profile", "admin_panel", "a-b-c", "shop", "auth-flow", "b2", "zz"]


def matrix_project(rng, use_ns, shift=0, n_units=12):
    """a project in which every class of adversarial text is the FIRST string of some unit's table, a MIDDLE string of
    another and the LAST string of a third; every unit has plain and interpolated keys at top level and in a subgroup,
    and a key (`d5`) that only the default locale defines (other locales default to it)"""
    if use_ns:
        nl = 3
        locales = rng.sample(LOCALE_POOL, nl)
        namespaces = MORE_NS[:(n_units + nl - 1) // nl]
    else:
        locales = rng.sample(LOCALE_POOL, min(n_units, 6))
        namespaces = None
    units = {}
    j = shift
    for ns in (namespaces or [None]):
        per = {}
        for li, loc in enumerate(locales):
            u = "%s%d" % ((ns or "p")[:2], li)
            a, b, c = CLASSES[j % 12], CLASSES[(j + 4) % 12], CLASSES[(j + 8) % 12]

            def txt(cls, tag):
                return "" if cls == "empty" else CLASS_SAMPLES[cls] + tag + u
            tree = [("a0", {"kind": "plain", "json": txt(a, "A"), "text": txt(a, "A")})]
            if li == 0:
                tree.append(("d5", {"kind": "plain", "json": "only default " + u, "text": "only default " + u}))
            else:
                tree.append(("d5", {"kind": "absent"}))
            tree += [
                ("m1", {"kind": "plain", "json": "fill " + u, "text": "fill " + u}),
                ("m2", {"kind": "plain", "json": txt(b, "B"), "text": txt(b, "B")}),
                ("m3", {"kind": "other", "json": "i1 %s {{ x }} i2 %s" % (u, u)}),
                ("s4", {"kind": "sub", "sub": [
                    ("k0", {"kind": "plain", "json": "sub " + u, "text": "sub " + u}),
                    ("v1", {"kind": "other", "json": "s1 %s {{ x }} s2 %s" % (u, u)})]}),
                ("z9", {"kind": "plain", "json": txt(c, "C"), "text": txt(c, "C")}),
            ]
            if b == "empty" or c == "empty":
                # an empty middle/last text must not be de-duplicated against an empty first text: there is none here
                pass
            per[loc] = tree
            j += 1
        units[ns] = per
    if use_ns:
        # two more namespaces: one whose units have NO string (interpolation-only and numeric values), one with ONE string
        other = lambda j: {"kind": "other", "json": j}
        namespaces = namespaces + ["e0", "e1"]
        units["e0"] = {loc: [("n1", other(3)), ("s2", {"kind": "sub", "sub": [("v0", other("{{ x }}"))]}), ("v0", other("{{ x }}"))]
                       for loc in locales}
        units["e1"] = {}
        for loc in locales:
            t = gen_text(rng) + "e1" + loc
            units["e1"][loc] = [("k0", {"kind": "plain", "json": t, "text": t}),
                                ("s2", {"kind": "sub", "sub": [("v0", other("{{ x }}"))]}), ("v1", other("{{ x }}"))]
    return Project(locales, namespaces, {}, units)


# ---------------------------------------------------------------- structured projects for the C11 pairwise audit

def ascii_text(rng):
    return " ".join(rng.choice(["alpha", "beta", "gamma", "delta", "Hello", "world", "ok", "x1", "Z"]) for _ in range(rng.choice([1, 2, 3])))


def structured_project(rng, nloc=3, nns=0, depth=1, mode="rich", inherit=True, ascii_idx=(), focus=None):
    """a project with a prescribed shape.  mode "rich": every group (down to `depth` nested subgroups) holds every kind
    of value, one plain key per class of adversarial text, an exact duplicate, a near duplicate and a foreign key that
    copies a text; "zero": no string literal anywhere (numbers, variables, components / ranges / plurals over variables);
    "one": "zero" plus a single plain text (class `focus`), written twice and copied by a foreign key; "small": "one"
    plus a few more texts.  Locales listed in `ascii_idx` (indices) only use plain ASCII words.  Non-default locales
    leave keys out (implicit default), set keys to null (explicit default), and one of them leaves a whole subgroup
    out; they share one text among themselves and one with the default locale.  With `inherit` the second locale
    inherits from the default one when there are two locales, the third from the second otherwise."""
    locales = rng.sample(LOCALE_POOL, nloc)
    namespaces = (MORE_NS[:nns] if nns > 1 else [rng.choice(["common", "user-profile"])]) if nns else None
    inherits = {}
    if inherit and nloc == 2:
        inherits[locales[1]] = locales[0]
    elif inherit and nloc >= 3:
        inherits[locales[2]] = locales[1]
    uid = [0]

    def text(li, cls=None):
        uid[0] += 1
        if li in ascii_idx:
            return "%s %d" % (ascii_text(rng), uid[0])
        if cls == "empty":
            return ""
        if cls:
            return CLASS_SAMPLES[cls] + "%s%d" % (rng.choice(WORDS), uid[0])
        return gen_text(rng) + str(uid[0])

    def var_values(prefix):
        return [
            ("n1", {"kind": "other", "json": rng.choice([3, -4, 2.5, True])}),
            ("v2", {"kind": "other", "json": "{{ x }}"}),
            ("b3", {"kind": "other", "json": "{{ x }}{{ y }}"}),
            ("c4", {"kind": "other", "json": "<b>{{ x }}</b>"}),
            ("r5", {"kind": "other", "json": [["{{ count }}", 0], ["{{ count }}"]]}),
            ("p6", {"kind": "plural", "forms": [("one", "{{ count }}"), ("other", "{{ count }}")]}),
        ]

    def group(li, d, prefix, ns, shared):
        tree = []
        if mode in ("zero", "one", "small", "mixone"):
            # literal kinds that differ between the locales (no text involved): boolean in some, number in others
            tree.append(("x_bi", {"kind": "other", "json": True if (li == 0 or li % 2 == 0) else 3}))
            if mode == "mixone" and d == depth:
                # a boolean in the default locale / a text in others, and the reverse; tables of 0 or 1 string
                single = shared["single"][0] or "one"
                if li == 0 or li == 2:
                    tree.append(("x_bs", {"kind": "other", "json": True}))
                else:
                    t = single if li >= 3 else (shared["single"][li] or "uno")
                    tree.append(("x_bs", {"kind": "plain", "json": t, "text": t}))
                if li == 0 or li >= 3:
                    tree.append(("x_sb", {"kind": "plain", "json": single, "text": single}))
                else:
                    tree.append(("x_sb", {"kind": "other", "json": 5 if li == 1 else False}))
            if mode == "small":
                if li == 0:
                    tree.append(("x_bs", {"kind": "other", "json": False}))
                else:
                    t = text(li, rng.choice(CLASSES))
                    tree.append(("x_bs", {"kind": "plain", "json": t, "text": t}))
            if mode in ("one", "small") and d == depth:  # the single text sits in the deepest group
                t = shared["single"][li]
                tree.append(("k0", {"kind": "plain", "json": t, "text": t}))
                tree.append(("k0d", {"kind": "plain", "json": t, "text": t}))
                tree.append(("f0", {"kind": "other", "json": "$t(%s%s)" % ((ns + ":") if ns else "", ".".join(prefix + ["k0"])),
                                    "target": prefix + ["k0"]}))
                if mode == "small":
                    for j in range(shared["extra"]):          # the same keys in every locale
                        t2 = text(li, rng.choice(CLASSES))
                        tree.append(("k%d" % (j + 1), {"kind": "plain", "json": t2, "text": t2}))
            tree += var_values(prefix)
        else:
            t0 = text(li, focus)
            tree.append(("k0", {"kind": "plain", "json": t0, "text": t0}))
            tree.append(("k0d", {"kind": "plain", "json": t0, "text": t0}))                       # exact duplicate
            tn = near_duplicate(rng, t0) if t0 else "x"
            tree.append(("k0n", {"kind": "plain", "json": tn, "text": tn}))                       # near duplicate
            tree.append(("f0", {"kind": "other", "json": "%s$t(%s%s)" % ("", (ns + ":") if ns else "", ".".join(prefix + ["k0"])),
                                "target": prefix + ["k0"]}))                                      # foreign key copying k0
            for c in CLASSES:
                t = text(li, c)                      # (ASCII-only locales get a plain word under the same key)
                tree.append(("q_" + c, {"kind": "plain", "json": t, "text": t}))
            tree.append(("sh", {"kind": "plain", "json": shared["all" if li == 0 or rng.random() < 0.5 else "others"],
                                "text": None}))
            tree[-1][1]["text"] = tree[-1][1]["json"]
            if li != 0:
                tree.append(("sh2", {"kind": "plain", "json": shared["others"], "text": shared["others"]}))
            else:
                tree.append(("sh2", {"kind": "plain", "json": shared["all"] + "!", "text": shared["all"] + "!"}))
            # literal kinds across locales: key j differs from the default locale's type first in locale 1, 2 or 3
            for j, (name, dflt) in enumerate([("x_bs", True), ("x_us", 7), ("x_is", -2), ("x_fs", 1.5), ("x_sb", None)]):
                choice = 0 if li == 0 else (li + j) % 3
                if dflt is None:                                   # the default locale has a text
                    if choice == 0:
                        t = text(li)
                        tree.append((name, {"kind": "plain", "json": t, "text": t}))
                    else:
                        tree.append((name, {"kind": "other", "json": [None, 4, False][choice]}))
                elif choice == 0:
                    tree.append((name, {"kind": "other", "json": dflt}))
                elif choice == 1:                                  # a text where the default locale has a number / boolean
                    t = text(li, rng.choice(CLASSES)) or "t"
                    tree.append((name, {"kind": "plain", "json": t, "text": t}))
                else:                                              # another non-string type
                    tree.append((name, {"kind": "other", "json": (2.5 if not isinstance(dflt, float) else False)}))
            a, b = text(li), text(li)
            tree += [
                ("n1", {"kind": "other", "json": rng.choice([3, -4, 2.5, True])}),
                ("v2", {"kind": "other", "json": "%s{{ x }}%s" % (a, b)}),
                ("c4", {"kind": "other", "json": "%s<b>%s</b>" % (text(li), text(li))}),
                ("r5", {"kind": "other", "json": [[text(li), 0], [text(li), "1..5"], [text(li)]]}),
                ("p6", {"kind": "plural", "forms": [("one", text(li)), ("other", "{{ count }}" + text(li))]}),
            ]
        if d < depth:
            tree.append(("s7", {"kind": "sub", "sub": group(li, d + 1, prefix + ["s7"], ns, shared)}))
        return tree

    def thin(tree, li, top=True):
        """non-default locales: leave keys out / null them; locale 1 leaves the whole subgroup out"""
        out = []
        for k, node in tree:
            if node["kind"] == "sub":
                if li == 1 and top:
                    out.append((k, {"kind": "absent"}))
                else:
                    out.append((k, {"kind": "sub", "sub": thin(node["sub"], li, False)}))
            elif k in ("k0", "k0d", "f0", "sh", "sh2", "k0n") or k.startswith("x_"):
                out.append((k, node))
            elif k == "n1":
                out.append((k, {"kind": "absent"}))
            elif k == "v2":
                out.append((k, {"kind": "null", "json": None}))
            elif rng.random() < 0.15 and node["kind"] != "plural":
                out.append((k, {"kind": "null", "json": None}))
            elif rng.random() < 0.15:
                out.append((k, {"kind": "absent"}))
            else:
                out.append((k, node))
        return out
    units = {}
    for ns in (namespaces or [None]):
        uid[0] += 1
        shared = {"all": "shared with default %d" % uid[0], "others": "shared by the others %d" % uid[0]}
        one = text(-1, focus) if focus != "empty" else ""
        shared["extra"] = rng.choice([1, 2, 4])
        shared["single"] = {li: (one if (li == 0 or rng.random() < 0.6) else text(li, focus)) for li in range(nloc)}
        for li in ascii_idx:
            shared["single"][li] = "plain %d" % uid[0]
        per = {}
        for li, loc in enumerate(locales):
            t = group(li, 0, [], ns, shared)
            per[loc] = t if li == 0 else thin(t, li)
            if li:
                fix_foreign(per[loc])
        units[ns] = per
    return Project(locales, namespaces, inherits, units, config_pos=rng.choice([0, 1, 2, 3]))


def sized_project(rng, use_ns):
    """units whose string table is EMPTY (only interpolation-only values, numbers, booleans: the interpolation builder
    still calls the strings accessor, so the unit is registered with no string), has exactly ONE string, or several"""
    def other(j):
        return {"kind": "other", "json": j}

    def texts(n, tag):
        return [gen_text(rng) + tag + str(i) for i in range(n)]
    if use_ns:
        locales = rng.sample(LOCALE_POOL, 3)
        namespaces = ["e0", "e1", "full"]
        units = {}
        units["e0"] = {loc: [("n1", other(rng.choice([3, True, 2.5]))), ("s2", {"kind": "sub", "sub": [("v0", other("{{ x }}"))]}),
                             ("v0", other("{{ x }}"))] for loc in locales}
        units["e1"] = {}
        for li, loc in enumerate(locales):
            t = texts(1, "e1" + loc)[0]
            units["e1"][loc] = [("k0", {"kind": "plain", "json": t, "text": t}), ("n1", other(7)),
                                ("s2", {"kind": "sub", "sub": [("v0", other("{{ x }}"))]}), ("v1", other("{{ x }}"))]
        units["full"] = {}
        for loc in locales:
            a = texts(4, "f" + loc)
            units["full"][loc] = [("k0", {"kind": "plain", "json": a[0], "text": a[0]}),
                                  ("s2", {"kind": "sub", "sub": [("k0", {"kind": "plain", "json": a[1], "text": a[1]}),
                                                                 ("v0", other("%s{{ x }}" % a[2]))]}),
                                  ("v1", other("{{ x }}%s" % a[3]))]
        return Project(locales, namespaces, {}, units)
    locales = rng.sample(LOCALE_POOL, 4)
    per = {}
    for li, loc in enumerate(locales):
        a = texts(3, "p" + loc)
        v0 = "{{ x }}" if li < 2 else ("%s{{ x }}" % a[0])
        sv = "{{ x }}" if li < 3 else ("%s{{ x }}%s" % (a[1], a[2]))
        per[loc] = [("n1", other(rng.choice([3, True, 2.5]))), ("s2", {"kind": "sub", "sub": [("v0", other(sv))]}), ("v0", other(v0))]
    return Project(locales, None, {}, {None: per})


# ---------------------------------------------------------------- regeneration into the same directory

REGEN_MODES = ["after_longer", "after_shorter", "after_identical", "after_extra_namespace"]


def regen_variant(proj, mode):
    """the project as it was when the build helper ran the previous time: the same keys with longer texts and one more
    key per group (its tables serialise longer), with shorter texts (shorter), the same content, or with one more
    namespace (whose files the second generation does not touch)"""
    import copy
    v = copy.deepcopy(proj)

    def walk(tree):
        for k, node in tree:
            if node["kind"] == "plain":
                t = node["text"]
                t = (t + " — previous, longer wording of this text …") if mode in ("after_longer", "after_extra_namespace") else \
                    (t[:1] if mode == "after_shorter" else t)
                node["json"] = node["text"] = t
            elif node["kind"] == "sub":
                walk(node["sub"])
        if mode in ("after_longer", "after_extra_namespace"):
            tree.append(("zz_removed_since", {"kind": "plain", "json": "a key that was removed afterwards", "text": "a key that was removed afterwards"}))
    for per in v.units.values():
        for tree in per.values():
            walk(tree)
    if mode == "after_extra_namespace" and v.namespaces:
        v.namespaces = v.namespaces + ["old_ns"]
        v.units["old_ns"] = {loc: [("k0", {"kind": "plain", "json": "gone " + loc, "text": "gone " + loc})] for loc in v.locales}
    return v
