"""C17 — server-embedded translations survive embedding into the page.
Theorems: coq/theories/Props/C17.v over Runtime/Escape.v (RegisterCtx::to_array byte for byte, a JSON
decoder written in Coq, the script-data end condition, the register model).
Correspondence: a probe crate generated under the work directory (load_locales!() over a generated
project with adversarial strings, leptos_i18n with features dynamic_load + ssr) renders
<I18nContextProvider> natively for a list of requests, each touching chosen (locale, namespace, key)
accessors; the embedded script is extracted from the HTML with the HTML tokenizer's script-data rule.
The expected units come from the parser's string tables (harness h_strings, property C11)."""
import hashlib
import json
import os

from checks import strings_common as sc
from vlib import core

THEOREMS = ["C17_decode", "C17_html_safe", "C17_no_lt", "C17_used_only", "C17_access_times", "C17_page_registry", "C17_spec", "C17_old_refuted", "C17_old_refuted_script"]
PROPS = "theories/Props/C17.v"
REGISTRY = {
    "level": "proof",
    "technique": "Coq proof over a Gallina model of RegisterCtx::{register,to_array} with a JSON decoder written in Coq; "
                 "differential correspondence against a natively rendered <I18nContextProvider> (dynamic_load + ssr) of a "
                 "generated probe crate",
    "text": "Theorems C17_decode, C17_html_safe, C17_used_only, C17_spec (Props/C17.v) hold for all units and all strings over all "
            "code points (no bound). The model is tied to /repo by compiling a generated project (namespaces, subkeys, several "
            "locales, adversarial strings) with load_locales!() under dynamic_load+ssr, rendering pages that touch chosen keys "
            "and evaluating the Coq spec predicate on the script found in the HTML; Python's json module is a second decoder.",
    "design_ref": "DESIGN.md §5 C17",
    "note": "Trusted: Coq kernel + vm_compute; hand-written model Runtime/Escape.v (tied by the correspondence run); the "
            "JavaScript parser is replaced by the JSON grammar plus the HTML script-data end condition; the hydrate-side "
            "init_translations (wasm only) is not run; Python generator; generated probe crate; harness h_strings for the "
            "expected tables. No axioms.",
    "engine": "coq",
    "packages": [("h_strings",)],
}
PRE = ("From Coq Require Import List NArith.\nImport ListNotations.\n"
       "From LI Require Import Base.StrOps Runtime.Escape Runtime.EscapeCheck.\nOpen Scope N_scope.\n")
def coq_unit(loc, ns, table_name):
    return "(%s, %s, %s)" % (core.coq_str(loc), core.coq_opt(ns, core.coq_str), table_name)


DIMS = {
    "units": ["0", "1", "2-3", "4+"],
    "id": ["null", "ns"],
    "hist": ["none", "all_first", "all_repeat", "mixed"],
    "first_touch_outside": ["no", "yes"],
    "prev": ["start", "empty", "same", "all", "overlap", "disjoint"],
    "outside": ["none", "other_unit", "same_unit"],
    "defaulted": ["no", "yes"],
    "touchkind": ["none", "plain_top", "plain_sub", "interp_top", "interp_sub"],
    "repeat_in_request": ["no", "yes"],
    "mix": ["-", "one", "locales", "namespaces", "both"],
    "cls_pos": ["none"] + ["%s@%s" % (c, p) for c in sc.CLASSES for p in ("first", "middle", "last")],
    # WHEN the accessors of a used unit run: only while the HTML is rendered (t!/td! closures), only while the children
    # of the provider are being built (t_string!/td_string!/t_display!/td_display! in a component body), or both
    "access": ["none", "lazy_only", "eager_only", "both"],
    "eager_macro": ["none", "td_string", "td_display", "t_string", "t_display"],
    "eager_place": ["none", "page_body", "nested_component"],
    "lazy_macro": ["none", "td", "t"],
    "wrap": ["provider", "sub_provider_component", "plain_subcontext_function"],
    "table_size": ["none", "0", "1", "2+"],      # number of strings of the used units
    "ns_name": ["none", "identifier", "dashed"],  # configured namespace names of the used units (`user-profile` is not an identifier)
}
EMPTY_VALUES = {"units": "0", "hist": "none", "touchkind": "none", "mix": "-", "cls_pos": "none", "access": "none", "table_size": "none"}


def infeasible(A, a, B, b):
    v = {A: a, B: b}
    for d, e in EMPTY_VALUES.items():
        if v.get(d) == e:                       # the request uses no unit
            for d2, x in v.items():
                if d2 == d:
                    continue
                if d2 in EMPTY_VALUES and x != EMPTY_VALUES[d2]:
                    return "a request that uses no unit has units=0, hist=none, touchkind=none, mix=-, cls_pos=none, access=none, table_size=none"
                if (d2, x) in (("first_touch_outside", "yes"), ("defaulted", "yes"), ("repeat_in_request", "yes"),
                               ("outside", "same_unit"), ("prev", "same"), ("prev", "overlap")):
                    return "needs at least one unit used inside the provider"
    for d, e in EMPTY_VALUES.items():           # ... and conversely
        if d in v and v[d] != e:
            for d2, x in v.items():
                if d2 != d and d2 in EMPTY_VALUES and x == EMPTY_VALUES[d2]:
                    return "a request that uses no unit has units=0, hist=none, touchkind=none, mix=-, cls_pos=none, access=none, table_size=none"
    g = v.get
    if (g("eager_macro") in (None, "none")) != (g("eager_place") in (None, "none")) and "eager_macro" in v and "eager_place" in v:
        return "an eager access has a macro and a place"
    for d2 in ("eager_macro", "eager_place"):
        if g(d2) not in (None, "none") and (g("units") == "0" or g("access") in ("none", "lazy_only")):
            return "an eager access uses a unit eagerly"
        if g(d2) == "none" and g("access") in ("eager_only", "both"):
            return "an eager access uses a unit eagerly"
    if any(g(d) == e for d, e in EMPTY_VALUES.items()) and any(g(d2) not in (None, "none") for d2 in ("eager_macro", "eager_place", "lazy_macro")):
        return "a request that uses no unit makes no access"
    if g("repeat_in_request") == "no" and g("access") == "both":
        return "a unit accessed lazily and eagerly is accessed twice"
    if g("lazy_macro") not in (None, "none") and (g("units") == "0" or g("access") in ("none", "eager_only")):
        return "a lazy access uses a unit lazily"
    if g("lazy_macro") == "none" and g("access") in ("lazy_only", "both"):
        return "a lazy access uses a unit lazily"
    if g("ns_name") not in (None, "none") and (g("id") == "null" or any(g(d) == e for d, e in EMPTY_VALUES.items())):
        return "a namespace name belongs to a used unit of a project with namespaces"
    if g("ns_name") == "none" and g("id") == "ns" and any(g(d) not in (None, e) for d, e in EMPTY_VALUES.items()):
        return "in a project with namespaces every used unit has a namespace name"
    if g("ns_name") == "none" and g("mix") in ("namespaces", "both"):
        return "a namespace name belongs to a used unit of a project with namespaces"
    if v.get("units") == "1" and v.get("hist") == "mixed":
        return "mixed history needs two units"
    if v.get("units") == "1" and v.get("mix") in ("namespaces", "both"):
        return "two namespaces are two units"
    if v.get("id") == "null" and v.get("mix") in ("namespaces", "both"):
        return "projects without namespaces have one (null) id"
    if v.get("mix") == "one" and v.get("units") == "4+":
        return "one requested (namespace, locale) reads at most the locales of its defaulting chain (<= 3)"
    if v.get("hist") == "all_first" and v.get("prev") in ("same", "all", "overlap"):
        return "a unit shared with the previous request has been seen"
    if v.get("hist") == "mixed" and v.get("prev") in ("same", "all", "start"):
        return "mixed history: some unit seen (not at process start), some not (not all used by the previous request)"
    if v.get("hist") == "all_repeat" and v.get("prev") == "start":
        return "nothing has been seen at process start"
    return None


def units_bucket(n):
    return "0" if n == 0 else "1" if n == 1 else "2-3" if n <= 3 else "4+"


class Plan:
    """everything the tagger needs about one probe project"""

    def __init__(self, proj, touch_list, tables):
        self.proj, self.touch_list = proj, touch_list
        self.info = []
        for ns, loc, path, args in touch_list:
            eff = sc.effective_locale(proj, ns, loc, path)
            kind = ("interp" if args else "plain") + ("_sub" if len(path) > 1 else "_top")
            self.info.append({"unit": (ns, eff), "req": (ns, loc), "kind": kind, "defaulted": eff != loc})
        self.all_units = sorted({i["unit"] for i in self.info}, key=lambda x: (x[0] or "", x[1]))
        self.cls = {}
        self.size = {u: len(tables["units"][u]["strings"]) for u in self.all_units}
        for u in self.all_units:
            strings = tables["units"][u]["strings"]
            cp = set()
            for k, t in enumerate(strings):
                pos = []
                if k == 0:
                    pos.append("first")
                if k == len(strings) - 1:
                    pos.append("last")
                if 0 < k < len(strings) - 1:
                    pos.append("middle")
                for c in sc.classify(t):
                    for q in pos:
                        cp.add("%s@%s" % (c, q))
            self.cls[u] = cp
        self.idkind = "ns" if proj.namespaces else "null"

    def new_state(self):
        return {"seen": set(), "first_outside": set(), "prev": None}

    def tags(self, req, st):
        """tags of one request given the state of the process before it; returns (tags, state after)"""
        lazy_idx = list(req["in"]) + list(req.get("ctx", ()))
        eager = list(req.get("eager", ()))
        ins = [self.info[i] for i in lazy_idx + [i for _, i in eager]]
        outs = [self.info[i] for i in req["out"]]
        used = {i["unit"] for i in ins}
        out_units = {i["unit"] for i in outs}
        seen_before = st["seen"]
        first_outside = set(st["first_outside"]) | {u for u in out_units if u not in seen_before}
        t = {"units": {units_bucket(len(used))}, "id": {self.idkind}}
        if not used:
            t["hist"] = {"none"}
        elif used <= seen_before:
            t["hist"] = {"all_repeat"}
        elif not (used & seen_before):
            t["hist"] = {"all_first"}
        else:
            t["hist"] = {"mixed"}
        t["first_touch_outside"] = {"yes" if used & first_outside else "no"}
        prev = st["prev"]
        if prev is None:
            t["prev"] = {"start"}
        elif not prev:
            t["prev"] = {"empty"}
        elif used and prev == used:
            t["prev"] = {"same"}
        elif prev == set(self.all_units):
            t["prev"] = {"all"}
        elif prev & used:
            t["prev"] = {"overlap"}
        else:
            t["prev"] = {"disjoint"}
        t["outside"] = {"none" if not outs else "same_unit" if out_units & used else "other_unit"}
        t["defaulted"] = {"yes" if any(i["defaulted"] for i in ins) else "no"}
        t["touchkind"] = {i["kind"] for i in ins} or {"none"}
        t["repeat_in_request"] = {"yes" if len(ins) > len(used) else "no"}
        reqs = {i["req"] for i in ins}
        nsn, locn = len({r[0] for r in reqs}), len({r[1] for r in reqs})
        t["mix"] = {"-" if not reqs else "one" if len(reqs) == 1 else "both" if nsn > 1 and locn > 1 else
                    "namespaces" if nsn > 1 else "locales"}
        cp = set()
        for u in used:
            cp |= self.cls[u]
        t["cls_pos"] = cp if used else {"none"}
        lazy_units = {self.info[i]["unit"] for i in lazy_idx}
        eager_units = {self.info[i]["unit"] for _, i in eager}
        acc = set()
        for u in used:
            acc.add("both" if u in lazy_units and u in eager_units else "eager_only" if u in eager_units else "lazy_only")
        t["access"] = acc or {"none"}
        names = {"e": "td_string", "d": "td_display", "c": "t_string", "p": "t_display"}
        t["eager_macro"] = {names[c.lower()] for c, _ in eager} or {"none"}
        t["eager_place"] = {("nested_component" if c.isupper() else "page_body") for c, _ in eager} or {"none"}
        t["lazy_macro"] = ({"td"} if req["in"] else set()) | ({"t"} if req.get("ctx") else set()) or {"none"}
        t["wrap"] = {DIMS["wrap"][req.get("wrap", 0)]}
        t["ns_name"] = {("dashed" if "-" in u[0] else "identifier") for u in used if u[0]} or {"none"}
        t["table_size"] = {("0" if self.size[u] == 0 else "1" if self.size[u] == 1 else "2+") for u in used} or {"none"}
        after = {"seen": seen_before | used | out_units, "first_outside": first_outside, "prev": used}
        return t, after

    def candidates(self, rng):
        """single requests the coverage filler can choose from"""
        by = {}
        for i, inf in enumerate(self.info):
            by.setdefault((inf["unit"], inf["kind"], inf["defaulted"]), []).append(i)
        pick = lambda u, kind=None, dflt=False: next(
            (rng.choice(v) for (uu, kk, dd), v in sorted(by.items(), key=lambda kv: repr(kv[0]))
             if uu == u and dd == dflt and (kind is None or kk == kind)), None)
        cands = [{"in": [], "out": []}, {"in": [], "out": [], "wrap": 1}, {"in": [], "out": [], "wrap": 2}]
        units = self.all_units
        for u in units:
            for kind in ("plain_top", "plain_sub", "interp_top", "interp_sub"):
                i = pick(u, kind)
                if i is not None:
                    cands.append({"in": [i], "out": []})
                    cands.append({"in": [i], "out": [i]})                       # touched outside the provider first
                    j = pick(u)
                    cands.append({"in": [i, j], "out": []})                     # the unit twice
            d = pick(u, None, True)
            if d is not None:
                cands.append({"in": [d], "out": []})
                o = pick(u)
                if o is not None:
                    cands.append({"in": [d, o], "out": []})
            i = pick(u)
            if i is not None:
                for w in rng.sample(units, min(3, len(units))):
                    k = pick(w)
                    if w != u and k is not None:
                        cands.append({"in": [i, k], "out": []})
                        cands.append({"in": [i], "out": [k]})                   # another unit touched outside only
                        cands.append({"in": [k], "out": [i, k]})
        dflt = [i for i, inf in enumerate(self.info) if inf["defaulted"]]
        for u in units:                                                          # a defaulted key next to any unit
            i = pick(u, rng.choice([None, "plain_sub", "interp_top", "interp_sub"])) or pick(u)
            if i is not None and dflt:
                same_ns = [d for d in dflt if self.info[d]["req"][0] == u[0]] or dflt
                cands.append({"in": [i, rng.choice(same_ns)], "out": []})
                cands.append({"in": [i, rng.choice(dflt)], "out": [i]})
        for d in rng.sample(dflt, min(8, len(dflt))):                           # one requested (namespace, locale), two units
            o = pick(self.info[d]["req"])
            if o is not None:
                cands.append({"in": [o, d], "out": []})
                w = rng.choice(units)
                k = pick(w)
                if k is not None and w not in (self.info[d]["unit"], self.info[d]["req"]):
                    cands.append({"in": [o, d], "out": [k]})
                    cands.append({"in": [d], "out": [k]})
        for _ in range(12):                                                      # several units inside, another one outside only
            n = rng.choice([1, 2, 3, 4, 5])
            us = rng.sample(units, min(n + 1, len(units)))
            ins = [x for x in (pick(u, rng.choice([None, "interp_top", "interp_sub", "plain_sub"])) or pick(u) for u in us[:-1]) if x is not None]
            k = pick(us[-1])
            if ins and k is not None and len(us) > 1:
                cands.append({"in": ins, "out": [k]})
                cands.append({"in": ins + [rng.choice(ins)], "out": [k]})
        if self.proj.namespaces:                                                 # one locale across all namespaces / one namespace across locales
            for loc in self.proj.locales:
                ins = [x for x in (pick((ns, loc)) for ns in self.proj.namespaces if (ns, loc) in units) if x is not None]
                cands.append({"in": ins, "out": []})
                if len(ins) > 1:
                    cands.append({"in": ins[:-1], "out": ins[-1:]})
        for ns in (self.proj.namespaces or [None]):
            ins = [x for x in (pick((ns, loc)) for loc in self.proj.locales if (ns, loc) in units) if x is not None]
            cands.append({"in": ins, "out": []})
            if len(ins) > 1:
                cands.append({"in": ins[:-1], "out": ins[-1:]})
        everything = [x for x in (pick(u) for u in units) if x is not None]
        cands.append({"in": everything, "out": []})
        cands.append({"in": everything, "out": everything[:1]})
        cands.append({"in": [], "out": everything[:2]})
        for size in (2, 3, 4, 5):
            for _ in range(6):
                us = rng.sample(units, min(size, len(units)))
                ins = [x for x in (pick(u, rng.choice([None, "plain_sub", "interp_top", "interp_sub"])) or pick(u) for u in us) if x is not None]
                cands.append({"in": ins, "out": []})
                cands.append({"in": ins + ins[:1], "out": ins[-1:]})
        return cands + [self.vary(rng, c) for c in cands if c["in"]] + [self.vary(rng, c) for c in cands if len(c["in"]) > 1]

    def vary(self, rng, c):
        """the same touches with other access times: evaluated eagerly in a component body (page or nested component,
        td_string!/td_display!, t_string!/t_display! for the context's locale), lazily through the context (t!), or both"""
        default = self.proj.locales[0]
        v = {"in": [], "ctx": [], "eager": [], "out": list(c["out"]), "wrap": rng.choice([0, 0, 1, 2])}
        mode = rng.choice(["all_eager", "all_eager", "mixed", "both", "ctx", "mixed_both"])
        for j, i in enumerate(c["in"]):
            isdef = self.touch_list[i][1] == default
            code = rng.choice("edcp" if isdef else "ed")
            if rng.random() < 0.4:
                code = code.upper()
            if mode == "all_eager" or (mode == "mixed" and j % 2 == 0):
                v["eager"].append((code, i))
            elif mode == "both" or (mode == "mixed_both" and j % 2 == 0):
                v["eager"].append((code, i))
                (v["ctx"] if isdef and rng.random() < 0.5 else v["in"]).append(i)
            elif mode == "ctx" and isdef:
                v["ctx"].append(i)
            else:
                v["in"].append(i)
        return v


FEASIBLE = None


def feasible_pairs():
    global FEASIBLE
    if FEASIBLE is None:
        names = list(DIMS)
        FEASIBLE = {(A, a, B, b) for i, A in enumerate(names) for B in names[i + 1:] for a in DIMS[A] for b in DIMS[B]
                    if not infeasible(A, a, B, b)}
    return FEASIBLE


def plan_requests(rng, plan, n_random, covered, cap):
    """Sequences of requests, one sequence per server PROCESS (the probe binary is started once per sequence and renders
    its requests one after the other).  Random requests first, then requests chosen to reach pairs of tag values not
    reached yet in this run (`covered`, updated): a candidate alone, after an empty page, after a page that used every
    unit, twice in a row, or as the first request of a new process."""
    procs = [[]]
    st = plan.new_state()
    total = 0

    def push(r):
        nonlocal st, total
        t, st = plan.tags(r, st)
        covered.update(sc.case_pairs(t, DIMS))
        procs[-1].append(r)
        total += 1

    def restart():
        nonlocal st
        procs.append([])
        st = plan.new_state()
    push({"in": [], "out": []})                       # a page that uses no translation, at process start
    idx = list(range(len(plan.touch_list)))
    units = plan.all_units
    by_unit = {u: [i for i in idx if plan.info[i]["unit"] == u] for u in units}
    for _ in range(n_random):
        k = rng.choice([1, 1, 2, 2, 3, 4, len(units)])
        us = rng.sample(units, min(k, len(units)))
        r = []
        for u in us:
            for _ in range(rng.choice([1, 1, 2, 3])):   # the same unit touched repeatedly, different keys
                r.append(rng.choice(by_unit[u]))
        rng.shuffle(r)
        req = {"in": r, "out": []}
        if rng.random() < 0.5:
            req = plan.vary(rng, req)
        push(req)
        if rng.random() < 0.3:
            push(dict(req))                              # the same page again
    feasible = feasible_pairs()
    cands = plan.candidates(rng)
    everything = [c for c in cands if len({plan.info[i]["unit"] for i in c["in"]}) == len(units) and not c["out"]
                  and not c.get("eager") and not c.get("ctx")][:1]
    empty = {"in": [], "out": []}
    names = list(DIMS)

    def pairs_missing(t, missing):
        n = 0
        got = []
        for ai, A in enumerate(names):
            ta = t.get(A, ())
            for B in names[ai + 1:]:
                tb = t.get(B, ())
                for a in ta:
                    for b in tb:
                        p = (A, a, B, b)
                        if p in missing:
                            got.append(p)
        return got

    def search(pool, full, missing):
        best, gain = None, 0.0
        for c in pool:
            options = [(False, [c]), (True, [c])]
            if full:
                options += [(False, [empty, c]), (False, [c, c]), (True, [empty, c]), (True, [c, c])]
                if everything:
                    options += [(False, [everything[0], c]), (False, [everything[0], empty])]
                if len(c["in"]) > 1:
                    half = {"in": c["in"][:1], "out": []}       # one of its units has been seen, the others have not
                    options += [(True, [half, c]), (True, [half, empty, c])]
            for fresh, seq in options:
                s2, got = (plan.new_state() if fresh else st), set()
                for r in seq:
                    t, s2 = plan.tags(r, s2)
                    got.update(pairs_missing(t, missing))
                g = len(got) / (len(seq) + (0.5 if fresh else 0))
                if g > gain:
                    best, gain = (fresh, seq), g
        return best
    refreshed = 0
    while total < cap:
        missing = feasible - covered
        if not missing:
            break
        pool = rng.sample(cands, min(120, len(cands)))
        best = search(pool, False, missing) or search(pool, True, missing) or search(cands, True, missing)
        if best is None:
            if refreshed >= 8:
                break
            refreshed += 1
            cands = plan.candidates(rng)          # other random picks of keys / partner units / access times
            continue
        if best[0]:
            restart()
        for r in best[1]:
            push(r)
    return [p for p in procs if p]


def request_line(r):
    return ",".join([str(i) for i in r["in"]] + ["l%d" % i for i in r.get("ctx", ())] + ["%s%d" % (c, i) for c, i in r.get("eager", ())]
                    + ["o%d" % i for i in r["out"]] + (["w%d" % r["wrap"]] if r.get("wrap") else []))


def one_project(ctx, exe_tables, proj, tag, n_random, covered, cap):
    rng = ctx.rng
    # one directory and one package name per (project kind, seed): concurrent runs never share a crate
    from checks import isolate
    d = isolate.probe_dir(ctx, "probe_%s" % tag)
    touch_list = sc.touchables(proj)
    if len(touch_list) > 400:
        touch_list = rng.sample(touch_list, 400)
    name = isolate.probe_name(ctx, "c17_probe_%s" % tag)
    sc.write_probe(proj, d, touch_list, name)
    # expected tables: the parser's string table of every unit (what the macro bakes into STRINGS)
    rc, out, err = core.sh([exe_tables], input="%s\t%s\n" % (d, os.path.join(d, "out_tables")), timeout=300)
    if rc != 0 or not out.strip():
        raise core.Infra("h_strings failed on the probe project: " + err[-400:])
    tables = sc.parse_harness_line(out.splitlines()[0])
    if tables["status"] != "OK":
        raise core.Infra("generated probe project rejected by the parser: %s" % tables["err"])
    plan = Plan(proj, touch_list, tables)
    procs = plan_requests(rng, plan, n_random, covered, cap)
    exe = sc.build_probe(d, name)
    # ONE process renders a whole sequence: whatever a request leaves behind in the process is seen by the next one
    runs = []
    for pi, reqs in enumerate(procs):
        lines_in = "".join(request_line(r) + "\n" for r in reqs)
        rc, out, err = core.sh([exe], input=lines_in, timeout=900)
        lines = out.splitlines()
        if rc != 0 or len(lines) != len(reqs):
            raise core.Infra("probe: %d lines for %d requests (rc %s); %s" % (len(lines), len(reqs), rc, err[-400:]))
        runs.append((pi, reqs, lines))
    unit_names, defs = {}, []
    for j, ((ns, loc), u) in enumerate(sorted(tables["units"].items(), key=lambda kv: (kv[0][0] or "", kv[0][1]))):
        unit_names[(ns, loc)] = "T_%s_%d" % (tag, j)
        defs.append("Definition T_%s_%d : list str := %s." % (tag, j, sc.coq_strs(u["strings"])))
    items, metas, panics = [], [], []
    flat = []
    for pi, reqs, lines in runs:
        st = plan.new_state()
        for seq_no, (r, line) in enumerate(zip(reqs, lines)):
            tags, st = plan.tags(r, st)
            flat.append((pi, seq_no, r, line, tags))
    for pi, seq_no, r, line, tags in flat:
        how = ([(i, "td! (lazy)") for i in r["in"]] + [(i, "t! (lazy)") for i in r.get("ctx", ())]
               + [(i, {"e": "td_string!", "d": "td_display!", "c": "t_string!", "p": "t_display!"}[c.lower()]
                   + (" (eager, nested component body)" if c.isupper() else " (eager, page component body)")) for c, i in r.get("eager", ())])
        touched = [touch_list[i] for i, _ in how]
        used = sorted({plan.info[i]["unit"] for i, _ in how}, key=lambda x: (x[0] or "", x[1]))
        meta = {"project": tag, "process": pi, "position_in_process": seq_no, "locales": proj.locales, "namespaces": proj.namespaces,
                "request_line": request_line(r), "wrapper": DIMS["wrap"][r.get("wrap", 0)],
                "touched": [{"namespace": t[0], "locale": t[1], "key": ".".join(t[2]), "how": h,
                             "reads_locale": plan.info[i]["unit"][1]} for (i, h), t in zip(how, touched)],
                "touched_outside_provider": [{"namespace": touch_list[i][0], "locale": touch_list[i][1],
                                              "key": ".".join(touch_list[i][2])} for i in r["out"]],
                "tags": {k: sorted(v) for k, v in tags.items()},
                "used_units": [{"namespace": ns, "locale": loc, "strings": tables["units"][(ns, loc)]["strings"]} for ns, loc in used]}
        if line == "PANIC":
            panics.append(meta)
            continue
        _, hx, rx, ids = line.split(" ")
        meta["client_deserializer"] = ids if ids in ("ok", "unparsed") else [
            (x.split(":")[0], bytes.fromhex(x.split(":")[1][1:]).decode("utf-8", "replace")) for x in ids.split(",")]
        html = bytes.fromhex(hx[1:]).decode("utf-8", errors="replace")
        raw = bytes.fromhex(rx[1:]).decode("utf-8", errors="replace")
        body, rest = sc.extract_script(html)
        meta["script_body"] = body
        meta["to_array_output"] = raw
        meta["html_after_script"] = rest[:300]
        meta["embedded_intact"] = (body == raw)
        dec = sc.py_decode(body) if body is not None else None
        exp = sorted((loc, ns or "", tuple(tables["units"][(ns, loc)]["strings"])) for ns, loc in used)
        meta["python_decode_ok"] = dec is not None and sorted((l, i or "", tuple(v)) for l, i, v in dec) == exp
        items.append("(mk_case17 %s %s)" % (
            core.coq_list([coq_unit(loc, ns, unit_names[(ns, loc)]) for ns, loc in used]),
            core.coq_opt(body, core.coq_str)))
        metas.append(meta)
    return defs, items, metas, panics


def shrink_desc(m):
    """the smallest description of a failing request: the offending strings of the used units"""
    bad = []
    for u in m["used_units"]:
        for s in u["strings"]:
            if any(c in s for c in '"\\<>&\u2028\u2029') or any(ord(c) < 32 for c in s):
                bad.append(s)
    bad.sort(key=len)
    return bad[:5]


def run(ctx):
    from checks import isolate
    isolate.enter(ctx)
    bindir = core.cargo_build("h_strings")
    ok, problems = core.coq_audit(ctx, PROPS, THEOREMS)
    exe_tables = os.path.join(bindir, "h_strings")
    rng = ctx.rng
    # random projects (nested subkeys, defaulted keys, inherits) and class-matrix projects (every class of adversarial
    # text first / in the middle / last in some unit's table), each with string ids (namespaces) and with the null id
    projects = [("ns", sc.gen_project(rng, max_locales=3, force_ns=True), 60),
                ("plain", sc.gen_project(rng, max_locales=3, force_ns=False), 60),
                ("mx_ns", sc.matrix_project(rng, True), 25),
                ("mx_a", sc.matrix_project(rng, False, shift=0, n_units=6), 25),
                ("mx_b", sc.matrix_project(rng, False, shift=6, n_units=6), 25),
                # units with an EMPTY string table (interpolation-only / numeric values), with one string, with several
                ("sz_plain", sc.sized_project(rng, False), 25)]
    if not ctx.quick:
        for j in range(2, 5):
            projects += [("ns%d" % j, sc.gen_project(rng, max_locales=4, force_ns=True), 150),
                         ("plain%d" % j, sc.gen_project(rng, max_locales=4, force_ns=False), 150)]
    defs, items, metas, panics = [], [], [], []
    covered = set()
    for tag, proj, n_random in projects:
        d, i, m, p = one_project(ctx, exe_tables, proj, tag, n_random, covered, cap=(400 if ctx.quick else 700))
        defs += d
        items += i
        metas += m
        panics += p
    codes = core.coq_eval(ctx, "c17", PRE + "\n".join(defs) + "\n", items, "check17_x", timeout=1200)
    bad_spec = [m for m, c in zip(metas, codes) if c % 10 == 3]
    disagree = [m for m, c in zip(metas, codes) if c % 10 == 2]
    oracle_mismatch = [m for m, c in zip(metas, codes) if (c // 10 == 1) != m["python_decode_ok"]]
    not_intact = [m for m in metas if not m["embedded_intact"]]
    rejected_ids = [m for m in metas if isinstance(m.get("client_deserializer"), list)]
    known = [f for f in core.load_known("C17") if f.get("status") == "known"]
    if bad_spec:
        bad_spec.sort(key=lambda m: (len(m["used_units"]), m["position_in_process"],
                                     sum(len(s) for u in m["used_units"] for s in u["strings"])))
        first = dict(bad_spec[0])
        first["offending_strings"] = shrink_desc(first)
        # the requests the same process rendered before this one (a request may fail because of what they left behind)
        first["earlier_requests_in_the_same_process"] = [
            {"position_in_process": m["position_in_process"],
             "used_units": [(u["namespace"], u["locale"]) for u in m["used_units"]],
             "touched_outside_provider": [(t["namespace"], t["locale"]) for t in m["touched_outside_provider"]]}
            for m in metas if m["project"] == first["project"] and m["process"] == first["process"]
            and m["position_in_process"] < first["position_in_process"]][-12:]
        first["explanation"] = (
            "spec_C17 (Coq, Runtime/Escape.v) is false on the script found in the rendered page: it does not decode (JSON "
            "grammar) to exactly the units this request used, or it contains `</script` / `<!--` (embedded_intact tells "
            "whether the script element found by the HTML tokenizer rule equals RegisterCtx::to_array()'s output)")
        f = None
        for k in known:
            if k.get("class") == "C17-unescaped" and first["offending_strings"]:
                f = k
        if f:
            core.known_finding(ctx, f, "embedded translations are not escaped: %r" % first["offending_strings"][:1])
        else:
            core.violation(ctx, "spec", {"failing_input": first, "count": len(bad_spec)})
    elif rejected_ids:
        rejected_ids.sort(key=lambda m: (len(m["used_units"]), m["position_in_process"]))
        first = dict(rejected_ids[0])
        first["explanation"] = ("the hydrating client reads every unit's `locale` and `id` through the Deserialize impls of the "
                                "generated Locale / unit-id types: the values listed in client_deserializer are rejected, so the "
                                "embedded translations cannot be loaded")
        core.violation(ctx, "spec", {"failing_input": first, "count": len(rejected_ids)})
    elif panics:
        core.violation(ctx, "panic", {"failing_input": panics[0], "explanation": "rendering the provider panicked"})
    elif disagree or oracle_mismatch or not_intact or not ok:
        core.violation(ctx, "correspondence", {
            "broken": ("theorem/audit: " + "; ".join(problems)) if not ok else
                      "correspondence Runtime/Escape.v (to_array) vs leptos_i18n/src/fetch_translations.rs",
            "first_disagreeing_input": (disagree or oracle_mismatch or not_intact or [None])[0],
            "disagreements": len(disagree), "decoder_mismatch_coq_vs_python": len(oracle_mismatch),
            "script_differs_from_to_array": len(not_intact)}, no_input=True)
    nontrivial = set()
    hist = {}
    for m in metas:
        if m["used_units"]:
            nontrivial.add(hashlib.sha256(repr((m["project"], [(u["namespace"], u["locale"]) for u in m["used_units"]],
                                                sorted(t["key"] for t in m["touched"]))).encode()).hexdigest())
        key = "units=%d,ns=%s,hist=%s" % (min(len(m["used_units"]), 5), m["namespaces"] is not None, m["tags"]["hist"][0])
        hist[key] = hist.get(key, 0) + 1
    allstr = {s for m in metas for u in m["used_units"] for s in u["strings"]}
    classes = {
        "quote": sum('"' in s for s in allstr), "backslash": sum("\\" in s for s in allstr),
        "newline_or_control": sum(any(ord(c) < 32 for c in s) for s in allstr),
        "close_script": sum("</script" in s.lower() for s in allstr), "comment_open": sum("<!--" in s for s in allstr),
        "u2028_2029": sum(("\u2028" in s or "\u2029" in s) for s in allstr),
        "astral": sum(any(ord(c) > 0xFFFF for c in s) for s in allstr), "distinct_strings": len(allstr)}
    samples = []
    for m in metas[1:3] + metas[len(metas) // 2:len(metas) // 2 + 1]:
        s = dict(m)
        s["script_body"] = (s["script_body"] or "")[:600]
        s["to_array_output"] = s["to_array_output"][:200]
        s["used_units"] = [{"namespace": u["namespace"], "locale": u["locale"], "n_strings": len(u["strings"])} for u in s["used_units"]]
        samples.append(s)
    pw = sc.pairwise([{k: set(v) for k, v in m["tags"].items()} for m in metas], DIMS, infeasible)
    core.write_evidence(ctx, {
        "evaluations": len(metas), "distinct_nontrivial": len(nontrivial),
        "pairwise_coverage": pw,
        "rule": "per run six (thorough: twelve) generated projects compiled with load_locales!() under dynamic_load+ssr: random "
                "ones with namespaces (string ids; names that are not identifiers: `user-profile`, `a-b-c`, next to identifier names; "
                "leading-digit names are rejected by the macro's configuration parser, names that collide after `-` -> `_` do not "
                "compile, so neither is generated) and without (null id), 1-3 (4) locales, nested subkeys, defaulted keys, strings "
                "from the adversarial pool, and three class-matrix projects in which every class of text (quote, backslash, C0, C1, "
                "NBSP, zero-width, U+2028/9, astral, combining, empty, </script>, <!--) is the first, a middle and the last string of "
                "some unit; namespaces and locales whose units have an empty string table (interpolation-only and numeric "
                "values) or exactly one string, next to units with several. Requests are rendered in SEQUENCES, one server process per sequence: the empty page, random sets of "
                "units (pages repeated), then requests chosen until every feasible pair of tag values (pairwise_coverage) is "
                "reached: same unit in consecutive requests, first touch / repeat / mixed, after an empty page, after a page that "
                "used every unit, accessors run outside of any provider, several locales / namespaces in one page, plain and "
                "interpolated keys at top level and in subgroups, defaulted keys; per unit, accesses made LAZILY only (td! / t! "
                "closures run while the HTML is rendered), EAGERLY only (td_string!, td_display!, t_string!, t_display! evaluated in "
                "the body of the page component or of a component nested in it, while the provider's children are built), or both; "
                "the page directly under <I18nContextProvider>, under an <I18nSubContextProvider>, or under a sub-context made with "
                "the plain provide_i18n_subcontext() function. spec_C17 is evaluated per request against the "
                "units that request used inside the provider, whenever they were accessed; non-trivial = at least one unit used; distinct by (units, keys)",
        "samples": samples, "string_classes_in_used_units": classes,
        "traces_validated_against_impl": len(metas),
        "disagreements": len(disagree), "spec_failures_on_impl": len(bad_spec),
        "decoder_mismatch_coq_vs_python": len(oracle_mismatch), "script_differs_from_to_array": len(not_intact),
        "unit_ids_rejected_by_the_client_deserializer": len(rejected_ids),
        "panics": len(panics), "input_distribution": hist, "audit_problems": problems,
    }, assumptions=[
        "the JavaScript engine is replaced by the JSON grammar (Coq decoder, Python json as a second opinion) and the HTML "
        "tokenizer's script-data end rule",
        "expected units are the parser's string tables (tied to the translation sources by C11)",
        "the hydrate-side init_translations (wasm only) is not executed; its first step, the Deserialize impls of the generated "
        "Locale and unit-id types, is run natively on every unit of every script (serde_json::from_value)",
        "a page whose context is made with the plain provide_i18n_context()/init_i18n_context() functions and no "
        "<I18nContextProvider> has no embedded script at all (only the component embeds one): outside the property"])


def replay(ctx, path):
    from checks import isolate
    isolate.enter(ctx)
    obj = json.load(open(path))
    print(json.dumps(obj, indent=1, ensure_ascii=True))
    fi = obj.get("failing_input") or obj.get("first_disagreeing_input")
    if fi and fi.get("script_body") is not None:
        used = [(u["locale"], u["namespace"], u["strings"]) for u in fi["used_units"]]
        term = "(mk_case17 %s %s)" % (
            core.coq_list(["(%s, %s, %s)" % (core.coq_str(l), core.coq_opt(n, core.coq_str), sc.coq_strs(s)) for l, n, s in used]),
            core.coq_opt(fi["script_body"], core.coq_str))
        core.coq_build(["theories/Runtime/EscapeCheck.vo"])
        print("check code on the stored script (0 ok, 2 differs from model, 3 spec violated; +10 decodes to the used units):",
              core.coq_eval(ctx, "c17replay", PRE, [term], "check17_x"))
    return 0
