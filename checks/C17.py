"""C17 — server-embedded translations survive embedding into the page.
Theorems: coq/theories/Props/C17.v over Runtime/Escape.v (RegisterCtx::to_array byte for byte, a JSON
decoder written in Coq, the script-data end condition, the register model).
Correspondence: a probe crate generated under the work directory (load_locales!() over a generated
project with adversarial strings, leptos_i18n with features dynamic_load + ssr) renders
<I18nContextProvider> natively for a list of requests, each touching chosen (locale, namespace, key)
accessors; the embedded script is extracted from the HTML with the HTML tokenizer's script-data rule.
The expected units come from the parser's string tables (harness h_strings, property C11)."""
import hashlib
import json
import os

from checks import strings_common as sc
from vlib import core

THEOREMS = ["C17_decode", "C17_html_safe", "C17_no_lt", "C17_used_only", "C17_spec", "C17_old_refuted", "C17_old_refuted_script"]
PROPS = "theories/Props/C17.v"
REGISTRY = {
    "level": "proof",
    "technique": "Coq proof over a Gallina model of RegisterCtx::{register,to_array} with a JSON decoder written in Coq; "
                 "differential correspondence against a natively rendered <I18nContextProvider> (dynamic_load + ssr) of a "
                 "generated probe crate",
    "text": "Theorems C17_decode, C17_html_safe, C17_used_only, C17_spec (Props/C17.v) hold for all units and all strings over all "
            "code points (no bound). The model is tied to /repo by compiling a generated project (namespaces, subkeys, several "
            "locales, adversarial strings) with load_locales!() under dynamic_load+ssr, rendering pages that touch chosen keys "
            "and evaluating the Coq spec predicate on the script found in the HTML; Python's json module is a second decoder.",
    "design_ref": "DESIGN.md §5 C17",
    "note": "Trusted: Coq kernel + vm_compute; hand-written model Runtime/Escape.v (tied by the correspondence run); the "
            "JavaScript parser is replaced by the JSON grammar plus the HTML script-data end condition; the hydrate-side "
            "init_translations (wasm only) is not run; Python generator; generated probe crate; harness h_strings for the "
            "expected tables. No axioms.",
    "engine": "coq",
    "packages": [("h_strings",)],
}
PRE = ("From Coq Require Import List NArith.\nImport ListNotations.\n"
       "From LI Require Import Base.StrOps Runtime.Escape Runtime.EscapeCheck.\nOpen Scope N_scope.\n")
def coq_unit(loc, ns, table_name):
    return "(%s, %s, %s)" % (core.coq_str(loc), core.coq_opt(ns, core.coq_str), table_name)


def gen_requests(rng, touch_list, n):
    reqs = [[]]                      # a page that uses no translation at all
    idx = list(range(len(touch_list)))
    units = sorted({(t[0], t[1]) for t in touch_list}, key=lambda x: (x[0] or "", x[1]))
    by_unit = {u: [i for i in idx if (touch_list[i][0], touch_list[i][1]) == u] for u in units}
    for u in units:                  # every unit alone
        reqs.append([rng.choice(by_unit[u])])
    while len(reqs) < n:
        k = rng.choice([1, 1, 2, 2, 3, 4, len(units)])
        us = rng.sample(units, min(k, len(units)))
        r = []
        for u in us:
            for _ in range(rng.choice([1, 1, 2, 3])):      # the same unit touched repeatedly, different keys
                r.append(rng.choice(by_unit[u]))
        rng.shuffle(r)
        reqs.append(r)
    return reqs


def one_project(ctx, exe_tables, proj, tag, n_requests):
    rng = ctx.rng
    d = os.path.join(ctx.work, "probe_" + tag)
    # keep target-independent files stable so that cargo only recompiles the probe itself
    touch_list = sc.touchables(proj)
    if len(touch_list) > 400:
        touch_list = rng.sample(touch_list, 400)
    name = "c17_probe_" + tag
    sc.write_probe(proj, d, touch_list, name)
    # expected tables: the parser's string table of every unit (what the macro bakes into STRINGS)
    rc, out, err = core.sh([exe_tables], input="%s\t%s\n" % (d, os.path.join(d, "out_tables")), timeout=300)
    if rc != 0 or not out.strip():
        raise core.Infra("h_strings failed on the probe project: " + err[-400:])
    tables = sc.parse_harness_line(out.splitlines()[0])
    if tables["status"] != "OK":
        raise core.Infra("generated probe project rejected by the parser: %s" % tables["err"])
    exe = sc.build_probe(d, name)
    reqs = gen_requests(rng, touch_list, n_requests)
    rc, out, err = core.sh([exe], input="".join(",".join(map(str, r)) + "\n" for r in reqs), timeout=900)
    lines = out.splitlines()
    if rc != 0 or len(lines) != len(reqs):
        raise core.Infra("probe: %d lines for %d requests (rc %s); %s" % (len(lines), len(reqs), rc, err[-400:]))
    unit_names, defs = {}, []
    for j, ((ns, loc), u) in enumerate(sorted(tables["units"].items(), key=lambda kv: (kv[0][0] or "", kv[0][1]))):
        unit_names[(ns, loc)] = "T_%s_%d" % (tag, j)
        defs.append("Definition T_%s_%d : list str := %s." % (tag, j, sc.coq_strs(u["strings"])))
    items, metas, panics = [], [], []
    for r, line in zip(reqs, lines):
        touched = [touch_list[i] for i in r]
        used = sorted({(t[0], sc.effective_locale(proj, t[0], t[1], t[2])) for t in touched}, key=lambda x: (x[0] or "", x[1]))
        meta = {"project": tag, "locales": proj.locales, "namespaces": proj.namespaces,
                "touched": [{"namespace": t[0], "locale": t[1], "key": ".".join(t[2]),
                             "reads_locale": sc.effective_locale(proj, t[0], t[1], t[2])} for t in touched],
                "used_units": [{"namespace": ns, "locale": loc, "strings": tables["units"][(ns, loc)]["strings"]} for ns, loc in used]}
        if line == "PANIC":
            panics.append(meta)
            continue
        _, hx, rx = line.split(" ")
        html = bytes.fromhex(hx[1:]).decode("utf-8", errors="replace")
        raw = bytes.fromhex(rx[1:]).decode("utf-8", errors="replace")
        body, rest = sc.extract_script(html)
        meta["script_body"] = body
        meta["to_array_output"] = raw
        meta["html_after_script"] = rest[:300]
        meta["embedded_intact"] = (body == raw)
        dec = sc.py_decode(body) if body is not None else None
        exp = sorted((loc, ns, tuple(tables["units"][(ns, loc)]["strings"])) for ns, loc in used)
        meta["python_decode_ok"] = dec is not None and sorted((l, i, tuple(v)) for l, i, v in dec) == exp and len(dec) == len(exp)
        items.append("(mk_case17 %s %s)" % (
            core.coq_list([coq_unit(loc, ns, unit_names[(ns, loc)]) for ns, loc in used]),
            core.coq_opt(body, core.coq_str)))
        metas.append(meta)
    return defs, items, metas, panics


def shrink_desc(m):
    """the smallest description of a failing request: the offending strings of the used units"""
    bad = []
    for u in m["used_units"]:
        for s in u["strings"]:
            if any(c in s for c in '"\\<>&\u2028\u2029') or any(ord(c) < 32 for c in s):
                bad.append(s)
    bad.sort(key=len)
    return bad[:5]


def run(ctx):
    bindir = core.cargo_build("h_strings")
    ok, problems = core.coq_audit(ctx, PROPS, THEOREMS)
    exe_tables = os.path.join(bindir, "h_strings")
    rng = ctx.rng
    projects = [("ns", sc.gen_project(rng, max_locales=3, force_ns=True)),
                ("plain", sc.gen_project(rng, max_locales=3, force_ns=False))]
    if not ctx.quick:
        for j in range(2, 5):
            projects += [("ns%d" % j, sc.gen_project(rng, max_locales=4, force_ns=True)),
                         ("plain%d" % j, sc.gen_project(rng, max_locales=4, force_ns=False))]
    n_req = 60 if ctx.quick else 250
    defs, items, metas, panics = [], [], [], []
    for tag, proj in projects:
        d, i, m, p = one_project(ctx, exe_tables, proj, tag, n_req)
        defs += d
        items += i
        metas += m
        panics += p
    codes = core.coq_eval(ctx, "c17", PRE + "\n".join(defs) + "\n", items, "check17_x", timeout=1200)
    bad_spec = [m for m, c in zip(metas, codes) if c % 10 == 3]
    disagree = [m for m, c in zip(metas, codes) if c % 10 == 2]
    oracle_mismatch = [m for m, c in zip(metas, codes) if (c // 10 == 1) != m["python_decode_ok"]]
    not_intact = [m for m in metas if not m["embedded_intact"]]
    known = [f for f in core.load_known("C17") if f.get("status") == "known"]
    if bad_spec:
        bad_spec.sort(key=lambda m: (len(m["used_units"]), sum(len(s) for u in m["used_units"] for s in u["strings"])))
        first = dict(bad_spec[0])
        first["offending_strings"] = shrink_desc(first)
        first["explanation"] = (
            "spec_C17 (Coq, Runtime/Escape.v) is false on the script found in the rendered page: it does not decode (JSON "
            "grammar) to exactly the units this request used, or it contains `</script` / `<!--` (embedded_intact tells "
            "whether the script element found by the HTML tokenizer rule equals RegisterCtx::to_array()'s output)")
        f = None
        for k in known:
            if k.get("class") == "C17-unescaped" and first["offending_strings"]:
                f = k
        if f:
            core.known_finding(ctx, f, "embedded translations are not escaped: %r" % first["offending_strings"][:1])
        else:
            core.violation(ctx, "spec", {"failing_input": first, "count": len(bad_spec)})
    elif panics:
        core.violation(ctx, "panic", {"failing_input": panics[0], "explanation": "rendering the provider panicked"})
    elif disagree or oracle_mismatch or not_intact or not ok:
        core.violation(ctx, "correspondence", {
            "broken": ("theorem/audit: " + "; ".join(problems)) if not ok else
                      "correspondence Runtime/Escape.v (to_array) vs leptos_i18n/src/fetch_translations.rs",
            "first_disagreeing_input": (disagree or oracle_mismatch or not_intact or [None])[0],
            "disagreements": len(disagree), "decoder_mismatch_coq_vs_python": len(oracle_mismatch),
            "script_differs_from_to_array": len(not_intact)}, no_input=True)
    nontrivial = set()
    hist = {}
    for m in metas:
        if m["used_units"]:
            nontrivial.add(hashlib.sha256(repr((m["project"], [(u["namespace"], u["locale"]) for u in m["used_units"]],
                                                sorted(t["key"] for t in m["touched"]))).encode()).hexdigest())
        key = "units=%d,ns=%s" % (len(m["used_units"]), m["namespaces"] is not None)
        hist[key] = hist.get(key, 0) + 1
    allstr = {s for m in metas for u in m["used_units"] for s in u["strings"]}
    classes = {
        "quote": sum('"' in s for s in allstr), "backslash": sum("\\" in s for s in allstr),
        "newline_or_control": sum(any(ord(c) < 32 for c in s) for s in allstr),
        "close_script": sum("</script" in s.lower() for s in allstr), "comment_open": sum("<!--" in s for s in allstr),
        "u2028_2029": sum(("\u2028" in s or "\u2029" in s) for s in allstr),
        "astral": sum(any(ord(c) > 0xFFFF for c in s) for s in allstr), "distinct_strings": len(allstr)}
    samples = []
    for m in metas[1:3] + metas[len(metas) // 2:len(metas) // 2 + 1]:
        s = dict(m)
        s["script_body"] = (s["script_body"] or "")[:600]
        s["to_array_output"] = s["to_array_output"][:200]
        s["used_units"] = [{"namespace": u["namespace"], "locale": u["locale"], "n_strings": len(u["strings"])} for u in s["used_units"]]
        samples.append(s)
    core.write_evidence(ctx, {
        "evaluations": len(metas), "distinct_nontrivial": len(nontrivial),
        "rule": "per run two (thorough: eight) generated projects, one with namespaces (string ids) and one without (null id), "
                "1-3 (4) locales, nested subkeys, strings from the adversarial pool (quotes, backslashes, controls, </script>, "
                "<!--, U+2028/9, astral, combining), compiled with load_locales!() under dynamic_load+ssr; requests = the empty "
                "page, every unit alone, then random sets of 1..all units with repeated touches of different keys (plain and "
                "interpolated, top level and inside subkeys); non-trivial = at least one unit used; distinct by (units, keys)",
        "samples": samples, "string_classes_in_used_units": classes,
        "traces_validated_against_impl": len(metas),
        "disagreements": len(disagree), "spec_failures_on_impl": len(bad_spec),
        "decoder_mismatch_coq_vs_python": len(oracle_mismatch), "script_differs_from_to_array": len(not_intact),
        "panics": len(panics), "input_distribution": hist, "audit_problems": problems,
    }, assumptions=[
        "the JavaScript engine is replaced by the JSON grammar (Coq decoder, Python json as a second opinion) and the HTML "
        "tokenizer's script-data end rule",
        "expected units are the parser's string tables (tied to the translation sources by C11)",
        "the hydrate-side init_translations (wasm only) is not executed"])


def replay(ctx, path):
    obj = json.load(open(path))
    print(json.dumps(obj, indent=1, ensure_ascii=True))
    fi = obj.get("failing_input") or obj.get("first_disagreeing_input")
    if fi and fi.get("script_body") is not None:
        used = [(u["locale"], u["namespace"], u["strings"]) for u in fi["used_units"]]
        term = "(mk_case17 %s %s)" % (
            core.coq_list(["(%s, %s, %s)" % (core.coq_str(l), core.coq_opt(n, core.coq_str), sc.coq_strs(s)) for l, n, s in used]),
            core.coq_opt(fi["script_body"], core.coq_str))
        core.coq_build(["theories/Runtime/EscapeCheck.vo"])
        print("check code on the stored script (0 ok, 2 differs from model, 3 spec violated; +10 decodes to the used units):",
              core.coq_eval(ctx, "c17replay", PRE, [term], "check17_x"))
    return 0
