"""C11 — exported string tables match the indices the generated code reads.
Theorems: coq/theories/Props/C11.v over the models Parser/Strings.v (indexer, traversal, counts)
and Runtime/Escape.v (JSON decoder, TranslationsFormatter).
Correspondence: harness h_strings links leptos_i18n_parser and leptos_i18n_build, parses generated
projects, dumps Locale.strings / the ParsedValue trees with their indices / the nested counts, and
reads back the files written by get_translations().write_to_dir()."""
import hashlib
import json
import os

from checks import strings_common as sc
from vlib import core

THEOREMS = ["C11_index_inv", "C11_dedup", "C11_unit", "C11_counts", "C11_json_roundtrip", "C11_json_valid", "C11_spec",
            "C11_non_string_not_indexed", "C11_literal_kinds_indexed", "C11_literal_kinds_indexed_default", "C11_locales_independent",
            "C11_nested_counts", "C11_nested_blocks_aligned",
            "C11_old_refuted", "C11_old_refuted_nbsp"]
PROPS = "theories/Props/C11.v"
REGISTRY = {
    "level": "proof",
    "technique": "Coq proof over Gallina models of StringIndexer/index_strings/propagate_string_count and of the JSON writer, "
                 "with a JSON decoder written in Coq; differential correspondence (coqc vm_compute vs leptos_i18n_parser + "
                 "leptos_i18n_build on generated projects)",
    "text": "Theorems C11_index_inv, C11_counts, C11_json_roundtrip, C11_json_valid, C11_spec (Props/C11.v) hold for every "
            "value tree and every list of Unicode strings (no bound). The model is tied to /repo by parsing generated "
            "projects (namespaces, subkeys, defaulted locales, foreign keys, adversarial strings) with the real parser, "
            "writing the files with the real build helper and evaluating the Coq spec predicate (indices, counts, JSON "
            "decoding by the Coq decoder) on the implementation's tables and files; Python's json module is a second decoder.",
    "design_ref": "DESIGN.md §5 C11",
    "note": "Trusted: Coq kernel + vm_compute; hand-written models Parser/Strings.v and Runtime/Escape.v (tied by the "
            "correspondence run); Python generator; Rust harness h_strings. The client-side read (index_translations / "
            "StringArray::cast) is modelled as list indexing with an exact length check. No axioms.",
    "engine": "coq",
    "packages": [("h_strings",)],
}
PRE = ("From Coq Require Import List NArith.\nImport ListNotations.\n"
       "From LI Require Import Base.StrOps Runtime.Escape Parser.Strings Parser.StringsCheck.\nOpen Scope N_scope.\n")

CORPUS = ["\x01", "\xa0", "‍", "Hello \"q\" \\ </script>", "a\nb\tc\r", "\U0001F600", "\x00", "\x7f", "  ", ""]


def run_harness(ctx, exe, projects, tag):
    base = os.path.join(ctx.work, "proj_" + tag)
    lines_in = []
    for i, p in enumerate(projects):
        d = os.path.join(base, "p%d" % i)
        p.write(d)
        prev = ""
        if getattr(p, "regen", None):
            # the build helper ran before, for an earlier state of the project, into the same directory
            prev = d + "_prev"
            sc.regen_variant(p, p.regen).write(prev)
        lines_in.append("%s\t%s\t%s\n" % (d, os.path.join(d, "out"), prev))
    rc, out, err = core.sh([exe], input="".join(lines_in), timeout=900)
    lines = out.splitlines()
    if rc != 0 or len(lines) != len(projects):
        raise core.Infra("h_strings: %d lines for %d cases (rc %s); %s" % (len(lines), len(projects), rc, err[-400:]))
    return [sc.parse_harness_line(l) for l in lines]


def unit_cases(pi, proj, res):
    """one Coq case per translation unit of a parsed project"""
    out = []
    for (ns, loc) in res["order"]:
        u = res["units"][(ns, loc)]
        rel = (ns + "/" if ns else "") + loc + ".json"
        raw = res["files"].get(rel)
        text = sc.utf8_or_none(raw) if raw is not None else None
        try:
            py = json.loads(text) if text is not None else None
            py_ok = isinstance(py, list) and py == u["strings"]
        except ValueError:
            py_ok = False
        plain = proj.plain_paths(ns, loc)
        meta = {"project": pi, "namespace": ns, "locale": loc, "locales": proj.locales, "namespaces": proj.namespaces,
                "impl_count": u["count"], "impl_strings": u["strings"], "file": rel,
                "impl_file_text": text if text is not None else (raw.hex() if raw is not None else None),
                "python_json_ok": py_ok, "shape_error": u.get("shape_error"), "write": res["write"],
                "earlier_generation_into_the_same_directory": getattr(proj, "regen", None), "earlier_write": res.get("previous_write")}
        if "tree" not in u:
            out.append((None, meta))
            continue
        term = "(mk_case %s %d %s %s %d %s)" % (
            core.coq_list(["(%s, %s)" % (sc.coq_strs(p), core.coq_str(t)) for p, t in plain]),
            len(proj.locales), sc.coq_group(u["tree"]), sc.coq_strs(u["strings"]), u["count"],
            core.coq_opt(text, core.coq_str))
        meta["stats"] = sc.tree_stats(u["tree"])
        meta["literals_not_selecting_their_text"] = bad_literals(u["tree"], u["strings"])[:5]
        meta["nested_blocks_with_wrong_count"] = bad_blocks(u["tree"], len(u["strings"]), len(proj.locales))[:5]
        out.append((term, meta))
    return out


def bad_literals(tree, table, path=()):
    """string literals of a dumped tree whose index does not select their text (for the violation report)"""
    out = []

    def pv(v, where):
        if v[0] == "L":
            if not (0 <= v[2] < len(table)) or table[v[2]] != v[1]:
                out.append({"key": ".".join(where), "text": v[1], "index": v[2], "table_length": len(table)})
        elif v[0] in ("R", "B"):
            for x in v[1]:
                pv(x, where)
        elif v[0] == "C":
            pv(v[1], where)
        elif v[0] == "P":
            for x in v[1]:
                pv(x, where)
            pv(v[2], where)
    for k, e in tree:
        if e[0] == "E":
            pv(e[1], path + (k,))
        else:
            out.extend(bad_literals(e[4], table, path + (k,)))
    return out


def bad_blocks(tree, n_table, nloc, path=()):
    """nested subkey blocks whose expected string count is not the length of this locale's table, or that do not hold
    one nested Locale per top locale (for the violation report)"""
    out = []
    for k, e in tree:
        if e[0] == "N":
            if e[1] != n_table or e[2] != nloc:
                out.append({"block": ".".join(path + (k,)), "expects_strings": e[1] if e[1] < 2 ** 63 else "no nested Locale for this locale",
                            "table_length": n_table, "nested_locales": e[2], "locales": nloc})
            out.extend(bad_blocks(e[4], n_table, nloc, path + (k,)))
    return out


def shrink(ctx, exe, failing):
    """smallest failing input: a project with one locale, one key, one character if possible"""
    chars = sorted({c for s in failing["impl_strings"] for c in s})
    cands = [c for c in chars] + [s for s in failing["impl_strings"] if len(s) > 1]
    cands = cands[:400]
    if not cands:
        return None
    projs = [sc.single_string_project(t) for t in cands]
    res = run_harness(ctx, exe, projs, "shrink")
    items, metas = [], []
    for t, p, r in zip(cands, projs, res):
        if r["status"] != "OK":
            continue
        for term, meta in unit_cases(0, p, r):
            if term:
                items.append(term)
                meta["text"] = t
                metas.append(meta)
    codes = core.coq_eval(ctx, "c11shrink", PRE, items, "check_x")
    bad = [m for m, c in zip(metas, codes) if c % 10 == 3]
    bad.sort(key=lambda m: (len(m["text"]), m["text"]))
    return bad[0] if bad else None


def rendered_text_probe(ctx, exe_tables):
    """generated code, dynamic_load + ssr: the `[&str; N]` types of every (nested) group compile, and the accessor of
    every plain key, in every locale, renders exactly the text the translator wrote (or the text of the locale it
    defaults to).  Returns counts and the mismatches."""
    rng = ctx.rng
    cands = [sc.gen_project(rng, max_locales=3, force_ns=(i % 2 == 0)) for i in range(6)]
    proj = max(cands, key=lambda p: len([t for t in sc.touchables(p) if t[3] == ""]))
    from checks import isolate
    d = isolate.probe_dir(ctx, "probe_text")
    touch_list = [t for t in sc.touchables(proj) if t[3] == ""]
    if len(touch_list) > 300:
        touch_list = rng.sample(touch_list, 300)
    name = isolate.probe_name(ctx, "c11_probe_text")
    sc.write_probe(proj, d, touch_list, name)
    probe = sc.build_probe(d, name)
    rc, out, err = core.sh([probe], input="".join("%d\n" % i for i in range(len(touch_list))), timeout=600)
    lines = out.splitlines()
    if rc != 0 or len(lines) != len(touch_list):
        raise core.Infra("text probe: %d lines for %d touches; %s" % (len(lines), len(touch_list), err[-300:]))
    bad, n = [], 0
    for (ns, loc, path, _), line in zip(touch_list, lines):
        eff = sc.effective_locale(proj, ns, loc, path)
        want = sc.text_at(proj, ns, eff, path)
        if want is None:
            continue
        n += 1
        if line == "PANIC":
            bad.append({"namespace": ns, "locale": loc, "key": ".".join(path), "expected": want, "rendered": "PANIC"})
            continue
        html = bytes.fromhex(line.split(" ")[1][1:]).decode("utf-8", errors="replace")
        m = sc.SCRIPT_OPEN.search(html)
        got = sc.unescape_text(sc.page_text(html[:m.start()] if m else html))
        if got != want and not (want == "" and got == " "):      # leptos renders an empty text node as one space
            bad.append({"namespace": ns, "locale": loc, "reads_locale": eff, "key": ".".join(path), "expected": want, "rendered": got})
    return {"accessors_rendered": n, "mismatches": bad}


DIMS = {
    "nloc": ["1", "2", "3", "4+"],
    "role": ["default", "other", "inherits", "inherited_from"],
    "ns": ["none", "1", "2+"],
    # the files are judged after the LAST generation; an earlier one wrote into the same directory
    "regen": ["none"] + sc.REGEN_MODES,
    "ns_name": ["none", "identifier", "dashed"],   # configured name of the unit's namespace (`user-profile` is not an identifier)
    "depth": ["0", "1", "2", "3"],
    "kinds": ["L", "O", "R", "D", "V", "P", "B", "C"],
    "defaulting": ["none", "key", "whole_group"],
    "dup": ["none", "exact_within", "near_within", "foreign_key", "across_other_locales", "across_default"],
    "cls": ["none"] + sc.CLASSES,
    "size": ["0", "1", "2-9", "10+"],
    # literal kinds of this locale's values against the default locale's, key by key
    "litmix": ["none", "string_where_default_is_not", "non_string_where_default_is_string", "other_non_string_type"],
    "first_to_differ": ["no", "yes"],       # for some key this locale is the first, in merge order, whose literal type differs
}


def infeasible(A, a, B, b):
    v = {A: a, B: b}
    g = v.get
    if g("regen") == "after_extra_namespace" and (g("ns") == "none" or g("ns_name") == "none"):
        return "a removed namespace needs a project with namespaces"
    if "ns" in v and "ns_name" in v and (g("ns") == "none") != (g("ns_name") == "none"):
        return "a namespace name belongs to a project with namespaces"
    if g("nloc") == "1" and (g("role") not in (None, "default") or g("dup") in ("across_other_locales", "across_default")
                              or g("defaulting") in ("key", "whole_group") or g("kinds") == "D"):
        return "a project with one locale has only its default locale: nothing defaults, nothing is shared across locales"
    if g("role") == "default" and (g("defaulting") in ("key", "whole_group") or g("kinds") == "D"
                                   or g("dup") in ("across_other_locales", "across_default")):
        return "the default locale defines every key (explicit defaults are an error there); sharing is tagged on the other locales"
    if g("role") == "inherited_from" and g("nloc") == "2":
        return "a non-default locale that another one inherits from needs three locales"
    if g("nloc") == "2" and g("dup") == "across_other_locales":
        return "sharing among non-default locales needs three locales"
    if g("litmix") not in (None, "none") and (g("nloc") == "1" or g("role") == "default"):
        return "literal kinds are compared with the default locale's"
    if g("first_to_differ") == "yes" and (g("nloc") == "1" or g("role") == "default" or g("litmix") == "none"):
        return "literal kinds are compared with the default locale's"
    if g("size") == "0" and g("litmix") == "string_where_default_is_not":
        return "an empty table has no text"
    if g("size") == "0" and (g("cls") not in (None, "none") or g("kinds") == "L" or g("dup") not in (None, "none")):
        return "an empty table has no text"
    if g("size") == "1" and g("dup") == "near_within":
        return "near duplicates are two different texts"
    if g("depth") == "0" and g("defaulting") == "whole_group":
        return "no nested group"
    if (g("kinds") == "D" and g("defaulting") == "none") or (g("kinds") == "L" and g("size") == "0"):
        return "a defaulted key is what defaulting means"
    return None


def norm_near(t):
    import unicodedata
    return unicodedata.normalize("NFC", t.replace("​", "").strip().casefold())


def unit_tags(proj, ns, loc, res):
    u = res["units"][(ns, loc)]
    li = proj.locales.index(loc)
    t = {"nloc": {str(len(proj.locales)) if len(proj.locales) < 4 else "4+"},
         "ns": {"none" if not proj.namespaces else "1" if len(proj.namespaces) == 1 else "2+"}}
    t["regen"] = {getattr(proj, "regen", None) or "none"}
    t["ns_name"] = {"none" if ns is None else "dashed" if "-" in ns else "identifier"}
    if li == 0:
        t["role"] = {"default"}
    else:
        r = set()
        if loc in proj.inherits:
            r.add("inherits")
        if loc in proj.inherits.values():
            r.add("inherited_from")
        t["role"] = r or {"other"}
    st = u.get("_stats") or sc.tree_stats(u["tree"])
    t["depth"] = {str(min(st["depth"], 3))}
    t["kinds"] = {k for k in st["kinds"] if k in DIMS["kinds"]}

    def whole(g):
        return all((e[0] == "E" and e[1][0] == "D") or (e[0] == "N" and whole(e[4])) for _, e in g) and len(g) > 0

    def any_whole(g):
        return any(e[0] == "N" and (whole(e[4]) or any_whole(e[4])) for _, e in g)
    d = set()
    if "D" in st["kinds"]:
        d.add("key")
    if any_whole(u["tree"]):
        d.add("whole_group")
    t["defaulting"] = d or {"none"}
    table = u["strings"]
    dup = set()
    plain = [txt for _, txt in proj.plain_paths(ns, loc)]
    if len(plain) != len(set(plain)):
        dup.add("exact_within")
    if len({norm_near(x) for x in table}) < len(table):
        dup.add("near_within")

    def has_fk(tree):
        return any((n["kind"] == "other" and isinstance(n.get("json"), str) and "$t(" in n["json"]) or
                   (n["kind"] == "sub" and has_fk(n["sub"])) for _, n in tree)
    if table and has_fk(proj.units[ns][loc]):
        dup.add("foreign_key")
    if li > 0 and table:
        for l2 in proj.locales[1:]:
            if l2 != loc and set(table) & set(res["units"][(ns, l2)]["strings"]):
                dup.add("across_other_locales")
        if set(table) & set(res["units"][(ns, proj.locales[0])]["strings"]):
            dup.add("across_default")
    t["dup"] = dup or {"none"}
    cl = set()
    for x in table:
        cl |= sc.classify(x)
    t["cls"] = cl or {"none"}
    n = len(table)
    t["size"] = {"0" if n == 0 else "1" if n == 1 else "2-9" if n < 10 else "10+"}
    mix, first = set(), False

    def kind_of(node):
        if node is None or node["kind"] in ("absent", "null"):
            return None                   # defaulted: leaves the state of the key alone
        if node["kind"] == "plain":
            return "s"
        if node["kind"] == "other":
            return sc.lit_type(node.get("json")) or "x"      # x: not a literal (a builder from then on)
        return "x"

    def walk(dtree, trees_before, tree):
        nonlocal first
        here = dict(tree)
        for k, dnode in dtree:
            node = here.get(k)
            if dnode["kind"] == "sub":
                if node is not None and node["kind"] == "sub":
                    walk(dnode["sub"], [dict(tb).get(k, {}).get("sub") or [] for tb in trees_before], node["sub"])
                continue
            dk, mk = kind_of(dnode), kind_of(node)
            if dk in (None, "x") or mk in (None, "x") or dk == mk:
                continue
            mix.add("string_where_default_is_not" if mk == "s" else
                    "non_string_where_default_is_string" if dk == "s" else "other_non_string_type")
            if all(kind_of(dict(tb).get(k)) in (None, dk) for tb in trees_before):
                first = True
    if li > 0:
        per = proj.units[ns]
        walk(per[proj.locales[0]], [per[l] for l in proj.locales[1:li]], per[loc])
    t["litmix"] = mix or {"none"}
    t["first_to_differ"] = {"yes" if first else "no"}
    return t


def params_for(rng, pair):
    """parameters of a structured project in which a unit with both tag values can exist"""
    A, a, B, b = pair
    v = {A: a, B: b}
    P = {"nloc": rng.choice([2, 3, 4]), "nns": rng.choice([0, 1, 2]), "depth": rng.choice([0, 1, 2]), "mode": "rich",
         "inherit": True, "ascii_idx": (), "focus": None}
    role_idx = None
    if "nloc" in v:
        P["nloc"] = {"1": 1, "2": 2, "3": 3, "4+": rng.choice([4, 5])}[v["nloc"]]
    if v.get("regen") == "after_extra_namespace" and "ns" not in v:
        P["nns"] = rng.choice([1, 2, 3])
    if v.get("ns_name") in ("identifier", "dashed"):
        P["nns"] = rng.choice([2, 3, 4])
    if "ns" in v:
        P["nns"] = {"none": 0, "1": 1, "2+": rng.choice([2, 3])}[v["ns"]]
    if "depth" in v:
        P["depth"] = int(v["depth"])
    if v.get("defaulting") == "whole_group":
        P["depth"] = max(P["depth"], 1)
        P["nloc"] = max(P["nloc"], 2)
        role_idx = 1
    if v.get("defaulting") == "key" or v.get("kinds") == "D" or v.get("dup") == "across_default":
        P["nloc"] = max(P["nloc"], 2)
    if v.get("dup") == "across_other_locales":
        P["nloc"] = max(P["nloc"], 3)
    r = v.get("role")
    if r == "default":
        role_idx = 0
    elif r == "inherits":
        P["nloc"] = max(P["nloc"], 2)
        role_idx = 1 if P["nloc"] == 2 else 2
    elif r == "inherited_from":
        P["nloc"] = max(P["nloc"], 3)
        role_idx = 1
    elif r == "other":
        P["nloc"] = max(P["nloc"], 2)
        if P["nloc"] == 2:
            P["inherit"] = False
            role_idx = 1
        elif P["nloc"] == 3:
            if "nloc" in v:
                P["inherit"] = False
                role_idx = 2
            else:
                P["nloc"] = 4
                role_idx = 3
        else:
            role_idx = 3
    if v.get("litmix") not in (None, "none") or v.get("first_to_differ") == "yes":
        P["nloc"] = max(P["nloc"], 2 if "nloc" in v else 4)
        if role_idx is None and "role" not in v:
            role_idx = 1
    if "size" in v:
        P["mode"] = {"0": "zero", "1": "one", "2-9": "small", "10+": "rich"}[v["size"]]
        if v["size"] in ("0", "1") and (v.get("litmix") not in (None, "none", "other_non_string_type") or v.get("first_to_differ") == "yes"):
            P["mode"] = "mixone"
            P["nloc"] = max(P["nloc"], 4) if "nloc" not in v else P["nloc"]
        if P["mode"] in ("one", "small") and role_idx == 1 and v.get("defaulting") != "whole_group":
            P["depth"] = 0 if "depth" not in v else P["depth"]
    c = v.get("cls")
    if c == "none":
        P["ascii_idx"] = (role_idx,) if role_idx is not None else tuple(range(P["nloc"]))
        if P["mode"] in ("one", "small") or "size" in v:
            P["ascii_idx"] = tuple(range(P["nloc"]))
    elif c:
        P["focus"] = c
    if v.get("dup") == "near_within" and P["mode"] != "rich":
        P["mode"] = "rich"
    return P


def run(ctx):
    from checks import isolate
    isolate.enter(ctx)
    bindir = core.cargo_build("h_strings")
    ok, problems = core.coq_audit(ctx, PROPS, THEOREMS)
    exe = os.path.join(bindir, "h_strings")
    rng = ctx.rng
    projects = [sc.single_string_project(t) for t in CORPUS]
    projects += [sc.single_string_project(sc.CLASS_SAMPLES[c] + ("" if c == "empty" else "z")) for c in sc.CLASSES]
    n_random = 200 if ctx.quick else 4000
    for _ in range(n_random):
        projects.append(sc.gen_project(rng))
    # structured grid: locales x namespaces x nesting depth, every kind of value / class of text / kind of repetition in
    # every group; then tables of size 0, 1 and a few
    k = 0
    for nloc in (1, 2, 3, 4):
        for nns in (0, 1, 2):
            for depth in (0, 1, 2, 3):
                k += 1
                if ctx.quick and (k % 2) and nloc in (2, 3) and depth in (1, 2):
                    continue
                projects.append(sc.structured_project(rng, nloc=nloc, nns=nns, depth=depth, mode="rich", inherit=(k % 3 != 0),
                                                      ascii_idx=((k % nloc,) if k % 4 == 0 else ())))
    for mode in ("zero", "one", "small", "mixone"):
        for nloc in (1, 2, 3, 4):
            for j in range(3):
                k += 1
                projects.append(sc.structured_project(rng, nloc=nloc, nns=j, depth=(k % 4), mode=mode, inherit=(k % 2 == 0),
                                                      ascii_idx=(tuple(range(nloc)) if k % 5 == 0 else ()),
                                                      focus=sc.CLASSES[k % len(sc.CLASSES)]))
    def set_regen(p, i, want=None):
        mode = want if want else (sc.REGEN_MODES[i % 4] if i % 8 < 4 else None)
        if mode == "after_extra_namespace" and not p.namespaces:
            mode = "after_longer"
        p.regen = mode
    for i, p in enumerate(projects):
        set_regen(p, i)
    stale_files = regen_done = regen_failed = 0
    items, metas, skipped, panics, shape = [], [], [], [], []
    ns_items, ns_metas = [], []
    tagged = []
    rounds = 0
    todo = projects
    n_done = 0
    while todo:
        results = run_harness(ctx, exe, todo, "r%d" % rounds)
        for pi, (p, r) in enumerate(zip(todo, results), start=n_done):
            if r["status"] == "PANIC" or (r["write"] or "").startswith("PANIC"):
                panics.append({"project": pi, "locales": p.locales, "namespaces": p.namespaces})
                continue
            if r["status"] != "OK":
                skipped.append({"project": pi, "error": r["err"]})
                continue
            expected_files = {((ns + "/") if ns else "") + loc + ".json" for (ns, loc) in r["order"]}
            stale_files += len(set(r["files"]) - expected_files)
            if getattr(p, "regen", None):
                regen_done += (r.get("previous_write") == "OK")
                regen_failed += (r.get("previous_write") != "OK")
            for ns in (p.namespaces or [None]):
                trees = [r["units"][(n2, loc)].get("tree") for (n2, loc) in r["order"] if n2 == ns]
                if "kinds" in r and ns in r["kinds"] and all(t is not None for t in trees):
                    ns_items.append("(mk_nscase %s %s)" % (core.coq_list([sc.coq_group(t) for t in trees]), sc.coq_kinds(r["kinds"][ns])))
                    ns_metas.append({"project": pi, "namespace": ns, "merge_order": [loc for (n2, loc) in r["order"] if n2 == ns],
                                     "config_locales": p.config_locales(), "impl_final_kinds": r["kinds"][ns]})
            for term, meta in unit_cases(pi, p, r):
                if term is None:
                    shape.append(meta)
                else:
                    meta["tags"] = {kk: sorted(vv) for kk, vv in unit_tags(p, meta["namespace"], meta["locale"], r).items()}
                    tagged.append({kk: set(vv) for kk, vv in meta["tags"].items()})
                    items.append(term)
                    metas.append(meta)
        n_done += len(todo)
        rounds += 1
        missing = sorted(sc.missing_pairs(tagged, DIMS, infeasible))
        if not missing or rounds > 4:
            break
        # top-up: structured projects built for the pairs of tag values not reached yet
        todo = []
        for pair in missing[:150]:
            for _ in range(2):
                todo.append(sc.structured_project(rng, **params_for(rng, pair)))
                want = pair[1] if pair[0] == "regen" else pair[3] if pair[2] == "regen" else None
                set_regen(todo[-1], len(todo), None if want == "none" else want)
                if want == "none":
                    todo[-1].regen = None
    projects_total = n_done
    codes = core.coq_eval(ctx, "c11", PRE, items, "check_x", timeout=1200)
    ns_codes = core.coq_eval(ctx, "c11ns", PRE, ns_items, "check_ns", timeout=1200)
    ns_disagree = [m for m, c in zip(ns_metas, ns_codes) if c == 2]
    ns_unmodelled = sum(c == 1 for c in ns_codes)
    probe_build_failure = None
    try:
        rendered = rendered_text_probe(ctx, exe)
    except core.HarnessBuildFailed as e:
        # the generated crate does not compile: reported below unless the tables themselves already show why
        probe_build_failure = e
        rendered = {"accessors_rendered": 0, "mismatches": []}
    if not ctx.quick and probe_build_failure is None:
        for _ in range(2):
            more = rendered_text_probe(ctx, exe)
            rendered = {"accessors_rendered": rendered["accessors_rendered"] + more["accessors_rendered"],
                        "mismatches": rendered["mismatches"] + more["mismatches"]}
    bad_spec = [m for m, c in zip(metas, codes) if c % 10 == 3]
    disagree = [m for m, c in zip(metas, codes) if c % 10 == 2]
    oracle_mismatch = [m for m, c in zip(metas, codes) if (c // 10 == 1) != m["python_json_ok"]]
    known = [f for f in core.load_known("C11") if f.get("status") == "known"]
    if bad_spec:
        bad_spec.sort(key=lambda m: (sum(len(s) for s in m["impl_strings"]), len(m["impl_strings"])))
        first = bad_spec[0]
        structural = (first.get("literals_not_selecting_their_text") or first.get("nested_blocks_with_wrong_count")
                      or first.get("earlier_generation_into_the_same_directory"))
        small = first if structural else (shrink(ctx, exe, first) or first)     # a single text cannot reproduce those
        small = dict(small)
        small.pop("stats", None)
        small["explanation"] = (
            "spec_C11 (Coq, Parser/Strings.v) is false on the implementation's output for this translation unit: either a "
            "literal's index does not select its text in the table, a nested Locale does not carry the top locale's "
            "string count, or the exported file is not JSON decoding to the table (python_json_ok tells whether "
            "Python's json module decodes the file to the table)")
        small["source_text_codepoints"] = [hex(ord(c)) for c in small.get("text", "")] if "text" in small else None
        f = None
        for k in known:
            if k.get("class") == "C11-debug-escape" and "\\u{" in (small.get("impl_file_text") or "") and not small["python_json_ok"]:
                f = k
        if f:
            core.known_finding(ctx, f, "exported file uses Rust Debug escapes for %r" % small.get("text"))
        else:
            core.violation(ctx, "spec", {"failing_input": small, "count": len(bad_spec),
                                         "first_failing_unit": {k: v for k, v in first.items() if k != "stats"}})
    elif probe_build_failure is not None:
        core.violation(ctx, "harness_build", {
            "broken": "the generated load_locales!() crate (dynamic_load + ssr) no longer compiles against /repo: "
                      "the `[&str; N]` types of the generated code do not fit the baked tables, or the macro output changed",
            "log_tail": probe_build_failure.log}, no_input=True)
    elif panics:
        core.violation(ctx, "panic", {"failing_input": panics[0], "explanation": "parse_locales / write_to_dir panicked"})
    elif rendered["mismatches"]:
        core.violation(ctx, "spec", {"failing_input": rendered["mismatches"][0], "count": len(rendered["mismatches"]),
                                     "explanation": "generated code (dynamic_load + ssr): the accessor of a plain key does not render "
                                                    "the text of the translation source: the index it reads does not select that text"})
    elif ns_disagree:
        core.violation(ctx, "correspondence", {
            "broken": "correspondence Parser/Strings.v (merge_value: per-key InterpolOrLit state) vs ParsedValue::merge",
            "first_disagreeing_input": ns_disagree[0], "disagreements": len(ns_disagree)}, no_input=True)
    elif disagree or oracle_mismatch or shape or not ok:
        core.violation(ctx, "correspondence", {
            "broken": ("theorem/audit: " + "; ".join(problems)) if not ok else
                      "correspondence Parser/Strings.v + Runtime/Escape.v vs leptos_i18n_parser / leptos_i18n_build",
            "first_disagreeing_input": ({k: v for k, v in (disagree or oracle_mismatch or shape)[0].items() if k != "stats"}),
            "disagreements": len(disagree), "decoder_mismatch_coq_vs_python": len(oracle_mismatch),
            "unexpected_shapes": len(shape)}, no_input=True)
    nontrivial = set()
    hist = {}
    for m in metas:
        st = m["stats"]
        if len(m["impl_strings"]) >= 2:
            nontrivial.add(hashlib.sha256(repr((m["impl_strings"], m["namespace"] is None, st["lits"], st["sub"])).encode()).hexdigest())
        key = "strings=%s,subkeys=%s,ns=%s" % (min(len(m["impl_strings"]) // 5 * 5, 40), min(st["sub"], 3), m["namespace"] is not None)
        hist[key] = hist.get(key, 0) + 1
    kinds = {}
    for m in metas:
        for k in m["stats"]["kinds"]:
            kinds[k] = kinds.get(k, 0) + 1
    nonascii = sum(any(ord(c) > 126 or ord(c) < 32 for s in m["impl_strings"] for c in s) for m in metas)
    samples = [{k: v for k, v in m.items() if k != "stats"} for m in metas[:2] + metas[len(CORPUS):len(CORPUS) + 2]]
    core.write_evidence(ctx, {
        "evaluations": len(metas), "distinct_nontrivial": len(nontrivial),
        "rule": "corpus (single-string projects: U+0001, U+00A0, U+200D, quotes/backslash/</script>, controls, astral) then random "
                "projects: 1-4 locales, optional 1-3 namespaces, nested subkeys (depth<=3), plain/interpolated/component/"
                "range/plural/foreign-key/numeric values, repeated texts, absent and null keys in non-default locales, "
                "strings from a pool biased to quotes, backslashes, C0/C1 controls, U+00A0, U+200B-U+200D, U+2028/9, "
                "combining marks, astral characters, </script>, <!--, near duplicates (case, blanks, NFD), surplus keys, literal "
                "kinds that differ between locales (boolean / signed / unsigned / float in the default locale and a plain text "
                "in another, the reverse, other non-string types; first differing locale 1st, 2nd or 3rd in merge order; default "
                "locale at any position of the configured list); then a "
                "regeneration (for half of the projects the build helper first writes an earlier state of the project — longer texts and "
                "one more key, shorter texts, the same content, one more namespace — into the same directory, the files are judged after "
                "the last generation); a structured grid (1-4 locales x 0-2 namespaces x nesting depth 0-3, with and without `inherits`) whose groups hold "
                "every kind of value, one text per class, exact and near duplicates, a foreign key copying a text, texts shared "
                "among the non-default locales and with the default locale, defaulted keys and a wholly defaulted subgroup, "
                "ASCII-only locales, and variants whose tables have 0, 1 and a few strings; then top-up rounds of structured "
                "projects for every pair of tag values (pairwise_coverage) not reached yet; one case per translation unit; non-trivial = "
                "table of >= 2 strings; distinct by hash of (table, shape)",
        "samples": samples,
        "pairwise_coverage": sc.pairwise(tagged, DIMS, infeasible), "coverage_rounds": rounds,
        "projects": projects_total, "projects_rejected_by_parser": len(skipped), "rejected_examples": skipped[:3],
        "traces_validated_against_impl": len(metas),
        "disagreements": len(disagree) + len(ns_disagree), "spec_failures_on_impl": len(bad_spec),
        "files_left_by_an_earlier_generation_not_judged": stale_files,
        "projects_generated_twice_into_the_same_directory": regen_done, "earlier_generations_that_failed": regen_failed,
        "namespaces_merged_in_the_model": len(ns_items), "key_state_disagreements": len(ns_disagree),
        "namespaces_outside_the_model": ns_unmodelled,
        "decoder_mismatch_coq_vs_python": len(oracle_mismatch), "unexpected_shapes": len(shape), "panics": len(panics),
        "units_with_non_ascii_or_control": nonascii, "value_kinds_seen": kinds,
        "generated_code_accessors_rendered": rendered["accessors_rendered"],
        "generated_code_text_mismatches": len(rendered["mismatches"]),
        "input_distribution": hist, "audit_problems": problems,
    }, assumptions=[
        "the value trees are dumped after check_locales (indices are the ones the macro turns into index_translations::<N, I>)",
        "the client read (index_translations, StringArray::cast) is modelled as list indexing with an exact length check",
        "plain texts are generated without `{{`, `<tag>`, `$t(` so that the parser keeps them as one literal",
        "generated code is observed for one generated project per run (load_locales!() under dynamic_load + ssr, natively "
        "rendered td! accessors of plain keys); leptos' text escaping is undone by replacing its three entities"])


def replay(ctx, path):
    from checks import isolate
    isolate.enter(ctx)
    obj = json.load(open(path))
    print(json.dumps(obj, indent=1, ensure_ascii=True))
    fi = obj.get("failing_input") or obj.get("first_disagreeing_input")
    if fi and "text" in fi:
        bindir = core.cargo_build("h_strings")
        exe = os.path.join(bindir, "h_strings")
        p = sc.single_string_project(fi["text"])
        r = run_harness(ctx, exe, [p], "replay")[0]
        for term, meta in unit_cases(0, p, r):
            print("implementation file:", repr(meta["impl_file_text"]), "python json ok:", meta["python_json_ok"])
            if term:
                print("model:", core.coq_show(ctx, PRE, "o_file (index_locale (c_tree %s))" % term))
                print("check code (0 ok, 2 differs from model, 3 spec violated; +10 file decodes):",
                      core.coq_eval(ctx, "c11replay", PRE, [term], "check_x"))
    return 0
