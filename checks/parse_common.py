"""Shared runner for the string-level parser checks (C01, C09): runs h_parser on the generated strings
and evaluates the Coq predicates check_C01 / check_C09 (Parser/ParseCheck.v)."""
import os

from vlib import core
from checks import parsegen

PRE = ("From Coq Require Import List NArith ZArith.\nImport ListNotations.\n"
       "From LI Require Import Base.StrOps Parser.Parse Parser.Reduce Parser.Source Parser.ParseCheck.\nOpen Scope N_scope.\n")


def run_impl(exe, strings):
    inp = "".join(",".join(str(ord(c)) for c in s) + "\n" for s in strings)
    rc, out, err = core.sh([exe, "parse"], input=inp, timeout=900)
    lines = out.split("\n")[:-1]
    if rc != 0 or len(lines) != len(strings):
        raise core.Infra("h_parser parse: rc=%s, %d lines for %d cases; %s" % (rc, len(lines), len(strings), err[-400:]))
    return [tuple(l.split("\t")) for l in lines]


def evaluate(ctx, name, cases, fn):
    """cases: list of (string, items|None, kind). Returns (meta list, codes)"""
    bindir = core.cargo_build("h_parser")
    exe = os.path.join(bindir, "h_parser")
    outs = run_impl(exe, [c[0] for c in cases])
    items, meta = [], []
    for (s, src, kind), (impl, red) in zip(cases, outs):
        if impl == "Unmodelled":
            # a value kind the string-level model has no constructor for: cannot happen for ParsedValue::new
            impl = "Unmodelled"
        srct = "None" if src is None else "(Some %s)" % parsegen.coq_items(src)
        items.append("(mk_case %s %s %s %s)" % (core.coq_str(s), srct, impl, red))
        meta.append({"input": s, "kind": kind, "impl": impl if len(impl) < 400 else impl[:400] + "...",
                     "impl_reduced": red if len(red) < 400 else red[:400] + "...",
                     "from_source_ast": src is not None, "code_points": [ord(c) for c in s] if len(s) < 80 else None})
    codes = core.coq_eval(ctx, name, PRE, items, fn, min_per_shard=60)
    return meta, codes, items


def show_model(ctx, s, old=False):
    return core.coq_show(ctx, PRE, "%s %s" % ("model_parse_old" if old else "model_parse", core.coq_str(s)))
