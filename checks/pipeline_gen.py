"""Project-level malformed stream for C09 (pipeline part): whole project directories (Cargo.toml + locale files) that are
wrong in the ways DESIGN §5 C09 lists.  A project is {"cls": fault class, "cargo": text, "files": {relative path: text}}.
Everything derives from the rng handed in."""
import copy
import json
import os
import re
import shutil

LOCALES = ["en", "fr", "de"]


def cargo(default="en", locales=("en", "fr"), namespaces=None, extra="", raw=None):
    head = '[package]\nname = "p"\nversion = "0.1.0"\nedition = "2021"\n\n'
    if raw is not None:
        return head + raw
    body = "[package.metadata.leptos-i18n]\ndefault = %s\nlocales = %s\n" % (json.dumps(default), json.dumps(list(locales)))
    if namespaces is not None:
        body += "namespaces = %s\n" % json.dumps(list(namespaces))
    return head + body + extra


def base_content(rng):
    """a small valid project: two locales, every value kind"""
    en = {
        "hello": "Hello {{ name }}",
        "bold": "<b>bold {{ count }}</b> text",
        "n": 5,
        "flag": True,
        "r": [["zero", 0], ["one", 1], ["many {{ count }}", "_"]],
        "fr": ["f32", ["low", "..0.5"], ["high"]],
        "items_one": "one item",
        "items_other": "{{ count }} items",
        "sub": {"a": "sub a", "deep": {"leaf": "leaf {{ x }}"}},
        "x": "target",
        "refk": "see $t(x)",
    }
    fr = {
        "hello": "Bonjour {{ name }}",
        "bold": "<b>gras {{ count }}</b>",
        "n": 7,
        "flag": False,
        "r": [["zéro", 0], ["un", 1], ["{{ count }}", "_"]],
        "fr": None,
        "items_one": "un",
        "items_other": "{{ count }} autres",
        "sub": {"a": "sous a", "deep": {"leaf": "feuille {{ x }}"}},
        "x": "cible",
        "refk": "voir $t(x)",
    }
    return {"en": en, "fr": fr}


def project(cls, content, cargo_text=None, raw_files=None, note=None):
    if cargo_text is None and not raw_files and all(isinstance(t, dict) for t in content.values()):
        p = placed(cls, content, "flat", note)
        return p
    files = {}
    for loc, tree in content.items():
        files["locales/%s.json" % loc] = tree if isinstance(tree, str) else json.dumps(tree, ensure_ascii=False, indent=1)
    if raw_files:
        files.update(raw_files)
    return {"cls": cls, "cargo": cargo_text if cargo_text is not None else cargo(locales=list(content.keys()) or ["en"]),
            "files": files, "note": note}


# ------------------------------------------------------------------ placements
# where the faulty content lives: every fault class whose cause is inside a locale file is crossed with these
PLACEMENTS = ["flat", "subkeys", "ns-first", "ns-last", "non-default", "inherits"]
FK = re.compile(r"\$t\(\s*([A-Za-z_][A-Za-z0-9_.-]*)")


def retarget(v, f):
    """rewrite the target of every `$t(path` (paths without namespace) in the strings of a content tree"""
    if isinstance(v, str):
        return FK.sub(lambda m: "$t(" + f(m.group(1)), v)
    if isinstance(v, list):
        return [retarget(x, f) for x in v]
    if isinstance(v, dict):
        return {k: retarget(x, f) for k, x in v.items()}
    return v


def benign(v):
    """the same key structure holding plain strings (used for the locales that must not carry the fault)"""
    if isinstance(v, dict):
        return {k: benign(x) for k, x in v.items()}
    return "v"


def placed(cls, content, placement, note=None):
    """content: {locale: tree} written for a flat project whose default locale is `en`"""
    locs = list(content.keys()) or ["en"]
    files, cargo_text = {}, None
    c = copy.deepcopy(content)
    if placement == "subkeys":
        c = {l: {"grp": {"inner": retarget(t, lambda n: "grp.inner." + n)}, "plain": "p"} for l, t in c.items()}
    if placement in ("ns-first", "ns-last"):
        ns = ["nsa", "nsb"]
        mine = ns[0] if placement == "ns-first" else ns[1]
        other = ns[1] if placement == "ns-first" else ns[0]
        for l, t in c.items():
            files["locales/%s/%s.json" % (l, mine)] = json.dumps(retarget(t, lambda n: mine + ":" + n), ensure_ascii=False, indent=1)
            files["locales/%s/%s.json" % (l, other)] = json.dumps({"unit": "u", "k_one": "one $t(%s:unit)" % other, "k_other": "{{ count }} $t(%s:unit)" % other})
        cargo_text = cargo(locales=locs, namespaces=ns)
    elif placement == "non-default":
        # the default locale is a new, benign one; the faulty files belong to the other locales
        d = "xx"
        files["locales/%s.json" % d] = json.dumps(benign(c[locs[0]]), ensure_ascii=False)
        for l, t in c.items():
            files["locales/%s.json" % l] = json.dumps(t, ensure_ascii=False, indent=1)
        cargo_text = cargo(default=d, locales=[d] + locs)
    elif placement == "inherits":
        d = "xx"
        files["locales/%s.json" % d] = json.dumps(benign(c[locs[0]]), ensure_ascii=False)
        files["locales/yy.json"] = json.dumps(benign(c[locs[0]]), ensure_ascii=False)
        for l, t in c.items():
            files["locales/%s.json" % l] = json.dumps(t, ensure_ascii=False, indent=1)
        cargo_text = cargo(default=d, locales=[d, "yy"] + locs, extra="inherits = { %s }\n" % ", ".join('%s = "yy"' % l for l in locs))
    else:
        for l, t in c.items():
            files["locales/%s.json" % l] = json.dumps(t, ensure_ascii=False, indent=1)
        cargo_text = cargo(locales=locs)
    return {"cls": cls if placement == "flat" else "%s@%s" % (cls, placement), "cargo": cargo_text, "files": files, "note": note,
            "content": content, "placement": placement}


def with_key(base, key, en_val, fr_val="__same__", cls="x", note=None):
    c = copy.deepcopy(base)
    c["en"][key] = en_val
    if fr_val == "__absent__":
        c["fr"].pop(key, None)
    else:
        c["fr"][key] = en_val if fr_val == "__same__" else fr_val
    return project(cls, c, note=note)


UNBALANCED = ["{{", "}}", "{{ x", "x }}", "{{ {{ x }}", "{{ x }} }}", "<b>", "</b>", "<b>x", "x</b>", "<b>x</c>", "<b><i>x</b></i>", "<>", "</>",
              "< b>x</b>", "<b >x</ b>", "<b/>", "<b>x</b", "$t(", "$t(x", "$t()", "$t(x,", "$t(x, {", "$t(x, {\"a\": }", "$t(x, {\"a\": \"{{\"})",
              "{{ x, }}", "{{ , }}", "{{ x, number( }}", "{{ x, number(a: }}", "{{ x, number(grouping_strategy: nope) }}",
              "{{ x, currency(currency_code: EURO) }}", "{{ x, date(date_length: 7) }}", "{{x}}{{", "<<b>>", "a < b > c", "1 < 2 && 3 > 2",
              "{{ 1x }}", "{{ x y }}", "{{ fn }}", "<fn>x</fn>", "{{ }}", "<b></b>", "{{ x }}{{ x }}<b>{{ x }}</b>"]
MULTIBYTE = ["<b>x</b　>", "<b　>x</b>", "{{ x }}", "{{ x　}}", "é{{x}}é", "<b>é</b>é", "$t(é)", "$t(x,é)", "$t(x, {\"é\": \"é\"})",
             "日本{{ 日本 }}", "<日本>x</日本>", "😀<b>😀</b>😀", "{{ x，y }}", " {{ x }} ", "<b>x</éb>", "ｘ{{ｘ}}", "{{ x }}́", "<b́>x</b́>"]
BOUNDS = ["NaN", "nan", "inf", "-inf", "infinity", "1e39", "-1e39", "1e400", "1e-400", "99999999999999999999", "-99999999999999999999", "256", "-1",
          "4294967296", "5..1", "1..1", "..", "..=", "1..=", "..=5", "1...5", "a..b", "", " ", "1 | 2", "1 | | 2", "| 1", "_ | 1", "1..2 | _", "0x10", "1_000",
          "+1", "1.", ".5", "1e3", "-0", "-0.0", "1.5", "18446744073709551615", "18446744073709551616", "9223372036854775808", "-9223372036854775809",
          "3.4028235e38", "3.4028236e38", "1.7976931348623157e308", "1.7976931348623159e308"]
RTYPES = [None, "i8", "i16", "i32", "i64", "u8", "u16", "u32", "u64", "f32", "f64", "u128", "usize", "int", ""]
NUMS = [0, 1, -1, 255, 256, 1e39, -1e39, 1.5, 3.4028235e38, 3.5e38, 18446744073709551615, 18446744073709551616, -9223372036854775808,
        123456789012345678901234567890, 1e308, 5e-324, -0.0]


def gen_ranges(rng):
    t = rng.choice(RTYPES)
    seq = [t] if t is not None else []
    for _ in range(rng.randint(1, 3)):
        r = rng.random()
        if r < 0.5:
            b = [rng.choice(BOUNDS)]
        elif r < 0.75:
            b = [rng.choice(NUMS)]
        elif r < 0.9:
            b = [rng.choice(BOUNDS), rng.choice(NUMS), rng.choice(BOUNDS)]
        else:
            b = [[rng.choice(BOUNDS), [rng.choice(NUMS)]]]
        seq.append(["branch {{ count }}"] + b)
    if rng.random() < 0.6:
        seq.append(["fallback"] if rng.random() < 0.7 else ["fallback", "_"])
    return seq


WRONG_SHAPES = [[], [[]], [1, 2], [["a"]], [[1, 2]], [["a", 0], "b"], [["a", 0], ["b", 1], []], [[["a", 0], ["b"]], ["c"]], [["a", {"x": 1}]],
                [{"a": "b"}], ["u8"], ["u8", []], ["u8", ["a", 300]], [None], [["a", None]], [["a", True]], [[None, 0]], [[["x"], 0], ["y"]],
                {"": "empty key"}, {" ": "blank key"}, {"1": "numeric key"}, {"a b": "space"}, {"type": "kw"}, {"self": "kw"}, {"fn": "kw {{ fn }}"},
                {"é": "non ascii"}, {"a.b": "dot"}, {"a-b": "dash {{ a-b }} <a-b>x</a-b>"}, {"_": "underscore"}, {"__": {"_": {"_": "x"}}}]

CONFIGS = [
    ("no-metadata", cargo(raw="")),
    ("invalid-toml", cargo(raw="[package.metadata.leptos-i18n]\ndefault = \n")),
    ("missing-default", cargo(raw='[package.metadata.leptos-i18n]\nlocales = ["en", "fr"]\n')),
    ("missing-locales", cargo(raw='[package.metadata.leptos-i18n]\ndefault = "en"\n')),
    ("default-not-string", cargo(raw='[package.metadata.leptos-i18n]\ndefault = 1\nlocales = ["en"]\n')),
    ("locales-not-array", cargo(raw='[package.metadata.leptos-i18n]\ndefault = "en"\nlocales = "en"\n')),
    ("empty-locales", cargo(raw='[package.metadata.leptos-i18n]\ndefault = "en"\nlocales = []\n')),
    ("duplicate-locales", cargo(locales=["en", "fr", "en"])),
    ("default-unlisted", cargo(default="de", locales=["en", "fr"])),
    ("unknown-field", cargo(extra='nope = 1\n')),
    ("empty-namespaces", cargo(namespaces=[])),
    ("duplicate-namespaces", cargo(namespaces=["a", "a"])),
    ("namespace-missing-files", cargo(namespaces=["common"])),
    ("bad-locale-name", cargo(default="en_US!", locales=["en_US!"])),
    ("empty-locale-name", cargo(default="", locales=[""])),
    ("keyword-locale", cargo(default="fn", locales=["fn"])),
    ("locales-dir-missing", cargo(extra='locales-dir = "./nope"\n')),
    ("locales-dir-file", cargo(extra='locales-dir = "./Cargo.toml"\n')),
    ("inherits-cycle", cargo(locales=["en", "fr", "de"], extra='inherits = { fr = "de", de = "fr" }\n')),
    ("inherits-self", cargo(extra='inherits = { fr = "fr" }\n')),
    ("inherits-unknown", cargo(extra='inherits = { fr = "zz" }\n')),
    ("inherits-not-table", cargo(extra='inherits = "fr"\n')),
    ("translations-path-number", cargo(extra='translations-path = 5\n')),
    ("metadata-twice", cargo(extra='\n[package.metadata.leptos-i18n]\ndefault = "fr"\nlocales = ["fr"]\n')),
]

RAW_FILES = [("empty", ""), ("whitespace", " \n\t"), ("null", "null"), ("array", "[]"), ("string", '"str"'), ("number", "42"), ("bool", "true"),
             ("truncated", '{"a": "b"'), ("trailing-comma", '{"a": "b",}'), ("nan-literal", '{"a": NaN}'), ("huge-number", '{"a": 1e400}'),
             ("bom", "﻿{}"), ("two-docs", "{}{}"), ("invalid-utf8", None), ("nul-byte", '{"a": "b\\u0000c"}'), ("lone-surrogate", '{"a": "\\ud800"}'),
             ("big-int", '{"a": 123456789012345678901234567890}'), ("neg-zero", '{"a": -0, "b": -0.0}'), ("tiny", '{"a": 1e-400}'),
             ("dup", '{"a": "x", "a": "y"}'), ("dup-trim", '{"a": "x", " a": "y"}'), ("key-types", '{"a": {"b": {"c": [["x", 0], ["y"]]}}, "a2": {"b": 1}}')]


# ------------------------------------------------------------------ `inherits` tables of every shape
LOCS6 = ["aa", "bb", "cc", "dd", "ee", "ff"]


def inherits_shapes():
    """(name, locales other than the default `en`, table): chains, forks, cycles through the start, and RHO shapes: a tail
    of 1-3 locales leading into a loop of 1-3 locales (1 = self loop) that does not contain the start"""
    out = []
    for k in (2, 3, 4, 5):
        ls = LOCS6[:k]
        out.append(("chain-%d" % k, ls, {ls[i]: ls[i + 1] for i in range(k - 1)}))
        out.append(("chain-%d-to-default" % k, ls, dict({ls[i]: ls[i + 1] for i in range(k - 1)}, **{ls[-1]: "en"})))
    out.append(("fork", LOCS6[:4], {"bb": "aa", "cc": "aa", "dd": "bb"}))
    out.append(("fork-wide", LOCS6[:5], {"bb": "aa", "cc": "aa", "dd": "aa", "ee": "dd"}))
    for k in (2, 3, 4, 5):
        ls = LOCS6[:k]
        out.append(("cycle-%d" % k, ls, {ls[i]: ls[(i + 1) % k] for i in range(k)}))
    out.append(("self-loop", LOCS6[:3], {"aa": "aa", "bb": "aa"}))
    for tail in (1, 2, 3):
        for loop in (1, 2, 3):
            ls = LOCS6[:tail + loop]
            t = {ls[i]: ls[i + 1] for i in range(tail)}
            lp = ls[tail:]
            t.update({lp[i]: lp[(i + 1) % loop] for i in range(loop)})
            out.append(("rho-tail%d-loop%d" % (tail, loop), ls, t))
    out.append(("two-rhos", LOCS6, {"aa": "bb", "bb": "cc", "cc": "bb", "dd": "ee", "ee": "ff", "ff": "ff"}))
    return out


INHERIT_KEYS = {"lit": "plain", "interp": "hello {{ name }}", "num": 5, "sub": {"deep": "d {{ x }}", "flat": "f"},
                "r": [["zero", 0], ["{{ count }}", "_"]], "items_one": "one", "items_other": "{{ count }} many"}


def inherits_project(name, ls, table, pattern, rng=None):
    """pattern: "absent" / "null" (every key in every non-default locale), "one" (present in exactly one locale of the table,
    a different one per key), "random" """
    en = copy.deepcopy(INHERIT_KEYS)
    content = {"en": en}
    flat = ["lit", "interp", "num", "r"]
    for i, l in enumerate(ls):
        t = {}
        for j, k in enumerate(flat):
            mode = pattern
            if pattern == "one":
                mode = "present" if (j % len(ls)) == i else ("null" if (i + j) % 2 else "absent")
            elif pattern == "random":
                mode = rng.choice(["absent", "null", "present", "absent", "null"])
            if mode == "null":
                t[k] = None
            elif mode == "present":
                t[k] = copy.deepcopy(en[k]) if not isinstance(en[k], str) else en[k] + " (" + l + ")"
        sub_mode = pattern if pattern in ("absent", "null") else ("null" if i % 2 else "absent") if pattern == "one" else rng.choice(["absent", "null", "partial"])
        if sub_mode == "null":
            t["sub"] = None
        elif sub_mode == "partial":
            t["sub"] = {"deep": None}
        if pattern == "null":
            t["items_one"], t["items_other"] = None, None
        content[l] = t
    files = {"locales/%s.json" % l: json.dumps(t, ensure_ascii=False) for l, t in content.items()}
    extra = "inherits = { %s }\n" % ", ".join('%s = "%s"' % kv for kv in table.items())
    return {"cls": "inherits:%s/%s" % (name, pattern), "cargo": cargo(locales=["en"] + ls, extra=extra), "files": files, "note": None}


def random_inherits_project(rng):
    n = rng.randint(3, 6)
    ls = LOCS6[:n]
    table = {}
    for l in ls:
        if rng.random() < 0.8:
            table[l] = rng.choice(ls + ["en"])
    return inherits_project("random", ls, table, rng.choice(["absent", "null", "one", "random", "random"]), rng)


def deep_json(n, leaf='"x"'):
    return "".join('{"k":' for _ in range(n)) + leaf + "}" * n


def named_cases(rng):
    """the classes the task names explicitly, each as a minimal project (corpus, run first)"""
    b = base_content(rng)
    out = []
    # already known panics
    out.append(project("plural-base-not-ident", {"en": {"in_one": "a", "in_other": "b"}}, note="(a) merge_plurals_1"))
    out.append(project("plural-base-not-ident", {"en": {"type_one": "a", "type_other": "b"}}))
    out.append(project("plural-base-not-ident", {"en": {"_one": "a", "_other": "b"}}))
    out.append(project("plural-base-not-ident", {"en": {"1_one": "a", "1_other": "b"}}))
    out.append(project("plural-base-not-ident", {"en": {"a b_one": "a", "a b_other": "b"}}))
    out.append(project("dashed-key-interpolation", {"en": {"n-2": "x {{ v }}"}}, note="(b) n-2_builder"))
    out.append(project("dashed-key-interpolation", {"en": {"a-b": {"c-d": "<e-f>{{ g-h }}</e-f>"}}}))
    out.append(project("plural-null-form", {"en": {"d_one": "a", "d_other": "b {{ count }}"}, "fr": {"d_one": None, "d_other": "c"}}, note="(c) defaulted value"))
    out.append(project("plural-null-form", {"en": {"d_one": "a", "d_other": "b {{ count }}"}, "fr": {"d_one": None, "d_other": None}}))
    out.append(project("plural-null-form", {"en": {"d_one": "a", "d_other": "b {{ count }}"}, "fr": {"d_one": "x", "d_other": None}}))
    out.append(project("plural-null-form", {"en": {"d_one": None, "d_other": "b"}}))
    for t, bound in (("f32", "NaN"), ("f32", "inf"), ("f64", "-inf"), ("f32", "1e39"), ("f64", "1e400"), ("f32", "3.5e38")):
        out.append(project("float-bound-not-finite", {"en": {"r": [t, ["a", bound], ["b"]]}}, note="(d) non-finite literal"))
    out.append(project("float-bound-not-finite", {"en": {"r": ["f32", ["a", 1e39], ["b"]]}}))
    out.append(project("float-bound-not-finite", {"en": {"r": ["f32", ["a", "0..1e39"], ["b"]]}}))
    out.append(project("float-bound-not-finite", {"en": {"r": ["f32", ["a", 18446744073709551615], ["b"]]}}))
    out.append(project("fk-in-plural", {"en": {"x": "X", "items_one": "$t(x) item", "items_other": "{{ count }} $t(x)"}}, note="(e) resolve_foreign_keys_1"))
    out.append(project("fk-in-plural", {"en": {"x": "X", "s": {"items_one": "$t(x)", "items_other": "o"}}}))
    out.append(project("fk-in-range", {"en": {"x": "X {{ v }}", "r": [["$t(x)", 0], ["$t(x, {\"v\": \"1\"})", 1], ["$t(r)"]]}}))
    out.append(project("range-no-fallback-literal-count", {"en": {"r": [["zero", 0], ["one", 1]], "k": "$t(r, {\"count\": 5})"}}))
    out.append(project("range-no-fallback-literal-count", {"en": {"r": ["u8", ["a", "1..5"]], "k": "$t(r, {\"count\": 300})", "k2": "$t(r, {\"count\": -1})",
                                                                  "k3": "$t(r, {\"count\": 1.5})"}}))
    out.append(project("cycle", {"en": {"a": "$t(b)", "b": "$t(a)"}}))
    out.append(project("cycle", {"en": {"a": "$t(a)"}}))
    out.append(project("cycle", {"en": {"a": "$t(b)", "b": "$t(c)", "c": "x $t(a, {\"v\": \"$t(b)\"})"}}))
    out.append(project("cycle", {"en": {"a": "$t(b)", "b": None}, "fr": {"a": "$t(b)", "b": "$t(a)"}}))
    out.append(project("kind-mismatch", {"en": {"d": "plain"}, "fr": {"d_one": "a", "d_other": "b"}}))
    out.append(project("kind-mismatch", {"en": {"d_one": "a", "d_other": "b"}, "fr": {"d": "plain"}}))
    out.append(project("kind-mismatch", {"en": {"d": {"a": "x"}}, "fr": {"d": [["a", 0], ["b"]]}}))
    out.append(project("kind-mismatch", {"en": {"d": [["a", 0], ["b"]]}, "fr": {"d_one": "a", "d_other": "b"}}))
    out.append(project("kind-mismatch", {"en": {"d": ["f32", ["a", "0.0"], ["b"]]}, "fr": {"d": ["u8", ["a", 0], ["b"]]}}))
    out.append(project("kind-mismatch", {"en": {"d_one": "a", "d_other": "b", "d": "c"}}))
    out.append(project("kind-mismatch", {"en": {"d_one": "a", "d_ordinal_two": "b", "d_other": "c"}}))
    out.append(project("kind-mismatch", {"en": {"d_one": [["a", 0], ["b"]], "d_other": "c"}}))
    out.append(project("fk-target", {"en": {"s": {"a": "x"}, "k": "$t(s)", "k2": "$t(s.a.b)", "k3": "$t(nope)", "k4": "$t(ns:s.a)", "k5": "$t(:)", "k6": "$t(.)", "k7": "$t(s.)"}}))
    # a lone `key_other` (merged because another locale declares the plural) holding a foreign key, and plural forms under subkeys
    out.append(project("fk-in-plural", {"en": {"unit": "u", "items_one": "one $t(unit)", "items_other": "{{ count }} $t(unit)"},
                                        "fr": {"unit": "u", "items_other": "{{ count }} $t(unit)"}}))
    out.append(project("fk-in-plural", {"en": {"unit": "u", "s": {"t": {"items_one": "one $t(unit)", "items_other": "$t(s.t.items)"}}}}))
    # every class whose cause is inside a locale file, in every placement
    for q in list(out):
        if "content" in q:
            for pl in PLACEMENTS[1:]:
                out.append(placed(q["cls"], q["content"], pl, q.get("note")))
    for nm, txt in CONFIGS:
        p = project("config:" + nm, b, cargo_text=txt)
        out.append(p)
    # every inherits shape with keys absent / null in every locale of the table, or present in one of them
    for nm, ls, table in inherits_shapes():
        for pattern in ("absent", "null", "one"):
            out.append(inherits_project(nm, ls, table, pattern))
    for nm, txt in RAW_FILES:
        p = project("file:" + nm, {"en": b["en"]}, cargo_text=cargo(locales=["en", "fr"]))
        p["files"]["locales/fr.json"] = txt
        out.append(p)
    p = project("file:missing", {"en": b["en"]}, cargo_text=cargo(locales=["en", "fr"]))
    out.append(p)
    p = project("file:directory", {"en": b["en"]}, cargo_text=cargo(locales=["en", "fr"]))
    p["files"]["locales/fr.json/x"] = "{}"
    out.append(p)
    for depth in (100, 127, 128, 129, 1000):
        out.append(project("deep-subkeys", {"en": deep_json(depth)}, note="depth %d" % depth))
    out.append(project("deep-arrays", {"en": '{"r": ' + "[" * 200 + "]" * 200 + "}"}))
    return out


def random_case(rng):
    if rng.random() < 0.08:
        return random_inherits_project(rng)
    p = random_flat_case(rng)
    if "content" in p and rng.random() < 0.5:
        return placed(p["cls"], p["content"], rng.choice(PLACEMENTS[1:]), p.get("note"))
    return p


def fk_mix(rng):
    """foreign keys inside plural forms (full groups, lone `_other`, ordinal), inside range branches, with arguments, to each other"""
    tgt = rng.choice(["unit", "items", "r", "lone", "sub.deep.leaf", "nope", "hello"])
    arg = rng.choice(["", ', {"count": 1}', ', {"count": "{{ n }}"}', ', {"name": "x"}'])
    fk = "$t(%s%s)" % (tgt, arg)
    en = {"unit": "u", "hello": "Hello {{ name }}", "sub": {"deep": {"leaf": "leaf"}},
          "items_one": rng.choice(["one " + fk, "one"]), "items_other": rng.choice(["{{ count }} " + fk, "{{ count }}"]),
          "r": [[rng.choice([fk, "zero"]), 0], [rng.choice([fk, "{{ count }}"])]],
          "lone_other": rng.choice([fk, "l {{ count }}"])}
    if rng.random() < 0.4:
        en["pos_ordinal_one"], en["pos_ordinal_other"] = "{{ count }}st " + fk, "{{ count }}th"
    fr = {"unit": "u", "hello": "Bonjour {{ name }}", "sub": {"deep": {"leaf": "feuille"}},
          "items_other": rng.choice(["{{ count }} " + fk, None, "x"]), "r": None if rng.random() < 0.5 else [[fk, 0], ["f"]],
          "lone_one": "un " + fk, "lone_other": "{{ count }} " + fk}
    if rng.random() < 0.5:
        fr["items_one"] = rng.choice(["un " + fk, None])
    return project("fk:mix", {"en": en, "fr": fr})


def random_flat_case(rng):
    b = base_content(rng)
    r = rng.random()
    if r < 0.12:
        return fk_mix(rng)
    r = (r - 0.12) / 0.88
    key = rng.choice(["k", "hello", "zz", "items_one", "sub", "r", "x"])
    if r < 0.20:
        s = " ".join(rng.choice(UNBALANCED + MULTIBYTE) for _ in range(rng.randint(1, 3)))
        where = rng.random()
        if where < 0.6:
            return with_key(b, key if key != "sub" else "k", s, rng.choice(["__same__", "__absent__", None, "ok"]), "string:mutated")
        if where < 0.8:
            return with_key(b, "rr", [[s, 0], [s]], "__same__", "string:in-range")
        c = copy.deepcopy(b)
        c["en"]["p_one"], c["en"]["p_other"] = s, s + " {{ count }}"
        return project("string:in-plural", c)
    if r < 0.40:
        return with_key(b, "rr", gen_ranges(rng), rng.choice(["__same__", "__absent__", None]), "ranges:bounds")
    if r < 0.50:
        v = rng.choice(WRONG_SHAPES)
        return with_key(b, rng.choice(["w", "r", "sub", "hello"]), v, rng.choice(["__same__", "__absent__", None, "plain"]), "wrong-shape")
    if r < 0.62:
        # foreign keys with arguments aimed at ranges / plurals / each other
        tgt = rng.choice(["r", "fr", "items", "hello", "bold", "sub.deep.leaf", "sub", "nope", "refk", "me"])
        arg = rng.choice(['{"count": 5}', '{"count": -1}', '{"count": 1.5}', '{"count": 1e40}', '{"count": "abc"}', '{"count": "{{ v }}"}', '{"count": "{{ v }} x"}',
                          '{"count": "$t(n)"}', '{"count": true}', '{"count": null}', '{"count": [1]}', '{"name": "$t(me)"}', '{"name": {"a": 1}}', '{}', '[]', '"x"',
                          '{"count": 99999999999999999999}', '{"count": "NaN"}', '{"var_count": 1}', '{"count": 0, "count": 1}'])
        s = "a $t(%s, %s) b" % (tgt, arg)
        return with_key(b, "me", s, rng.choice(["__same__", "__absent__", None]), "fk:args")
    if r < 0.72:
        # plural groups: odd base keys, mixed rule types, missing other, ranges as forms, null forms
        base = rng.choice(["p", "in", "type", "", "1", "a b", "é", "p_ordinal", "p-q", "self", "sub", "hello"])
        forms = rng.sample(["zero", "one", "two", "few", "many", "other", "ordinal_one", "ordinal_other", "nope"], rng.randint(1, 4))
        c = copy.deepcopy(b)
        for f in forms:
            v = rng.choice(["f {{ count }}", None, [["a", 0], ["b"]], {"x": "y"}, 5, "$t(x)", "$t(%s)" % base, "{{ count, number }} <b>{{ count }}</b>"])
            loc = rng.choice(["en", "fr", "both"])
            for l in (["en", "fr"] if loc == "both" else [loc]):
                c[l]["%s_%s" % (base, f)] = v
        return project("plurals:odd", c)
    if r < 0.80:
        nm, txt = rng.choice(CONFIGS)
        return project("config:" + nm, b, cargo_text=txt)
    if r < 0.88:
        nm, txt = rng.choice(RAW_FILES)
        p = project("file:" + nm, {"en": b["en"]}, cargo_text=cargo(locales=["en", "fr"]))
        p["files"]["locales/%s.json" % rng.choice(["fr", "en"])] = txt
        return p
    if r < 0.94:
        # namespaces with cross references
        ns = {"common": {"a": "A {{ v }}", "b": "$t(home:h)"}, "home": {"h": "$t(common:a, {\"v\": \"$t(common:b)\"})", "k": "$t(a)"}}
        p = {"cls": "namespaces:cross", "cargo": cargo(locales=["en"], namespaces=["common", "home"]), "files": {}, "note": None}
        for n, t in ns.items():
            p["files"]["locales/en/%s.json" % n] = json.dumps(t)
        return p
    # two random faults in the same project
    c = copy.deepcopy(b)
    c["en"]["m1"] = rng.choice(UNBALANCED + MULTIBYTE)
    c["fr"]["m2"] = gen_ranges(rng)
    c["en"][rng.choice(["in_one", "q_one"])] = "x"
    c["en"][rng.choice(["in_other", "q_other"])] = rng.choice(["y", None])
    return project("mixed", c)


def write(root, p):
    shutil.rmtree(root, ignore_errors=True)
    os.makedirs(root)
    with open(os.path.join(root, "Cargo.toml"), "w", encoding="utf-8") as fh:
        fh.write(p["cargo"])
    for rel, txt in p["files"].items():
        path = os.path.join(root, rel)
        os.makedirs(os.path.dirname(path), exist_ok=True)
        if txt is None:
            with open(path, "wb") as fh:
                fh.write(b'{"a": "\xff\xfe"}')
        else:
            with open(path, "w", encoding="utf-8", errors="surrogatepass") as fh:
                fh.write(txt)


def depth_project(kind, n):
    """stack-depth probes: one string value with n nested tags / n interpolations / n foreign keys, or n nested subkeys"""
    if kind == "nested-tags":
        s = "<b>" * n + "x" + "</b>" * n
    elif kind == "interpolations":
        s = " ".join("{{ v%d }}" % (i % 7) for i in range(n))
    elif kind == "sibling-tags":
        s = "".join("<b>x</b>" for _ in range(n))
    elif kind == "fk-chain":
        tree = {"k0": "end"}
        for i in range(1, n):
            tree["k%d" % i] = "$t(k%d)" % (i - 1)
        return project("depth:" + kind, {"en": tree})
    else:
        raise ValueError(kind)
    return project("depth:" + kind, {"en": {"k": s}})


# ------------------------------------------------------------------ shrinking a project

def smaller(p):
    """candidates with one thing removed: a locale file's key (any depth), an array element, or a whole non-default locale"""
    out = []
    parsed = {}
    for rel, txt in p["files"].items():
        try:
            parsed[rel] = json.loads(txt) if isinstance(txt, str) else None
        except ValueError:
            parsed[rel] = None

    def variants(v):
        if isinstance(v, dict):
            for k in list(v):
                w = dict(v)
                del w[k]
                yield w
                for sub in variants(v[k]):
                    w = dict(v)
                    w[k] = sub
                    yield w
        elif isinstance(v, list):
            for i in range(len(v)):
                yield v[:i] + v[i + 1:]
                for sub in variants(v[i]):
                    yield v[:i] + [sub] + v[i + 1:]
        elif isinstance(v, str) and len(v) > 1:
            yield v[:len(v) // 2]
            yield v[len(v) // 2:]
            yield v[1:]
            yield v[:-1]
    for rel, tree in parsed.items():
        if tree is None:
            continue
        for t in variants(tree):
            q = copy.deepcopy(p)
            q["files"][rel] = json.dumps(t, ensure_ascii=False)
            out.append(q)
    if '"fr"' in p["cargo"] and "locales/fr.json" in p["files"] and 'default = "en"' in p["cargo"]:
        q = copy.deepcopy(p)
        q["cargo"] = q["cargo"].replace('["en", "fr"]', '["en"]')
        del q["files"]["locales/fr.json"]
        if q["cargo"] != p["cargo"]:
            out.append(q)
    return out


def size(p):
    return sum(len(t or "") for t in p["files"].values()) + len(p["cargo"])


def shrink(p, still_fails, limit=600):
    n = 0
    progress = True
    while progress and n < limit:
        progress = False
        for q in sorted(smaller(p), key=size):
            n += 1
            if still_fails(q):
                p, progress = q, True
                break
            if n >= limit:
                break
    return p
