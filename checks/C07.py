"""C07 — key sets are checked against the default locale, with exact diagnostics.
Theorems: coq/theories/Props/C07.v over the model Parser/Merge.v.
Correspondence: harness h_merge (two builds: with and without suppress_key_warnings) drives
parse_locales_raw + make_builder_keys on generated projects and dumps the warnings, the key paths of
BuildersKeys and the error kind + named locale/key; Parser/MergeCheck.v evaluates spec_C07 on it."""
import itertools
import json

from checks import cov_merge as cm
from checks import merge_common as mc
from checks import pairwise
from vlib import core

THEOREMS = ["C07_keyset", "C07_mismatch", "C07_no_default_null", "C07_default_null_only", "C07_suppressed",
            "C07_warnings_exact", "C07_spec"]
PROPS = "theories/Props/C07.v"
REGISTRY = {
    "level": "proof",
    "technique": "Coq proof over a Gallina model of Locale::make_builder_keys/Locale::merge/ParsedValue::merge + differential "
                 "correspondence (coqc vm_compute vs leptos_i18n_parser, both suppress_key_warnings builds)",
    "text": "Theorems of Props/C07.v over Parser/Merge.v: the builder keys' paths are the default file's paths whatever the "
            "other locales hold (C07_keyset); a successful merge implies that no locale holds a group where the default holds "
            "a value or vice versa (C07_mismatch); a null in the default is rejected and ExplicitDefaultInDefault is raised for "
            "nothing else (C07_no_default_null, C07_default_null_only); the suppress_key_warnings build produces no warning "
            "(C07_suppressed); the produced Missing/Surplus warnings are, as a multiset, exactly the expected ones "
            "(C07_warnings_exact) and spec_C07 holds of the model on every well-formed case (C07_spec). spec_C07 is evaluated "
            "on the real parser output of every generated project (both builds).",
    "design_ref": "DESIGN.md §5 C07",
    "note": "Trusted: Coq kernel + vm_compute; hand-written model Parser/Merge.v (tied by the correspondence run); only "
            "MissingKey/SurplusKey are 'these diagnostics' (DESIGN §10), UnusedForm belongs to C05; plural merging is the "
            "identity on the generated key names; compile-time accessor observation (H3) is not part of this check.",
    "engine": "coq",
    "packages": [("h_merge", ("json",), "target_merge_json"), ("h_merge", ("json", "suppress"), "target_merge_json_suppress")],
}

DEFAULT_FIXED = ["G", {"a": ["L", 1], "g": ["G", {"x": ["L", 2], "h": ["G", {"y": ["L", 3]}]}]}]


def exhaustive_other():
    """every file of one non-default locale over the fixed default {a, g:{x, h:{y}}}: each node kept / null / absent /
    of the other kind, with or without surplus keys at each level"""
    leaf_states = ["D", "N", "A", "M"]

    def leaf(st, i):
        return {"D": ["L", i], "N": ["N"], "M": ["G", {"q": ["L", i]}]}.get(st)
    out = []
    h_opts = [("A",), ("N",), ("M",)] + [("G", y) for y in leaf_states]
    g_opts = [("A",), ("N",), ("M",)] + [("G", x, h, s) for x in leaf_states for h in h_opts for s in (0, 1)]
    for a in leaf_states:
        for g in g_opts:
            for top in (0, 1, 2):
                d = {}
                if leaf(a, 10):
                    d["a"] = leaf(a, 10)
                if g[0] == "N":
                    d["g"] = ["N"]
                elif g[0] == "M":
                    d["g"] = ["L", 11]
                elif g[0] == "G":
                    gd = {}
                    if leaf(g[1], 12):
                        gd["x"] = leaf(g[1], 12)
                    h = g[2]
                    if h[0] == "N":
                        gd["h"] = ["N"]
                    elif h[0] == "M":
                        gd["h"] = ["L", 13]
                    elif h[0] == "G":
                        hd = {}
                        if leaf(h[1], 14):
                            hd["y"] = leaf(h[1], 14)
                        gd["h"] = ["G", hd]
                    if g[3]:
                        gd["zz"] = ["L", 15]
                    d["g"] = ["G", gd]
                if top == 1:
                    d["b"] = ["L", 16]
                elif top == 2:
                    d["sub"] = ["G", {"k_x": ["L", 17], "c": ["N"]}]
                out.append(["G", d])
    return out


def corpus():
    def proj(names, inh, per_locale, default=None, nss=None):
        return {"default": default or names[0], "locales": list(names), "inherits": inh, "namespaces": nss, "roles": list(names),
                "files": {"-/" + nm: ["G", per_locale[i]] for i, nm in enumerate(names)}}
    out = []
    # missing (implicit), silenced by null, silenced by inherits, surplus, nested missing under an existing group
    out.append(proj(["en", "fr", "de", "it"], {"it": "fr"},
                    [{"a": ["L", 1], "b": ["L", 2], "g": ["G", {"x": ["L", 3], "y": ["L", 4]}]},
                     {"a": ["L", 5], "g": ["G", {"x": ["L", 6]}], "extra": ["L", 7]},
                     {"a": ["N"], "b": ["N"], "g": ["N"]},
                     {"zz": ["G", {"q": ["L", 8]}]}]))
    # group in one locale, value in the other (both directions); null in the default
    out.append(proj(["en", "fr"], {}, [{"a": ["L", 1]}, {"a": ["G", {"x": ["L", 2]}]}]))
    out.append(proj(["en", "fr"], {}, [{"a": ["G", {"x": ["L", 1]}]}, {"a": ["L", 2]}]))
    out.append(proj(["en", "fr"], {}, [{"a": ["L", 1], "b": ["N"]}, {"a": ["L", 2]}]))
    return out


def random_project(rng):
    n = rng.choice([1, 2, 2, 3, 3, 4])
    names = rng.sample(mc.LOCALE_POOL, n)
    inh = {}
    for nm in names[1:]:
        if rng.random() < 0.35:
            inh[nm] = rng.choice(names)
    nss = None if rng.random() < 0.6 else rng.sample(mc.NS_POOL, rng.choice([1, 2, 3]))
    ids = mc.Ids()
    files = {}
    p_mis = 0.06 if rng.random() < 0.15 else 0.0
    for ns in (nss or ["-"]):
        d = mc.gen_default_tree(rng, ids)
        if rng.random() < 0.03:
            d[1][rng.choice(sorted(d[1]))] = ["N"]
        files["%s/%s" % (ns, names[0])] = d
        for nm in names[1:]:
            files["%s/%s" % (ns, nm)] = mc.derive_tree(rng, ids, d, p_absent=rng.choice([0.0, 0.2, 0.4]),
                                                        p_null=rng.choice([0.0, 0.2]), p_surplus=rng.choice([0.0, 0.3, 0.6]),
                                                        p_mismatch=p_mis)
    listed = list(names)
    if rng.random() < 0.2:
        rng.shuffle(listed)
    p = {"default": names[0], "locales": listed, "inherits": inh, "namespaces": nss, "files": files, "roles": names}
    return mc.decorate(rng, p) if rng.random() < 0.4 else p


def gen_projects(ctx):
    rng = ctx.rng
    projs = [("corpus", p) for p in corpus()]
    ex = exhaustive_other()
    if ctx.quick:
        ex = rng.sample(ex, 240)
    for t in ex:
        for inh in ({}, {"fr": "fr"}, {"fr": "en"}) if not ctx.quick else (rng.choice([{}, {}, {"fr": "fr"}, {"fr": "en"}]),):
            projs.append(("exhaustive", {"default": "en", "locales": ["en", "fr"], "inherits": dict(inh), "namespaces": None,
                                         "roles": ["en", "fr"], "files": {"-/en": DEFAULT_FIXED, "-/fr": t}}))
    for _ in range(400 if ctx.quick else 5000):
        projs.append(("random", random_project(rng)))
    return projs


def shape(t):
    if t[0] != "G":
        return t[0]
    return tuple(sorted((k, shape(v)) for k, v in t[1].items()))


def run(ctx):
    from checks import isolate
    isolate.enter(ctx)
    exe = mc.build_variant(ctx, ["json"])
    exe_s = mc.build_variant(ctx, ["json", "suppress"])
    ok, problems = core.coq_audit(ctx, PROPS, THEOREMS)
    projs = gen_projects(ctx)
    metas, codes = mc.evaluate(ctx, exe, projs, False, "n", "check_C07s")
    metas_s, codes_s = mc.evaluate(ctx, exe_s, projs, True, "s", "check_C07s")
    metas, codes = metas + metas_s, codes + codes_s
    # pairwise coverage of the quantifier's dimensions; directed cases fill the empty feasible cells
    table = pairwise.Table(cm.C07_DIMS, cm.c07_infeasible)
    pairwise.add_all(table, [o for m in metas for o in cm.c07_tags(m["project"], "suppress" if m["suppress"] else "normal")])
    gaps_before = ["%s=%s x %s=%s" % c for c in table.gaps()]
    directed = pairwise.greedy(table, ctx.rng, cm.c07_draw, lambda sc: cm.c07_build(ctx.rng, sc),
                               lambda p: cm.c07_tags(p, "normal") + cm.c07_tags(p, "suppress"))
    if directed:
        dp = [("directed", p) for p in directed]
        m1, c1 = mc.evaluate(ctx, exe, dp, False, "dn", "check_C07s")
        m2, c2 = mc.evaluate(ctx, exe_s, dp, True, "ds", "check_C07s")
        metas, codes = metas + m1 + m2, codes + c1 + c2
    pw = table.report()
    pw["zero_cells_before_directed_cases"] = gaps_before[:80]
    pw["zero_cells_before_directed_cases_count"] = len(gaps_before)
    pw["directed_cases"] = len(directed)
    bad = [m for m, c in zip(metas, codes) if c == 3]
    dis = [m for m, c in zip(metas, codes) if c == 2]
    skipped = [m for m, c in zip(metas, codes) if c == 1]
    panics = [m for m in metas if m["impl"].get("kind") == "panic"]
    if bad:
        bad.sort(key=lambda m: mc.size_of(m["project"]))
        small = mc.shrink(ctx, exe_s if bad[0]["suppress"] else exe, bad[0], "check_C07s")
        core.violation(ctx, "spec", {
            "failing_input": {"project": small, "cargo_toml": mc.cargo_toml(small),
                              "files": {k: mc.tree_obj(t) for k, t in small["files"].items()},
                              "suppress_key_warnings": bad[0]["suppress"]},
            "impl_output_unshrunk": bad[0]["impl"], "count": len(bad),
            "result_class": {"hang": "HANG (no answer within the per-project time limit)", "panic": "PANIC"}.get(
                bad[0]["impl"].get("kind"), "WRONG-ANSWER"),
            "explanation": "spec_C07 (Parser/MergeCheck.v) is false on the implementation's output: the MissingKey/SurplusKey "
                           "warnings are not exactly (as a multiset) the ones the key sets call for, or the BuildersKeys paths "
                           "are not the default locale's, or an error was (not) raised / names a place without a mismatch"})
    elif dis or not ok:
        core.violation(ctx, "correspondence", {
            "broken": ("theorem/audit: " + "; ".join(problems)) if not ok else
                      "correspondence Parser/Merge.v (check_locales) vs leptos_i18n_parser::parse_locales",
            "first_disagreeing_input": (dis or [None])[0], "disagreements": len(dis)}, no_input=True)
    nontrivial = set()
    nwarn = 0
    for m in metas:
        p = m["project"]
        w = m["impl"].get("warnings") or ""
        nwarn += len([x for x in w.split(";") if x])
        if len(p["roles"]) >= 2 and (w or m["impl"].get("kind") != "ok"):
            nontrivial.add((m["suppress"], tuple(sorted(p["inherits"].items())), tuple(p["namespaces"] or ()),
                            tuple(shape(p["files"][k]) for k in sorted(p["files"]))))
    hist = {}
    for m in metas:
        key = "%s,locales=%d,ns=%d,%s%s" % (m["kind"], len(m["project"]["roles"]), len(m["project"]["namespaces"] or []),
                                            m["impl"].get("kind"), ",suppress" if m["suppress"] else "")
        hist[key] = hist.get(key, 0) + 1
    core.write_evidence(ctx, {
        "evaluations": len(metas), "distinct_nontrivial": len(nontrivial), "warnings_observed": nwarn,
        "rule": "corpus first; then every file of one non-default locale over the fixed default {a, g:{x, h:{y}}} (each node "
                "kept / null / absent / of the other kind, surplus keys at each level; %s) x inherits {none, self, default}; "
                "then random projects (1-4 locales, nested groups, 0-3 namespaces, inherits, surplus, null in default, "
                "group/value mismatch). Every project is run on both builds (suppress_key_warnings off/on). Non-trivial = at "
                "least 2 locales and either a warning or an error; distinct by (build, inherits, namespaces, key-tree shapes)"
                % ("a 240-element sample in quick" if ctx.quick else "all 708"),
        "directed_rule": "Then directed projects: every feasible pair of values of the quantifier's dimensions (evidence field `pairwise`: key state x depth x namespace index x locale position x state of the previously merged locale x inherits kind x absent-vs-surplus balance x number of locales x outcome x build) left empty by the above is filled by a project built for it (checks/cov_merge.py).",
        "samples": [{"project": m["project"], "impl": m["impl"]["raw"][:600]} for m in metas[:2] + metas[-2:]],
        "traces_validated_against_impl": len(metas), "disagreements": len(dis), "spec_failures_on_impl": len(bad),
        "skipped_outside_model": len(skipped), "panics": len(panics), "hangs": sum(1 for m in metas if m["impl"].get("kind") == "hang"),
        "not_run_after_hangs": getattr(ctx, "not_run", 0),
        "other_warning_kinds_ignored": sum(m["impl"].get("other_warnings", 0) for m in metas),
        "input_distribution": hist, "audit_problems": problems, "pairwise": pw,
    }, assumptions=[
        "only MissingKey/SurplusKey are counted as the diagnostics of this property (DESIGN §10)",
        "key names never end in a plural suffix, so merge_plurals is the identity on the generated files",
        "the locale order used for the case is ConfigFile.locales as printed by the harness (normalisation is C19's subject)"])


def replay(ctx, path):
    from checks import isolate
    isolate.enter(ctx)
    obj = json.load(open(path))
    fi = obj.get("failing_input") or {}
    p = fi.get("project")
    if not p:
        print(json.dumps(obj, indent=1))
        return 0
    sup = bool(fi.get("suppress_key_warnings"))
    exe = mc.build_variant(ctx, ["json", "suppress"] if sup else ["json"])
    metas, codes = mc.evaluate(ctx, exe, [("replay", p)], sup, "replay", "check_C07s")
    print(mc.cargo_toml(p))
    print(json.dumps(fi.get("files"), indent=1))
    print("implementation:", metas[0]["impl"]["raw"])
    print("check_C07 =", codes[0], "(3 = spec violated, 2 = differs from model, 0 = ok)")
    if codes[0] == 3:
        print("VIOLATION property=C07 replay=%s" % path)
        return 1
    return 0
