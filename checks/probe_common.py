"""probe_common — generated probe crates (DESIGN §4 H3): observe what the *generated code* of
`leptos_i18n::load_locales!()` does, through every accessor flavour.

API (everything random derives from the rng passed in):

  gen_project(rng, n_keys, locales, namespaces=None, wide=False, inherits=None, gaps=True) -> Project
      .locales (default first), .namespaces (None or list), .inherits {locale: parent} (written as the `inherits` table of
      the configuration), .keys: list of PKey.  With gaps=True a non-default locale may leave a key out: value ("absent",)
      (not in the file) or ("null",) (JSON null), also for a whole sub-key group (`.group_null`: {(locale, group path)} written
      as `"group": null`; an absent group is simply not written); such a locale shows the value of the first locale of its
      inherits walk that defines the key, else the default's (effective_locale(project, key, locale)).
      PKey: .id, .path (tuple of idents, the namespace first when there are namespaces), .values {locale: value},
            .vars / .comps (sorted union over locales: the arguments every call must supply), .tags {comp: html tag},
            .attrs {comp: [(attribute name, value)]} (values from ATTR_VALS: the component is passed as `DisplayComp::new(tag,
            &[..])` / a formatting closure / a plain tag name (&str, String) to the string flavours and as the same element
            `<tag data-x="..">` (closure with view!, or the `<b> = <tag data-x=".." />` form) to the view flavours),
            .const (True when every locale holds a literal of one type: the const accessor chain exists)
      value = ("str", items)  items in checks/parsegen.py form (("T", text) | ("V", w1, name, w2, None) |
                              ("C", w1, name, w2, kids, w0', w1', w2')) — the source AST of the translation string
            | ("lit", python bool/int/float)  a JSON boolean / number (non-negative int = unsigned, negative = signed, float =
              f64).  Literal keys come in classes: one literal type in every locale (bool / uint / int / float: such a key has
              the const accessor chain and goes through LitWrapper) or MIXED types across locales (incl. a plain text): the
              zero-field builder path.  rust_display(v) is the canonical printing: Rust's `{}` of the parsed value.
            | ("range", type or None, [(items, conds)])  a range table (every locale of such a key holds one, same count
              type); conds = list of ("exact", n) | ("bounds", lo|None, hi|None, hi_inclusive); [] = the fallback `_` (last arm)
            | ("plural", ordinal, {form: items})  `key_one`/`key_ordinal_one`... and `key_other` (always present); a plural key
              is cardinal or ordinal in every locale that defines it
            | ("plural", ordinal, {form: items}, target path)  written as `$t(target, {"count": "{{ n }}"})`: the forms are the
              target's forms in that locale with `{{ count }}` renamed to `{{ n }}` (the value after substitution); such a
              key and its target are defined in every locale; PKey.count_name is then "n"
      PKey.range_type: None or "i32"/"i64"/"u32"/"f32"; PKey.plural: None / "cardinal" / "ordinal";
      PKey.assignments: how many argument assignments main runs (plural keys: one per count of PCOUNTS);
      count_of(key, a) is the count passed for assignment a.  Plural keys are generated only when every locale's language
      is one of LANGS (the languages whose CLDR rules are written out in Coq).
      `wide=True` adds keys with 27..80 top-level pieces (tuple chunking of fit_in_leptos_tuple).
  write_crate(dirpath, project, assignments=2) -> None
      Cargo.toml (same dependency features as harness/h_rt + interpolate_display, own [workspace], profile of the harness
      workspace), locales/**.json, src/main.rs.  main prints one line per (key, assignment, locale, flavour):
      `<key id>\\t<assignment>\\t<locale>\\t<flavour>\\t<hex of the UTF-8 output>`; view flavours print raw `to_html()`.
  build_crate(dirpath, timeout) -> (exe or None, log tail)     cargo build --offline into the shared target dir
  run_probe(exe, timeout) -> {(key id, assignment, locale): {flavour: text}}   view flavours canonicalised by canon_html;
      the entry "__plural_oracle__" maps (locale, "cardinal"|"ordinal", count) to the category icu_plurals::PluralRules gives
      (printed by the probe itself, independently of the generated code)
  env_of(key, assignment) -> {var name: value}   the argument values main passes (same table as the generated code)
  canon_html(s)   remove comments / data-hk / `<!>` markers and decode entities, as /repo/tests/common does
  VIEW_FLAVOURS   names of flavours that go through `IntoView::to_html`

Flavour names: td_string td_display td td_short const | t tu t_string t_display tu_string tu_display (through a real
I18nContext whose locale was set) | `<scoping>:<flavour>` with scoping = scope_locale<n> / scope_i18n<n> /
use_i18n_scoped<n> (the first n path segments scoped at once) or scope_locale_chain / scope_i18n_chain (one segment at
a time down to the leaf's parent).
"""
import html
import json
import os
import re
import shutil

from vlib import core
from checks import parsegen

# variable and component names are kept disjoint: `t!(.., a = .., <a> = ..)` does not compile (fixes/C08-var-comp-same-name)
VAR_NAMES = ["x", "n", "count", "x1", "foo_bar", "user_name", "y", "t"]
COMP_NAMES = ["b", "i", "a", "span", "link", "em"]
TAGS = ["em", "b", "i", "span", "strong", "u", "s", "small"]
TEXTS = ["hello", "a b", " ", "x > y", "é", "日本語", "😀", "}", ">", "/", ")", "(", ",", ".", ":", "-", "a/b", "　",
         "l'été", "\"q\"", "\\", "&amp;", "&", "100%", "t(", "#", "@", "=", " ", "&#x27;", "don't", "\n", "  two  "]
VALS = ["V0", "x<y", "a&b", "\"q\"", "é", "", "<b>", "7", "{{ x }}", "w w"]
VIEW_FLAVOURS = {"td", "td_short", "t", "tu"}
# attribute values of the components passed: plain, empty, spaces, backslashes, tab, newline, quotes, markup characters,
# non-ASCII, astral
ATTR_VALS = ["v1", "", "a b", "C:\\tmp\\d+", "tab\there", "nl\nx", "q\"uote", "it's", "a<b>c", "a&b", "&amp;", "é", "😀", "\\\""]
ATTR_NAMES = ["data-x", "data-y", "title"]
WS = ["", "", " ", "  ", "\t", "\n"]


def _w(rng):
    return rng.choice(WS)


def gen_items(rng, depth=0, maxn=4):
    items = []
    for _ in range(rng.randint(0 if depth else 1, maxn)):
        r = rng.random()
        if r < 0.45:
            items.append(("T", rng.choice(TEXTS) if rng.random() < 0.8 else rng.choice(TEXTS) + rng.choice(TEXTS)))
        elif r < 0.75:
            items.append(("V", _w(rng), rng.choice(VAR_NAMES), _w(rng), None))
        elif depth < 3:
            items.append(("C", _w(rng), rng.choice(COMP_NAMES), _w(rng), gen_items(rng, depth + 1, 3), _w(rng), _w(rng), _w(rng)))
    return items


LANGS = ["en", "fr", "ru", "ar", "pl", "ja", "cy", "he", "pt", "pt-PT"]   # pt-PT has plural rules of its own (0 is `other`)


def lang_of(loc):
    """the entry of LANGS whose CLDR plural rules the locale uses, or None"""
    if loc == "pt-PT" or loc.startswith("pt-PT-"):
        return "pt-PT"
    l = loc.split("-")[0]
    return l if l in LANGS else None
PCOUNTS = [0, 1, 2, 3, 5, 11, 21, 22, 100, 101]          # around the category changes of en/fr/ru/ar/pl, cardinal and ordinal
FORMS = ["zero", "one", "two", "few", "many"]
COUNTS = [0, 1, 2, 5, 7, 100]
FCOUNTS = [0.0, 1.0, 2.5, 5.0, 7.0, 100.0]


def gen_arms(rng, ty):
    """a range table: a few arms with exact values / alternatives / bounds, then the fallback"""
    num = (lambda n: float(n) if rng.random() < 0.5 else n + 0.5) if ty == "f32" else (lambda n: n)
    arms = []
    for _ in range(rng.choice([0, 1, 2, 3])):
        conds = []
        for _ in range(rng.choice([1, 1, 2])):
            r = rng.random()
            a = rng.choice([0, 1, 2, 3, 5, 6, 7])
            if r < 0.5:
                conds.append(("exact", num(a)))
            elif r < 0.7:
                incl = rng.random() < 0.6
                lo = num(a)
                conds.append(("bounds", lo, lo + rng.choice([0, 1, 3]) + (0 if incl else 1), incl))
            elif r < 0.85:
                conds.append(("bounds", num(a), None, False))
            elif ty != "u32" or a > 0:
                conds.append(("bounds", None, num(a), True))
            else:
                conds.append(("exact", num(a)))
        arms.append((gen_items(rng, 1, 3) or [("T", "arm")], conds))
    arms.append((gen_items(rng, 1, 3) or [("T", "other")], []))
    return arms


def _num(n):
    return repr(n) if isinstance(n, float) else str(n)


def _cond_json(c):
    if c[0] == "exact":
        return c[1]
    _, lo, hi, incl = c
    return "%s..%s%s" % ("" if lo is None else _num(lo), "=" if (incl and hi is not None) else "", "" if hi is None else _num(hi))


def range_json(value):
    arr = [value[1]] if value[1] else []
    for items, conds in value[2]:
        arr.append([parsegen.print_items(items)] + ([_cond_json(c) for c in conds] if conds else ["_"]))
    return arr


def count_of(key, a):
    if key.plural:
        return PCOUNTS[a % len(PCOUNTS)]
    tbl = FCOUNTS if key.range_type == "f32" else COUNTS
    return tbl[(a * 3 + key.id) % len(tbl)]


def count_display(n):
    """Rust Display of the count"""
    if isinstance(n, float):
        return str(int(n)) if n == int(n) else repr(n)
    return str(n)


LIT_POOLS = {
    "bool": [True, False],
    "uint": [0, 5, 12345678901, 18446744073709551615],
    "int": [-3, -1, -9223372036854775808],
    # whole, >= 1e16 and < 1e-4 values print differently under `{:?}` and `{}`
    "float": [2.0, 4.0, 1e16, 1e-5, 59.89, 0.5, -2.5, 1.5e-7, 123456789.125, 1e21, 1e300, 100.0, 3e-320],
}


def rust_display(v):
    """Rust `{}` of a bool / u64 / i64 / f64 literal (floats: shortest round-trip digits, never an exponent)"""
    if isinstance(v, bool):
        return "true" if v else "false"
    if isinstance(v, float):
        from decimal import Decimal
        t = format(Decimal(repr(v)), "f")
        if "." in t:
            t = t.rstrip("0").rstrip(".")
        return t if t not in ("", "-") else t + "0"
    return str(v)


def _lit_value(rng, cls):
    if cls == "mixed":
        cls = rng.choice(["bool", "uint", "int", "float", "text"])
    if cls == "text":
        return ("str", [("T", rng.choice(["texte", "text not number", "2.0"]))])
    return ("lit", rng.choice(LIT_POOLS[cls]))


def names_of(items, vs, cs):
    for it in items:
        if it[0] == "V":
            vs.add(it[2])
        elif it[0] == "C":
            cs.add(it[2])
            names_of(it[4], vs, cs)


class PKey:
    def __init__(self, kid, path):
        self.id = kid
        self.path = path
        self.values = {}
        self.tags = {}

    def finish(self, rng):
        vs, cs = set(), set()
        self.range_type = None
        self.plural = None
        self.count_name = "count"
        for v in self.values.values():
            if v[0] in ("absent", "null"):
                continue
            if v[0] == "str":
                names_of(v[1], vs, cs)
            elif v[0] == "range":
                self.range_type = v[1] or "i32"
                for items, _ in v[2]:
                    names_of(items, vs, cs)
            elif v[0] == "plural":
                self.plural = "ordinal" if v[1] else "cardinal"
                if len(v) > 3:
                    self.count_name = "n"
                for items in v[2].values():
                    names_of(items, vs, cs)
        self.has_count_var = "count" in vs
        if self.range_type or self.plural:
            vs.discard(self.count_name)   # the count is passed as the count, `{{ count }}` shows it
        self.assignments = len(PCOUNTS) if self.plural else 2
        self.vars, self.comps = sorted(vs), sorted(cs)
        self.tags = {c: rng.choice(TAGS) for c in self.comps}
        self.attrs = {c: ([(n, rng.choice(ATTR_VALS)) for n in rng.sample(ATTR_NAMES, rng.choice([1, 1, 2]))]
                          if rng.random() < 0.6 else []) for c in self.comps}
        kinds = set()
        for v in self.values.values():
            if v[0] in ("absent", "null"):
                continue
            if v[0] == "lit":
                kinds.add("bool" if isinstance(v[1], bool) else "float" if isinstance(v[1], float) else "int" if v[1] < 0 else "uint")
            elif v[0] in ("range", "plural"):
                kinds.add("interp")
            elif all(it[0] == "T" for it in v[1]):
                kinds.add("str")
            else:
                kinds.add("interp")
        self.const = len(kinds) == 1 and "interp" not in kinds


class Project:
    pass


def _rename_count(items):
    out = []
    for it in items:
        if it[0] == "V" and it[2] == "count":
            out.append(("V", it[1], "n", it[3], it[4]))
        elif it[0] == "C":
            out.append(it[:4] + (_rename_count(it[4]),) + it[5:])
        else:
            out.append(it)
    return out


def effective_locale(project, key, loc):
    """the inherits walk (for reports; the verdict recomputes it in Coq)"""
    seen = set()
    while key.values[loc][0] in ("absent", "null"):
        seen.add(loc)
        loc = project.inherits.get(loc)
        if loc is None or loc in seen:
            return project.locales[0]
    return loc


def gen_project(rng, n_keys, locales, namespaces=None, wide=False, inherits=None, gaps=True):
    p = Project()
    p.inherits = dict(inherits or {})
    p.group_null = set()
    p.locales = list(locales)
    p.namespaces = list(namespaces) if namespaces else None
    p.keys = []
    with_plurals = all(lang_of(l) for l in p.locales)
    groups = [()]
    for g in range(max(1, n_keys // 6)):
        parent = rng.choice(groups)
        if len(parent) < 3:
            groups.append(parent + ("g%d" % g,))
    for i in range(n_keys):
        path = rng.choice(groups) + ("k%d" % i,)
        if p.namespaces:
            path = (rng.choice(p.namespaces),) + path
        k = PKey(i, path)
        kind = rng.random()
        lit_cls = rng.choice(["bool", "uint", "int", "float", "float", "mixed", "mixed"])
        for loc in p.locales:
            if kind < 0.1:
                k.values[loc] = _lit_value(rng, lit_cls)
            elif kind < 0.2:
                k.values[loc] = ("str", [("T", rng.choice(TEXTS) + rng.choice(TEXTS))] if rng.random() < 0.9 else [])
            elif kind < 0.3:
                if loc == p.locales[0]:
                    rty = rng.choice([None, None, "i64", "u32", "f32"])
                k.values[loc] = ("range", rty, gen_arms(rng, rty))
            elif with_plurals and kind < 0.46:
                if loc == p.locales[0]:
                    ordinal = rng.random() < 0.5
                forms = {f: (gen_items(rng, 1, 3) or [("T", f)]) for f in FORMS if rng.random() < 0.45}
                if rng.random() < 0.5:
                    f = rng.choice(FORMS + ["other"])          # make sure the count is shown somewhere
                    forms[f] = forms.get(f, []) + [("V", _w(rng), "count", _w(rng), None), ("T", " " + f)]
                forms["other"] = forms.get("other") or gen_items(rng, 1, 3) or [("T", "other")]
                if loc == p.locales[0] and len(forms) == 1:
                    # a lone `key_other` is the plural `key` only if some locale declares more forms: the default does
                    forms[rng.choice(FORMS)] = [("T", "form")]
                k.values[loc] = ("plural", ordinal, forms)
            elif wide and kind < 0.54:
                n = rng.choice([26, 27, 28, 52, 53, 60, 80])
                its = []
                for j in range(n):
                    its.append(("V", "", rng.choice(VAR_NAMES[:4]), "", None) if j % 2 else ("T", "%d." % j))
                if rng.random() < 0.3:
                    its = [("C", "", "b", "", its, "", "", "")]
                k.values[loc] = ("str", its)
            else:
                k.values[loc] = ("str", gen_items(rng))
        p.keys.append(k)
    # renamed counts: `$t(target, {"count": "{{ n }}"})` to a plural key outside any group; both stay defined everywhere
    nogap = set()
    # every project has, whatever the draw above: a float literal key whose values include whole / huge / tiny numbers (top
    # level and in a group), one literal key per other type, and a key of mixed literal types; they take part in the gaps below
    gp = next((k.path[:-1] for k in p.keys if len(k.path) > (2 if p.namespaces else 1)), None)
    base = (p.namespaces[0],) if p.namespaces else ()
    for cls, path in [("float", base), ("float", gp), ("uint", base), ("int", gp), ("bool", base), ("mixed", base), ("mixed", gp)]:
        if path is None:
            continue
        k = PKey(len(p.keys), path + ("l%d" % len(p.keys),))
        for j, loc in enumerate(p.locales):
            if cls == "float":
                k.values[loc] = ("lit", [2.0, 1e16, 1e-5, 4.0][j % 4] if j < 4 else rng.choice(LIT_POOLS["float"]))
            elif cls == "mixed":
                k.values[loc] = [("lit", True), ("str", [("T", "texte")]), ("lit", 3), ("lit", 2.0), ("lit", -1)][j % 5]
            else:
                k.values[loc] = _lit_value(rng, cls)
        p.keys.append(k)
    if with_plurals:
        for ordinal in (False, True):
            t = PKey(len(p.keys), ((p.namespaces[0],) if p.namespaces else ()) + ("p%d" % len(p.keys),))
            for loc in p.locales:
                forms = {f: (gen_items(rng, 1, 2) or [("T", f)]) for f in FORMS if rng.random() < 0.5 or (f == "one" and not ordinal)}
                f = rng.choice(FORMS + ["other"])
                forms[f] = forms.get(f, []) + [("V", _w(rng), "count", _w(rng), None), ("T", " " + f)]
                forms["other"] = forms.get("other") or [("T", "other")]
                if len(forms) == 1:
                    forms["few"] = [("T", "few")]
                t.values[loc] = ("plural", ordinal, forms)
            p.keys.append(t)
            k = PKey(len(p.keys), t.path[:-1] + ("r%d" % t.id,))
            for loc in p.locales:
                v = t.values[loc]
                k.values[loc] = ("plural", v[1], {f: _rename_count(items) for f, items in v[2].items()}, t.path)
            p.keys.append(k)
            nogap.update({t.id, k.id})
    if gaps and len(p.locales) > 1:
        # whole sub-key groups missing in a locale (absent, or written as null)
        gpaths = sorted({k.path[:m] for k in p.keys for m in range(2 if p.namespaces else 1, len(k.path))})
        gone = {}
        for g in gpaths:
            for loc in p.locales[1:]:
                if rng.random() < 0.12:
                    gone[(loc, g)] = rng.random() < 0.5
        for k in p.keys:
            if k.id in nogap:
                continue
            for loc in p.locales[1:]:
                hit = [g for (l, g) in gone if l == loc and k.path[:len(g)] == g]
                if hit:
                    k.values[loc] = ("absent",)
                    continue
                r = rng.random()
                if r < 0.22:
                    k.values[loc] = ("absent",)
                elif r < 0.36:
                    k.values[loc] = ("null",)
        for (loc, g), as_null in gone.items():
            # only the outermost missing group is written as null
            if as_null and not any((loc, g[:m]) in gone for m in range(1, len(g))):
                p.group_null.add((loc, g))
    for k in p.keys:
        k.finish(rng)
    return p


def env_of(key, a):
    env = {v: VALS[(a * 3 + j + key.id) % len(VALS)] for j, v in enumerate(key.vars)}
    if key.range_type or key.plural:
        env[key.count_name] = count_display(count_of(key, a))
    return env


# ------------------------------------------------------------------ files

def _tree(project, loc, ns):
    root = {}
    for k in project.keys:
        path = k.path
        if project.namespaces:
            if path[0] != ns:
                continue
            path = path[1:]
        v = k.values[loc]
        if v[0] == "absent":
            continue
        d = root
        for seg in path[:-1]:
            d = d.setdefault(seg, {})
        if v[0] == "plural" and len(v) > 3:
            t = v[3]
            target = (t[0] + ":" + ".".join(t[1:])) if project.namespaces else ".".join(t)
            d[path[-1]] = "$t(%s, %s)" % (target, json.dumps({"count": "{{ n }}"}))
            continue
        if v[0] == "plural":
            for form, items in v[2].items():
                d["%s%s_%s" % (path[-1], "_ordinal" if v[1] else "", form)] = parsegen.print_items(items)
            continue
        d[path[-1]] = (None if v[0] == "null" else v[1] if v[0] == "lit" else range_json(v) if v[0] == "range"
                       else parsegen.print_items(v[1]))
    for (l, g) in project.group_null:
        if l != loc:
            continue
        g2 = g
        if project.namespaces:
            if g[0] != ns:
                continue
            g2 = g[1:]
        d = root
        for seg in g2[:-1]:
            d = d.setdefault(seg, {})
        d[g2[-1]] = None
    return root


def _args(key, style):
    """macro arguments of a call: variables from the local bindings, components per style"""
    out = ["%s = v_%s" % (v, v) for v in key.vars]
    if key.range_type or key.plural:
        out.append("%s = c_count" % key.count_name if style in ("string", "string2") else "%s = move || c_count" % key.count_name)
    for c in key.comps:
        tag = key.tags[c]
        attrs = getattr(key, "attrs", {}).get(c, [])
        lit = lambda t: json.dumps(t, ensure_ascii=False)        # a Rust string literal (the pool needs no other escape)
        if style == "string":
            if attrs:
                out.append("<%s> = DisplayComp::new(%s, &[%s])" % (c, lit(tag), ", ".join("(%s, %s)" % (lit(n), lit(v)) for n, v in attrs)))
            else:
                out.append('<%s> = "%s"' % (c, tag))
        elif style == "string2":
            if attrs:
                # the documented escape hatch: a function formatting the component itself
                body = "".join(' write!(f, " {}=\\"{}\\"", %s, %s)?;' % (lit(n), lit(v)) for n, v in attrs)
                out.append("<%s> = |f: &mut core::fmt::Formatter<'_>, ch: &dyn Fn(&mut core::fmt::Formatter<'_>) -> core::fmt::Result| "
                           "{ write!(f, \"<%s\")?;%s f.write_str(\">\")?; ch(f)?; write!(f, \"</%s>\") }" % (c, tag, body, tag))
            else:
                out.append('<%s> = String::from("%s")' % (c, tag))
        else:
            a = "".join(" %s=%s" % (n, lit(v)) for n, v in attrs)
            if style == "closure":
                out.append("<%s> = |children: ChildrenFn| view!{ <%s%s>{children()}</%s> }" % (c, tag, a, tag))
            else:
                out.append("<%s> = <%s%s />" % (c, tag, a))
    return "".join(", " + a for a in out)


def _key_fn(project, key):
    path = ".".join(key.path)
    L = []
    L.append("fn k%d(i18n: I18nContext<Locale>, loc: Locale, a: usize) {" % key.id)
    for j, v in enumerate(key.vars):
        L.append("    let v_%s: &'static str = VALS[(a * 3 + %d + %d) %% VALS.len()];" % (v, j, key.id))
    L.append("    if a >= %d { return; }" % key.assignments)
    if key.plural:
        L.append("    let c_count: i32 = [%s][a %% %d];" % (", ".join(str(x) for x in PCOUNTS), len(PCOUNTS)))
    if key.range_type:
        tbl = FCOUNTS if key.range_type == "f32" else COUNTS
        L.append("    let c_count: %s = [%s][(a * 3 + %d) %% %d];" % (key.range_type, ", ".join(_num(x) for x in tbl), key.id, len(tbl)))
    s, c, sh, s2 = _args(key, "string"), _args(key, "closure"), _args(key, "short"), _args(key, "string2")

    def put(fl, expr):
        L.append('    put(%d, a, loc, "%s", %s);' % (key.id, fl, expr))

    put("td_string", "td_string!(loc, %s%s).to_string()" % (path, s))
    put("td_display", "td_display!(loc, %s%s).to_string()" % (path, s2))
    put("td", "html(td!(loc, %s%s))" % (path, c))
    put("td_short", "html(td!(loc, %s%s))" % (path, sh))
    put("t", "html(t!(i18n, %s%s))" % (path, c))
    put("tu", "html(tu!(i18n, %s%s))" % (path, sh))
    put("t_string", "t_string!(i18n, %s%s).to_string()" % (path, s))
    put("t_display", "t_display!(i18n, %s%s).to_string()" % (path, s))
    put("tu_string", "tu_string!(i18n, %s%s).to_string()" % (path, s2))
    put("tu_display", "tu_display!(i18n, %s%s).to_string()" % (path, s))
    if key.const:
        put("const", "loc.get_keys_const()%s.inner().to_string()" % "".join(".%s()" % seg for seg in key.path))
    n = len(key.path)
    for m in range(1, n):
        pre, rest = ".".join(key.path[:m]), ".".join(key.path[m:])
        L.append("    { let sl = scope_locale!(loc, %s); let si = scope_i18n!(i18n, %s); let su = use_i18n_scoped!(%s);" % (pre, pre, pre))
        put("scope_locale%d:td_string" % m, "td_string!(sl, %s%s).to_string()" % (rest, s))
        put("scope_locale%d:td_display" % m, "td_display!(sl, %s%s).to_string()" % (rest, s))
        put("scope_locale%d:td" % m, "html(td!(sl, %s%s))" % (rest, sh))
        put("scope_i18n%d:t_string" % m, "t_string!(si, %s%s).to_string()" % (rest, s))
        put("scope_i18n%d:t" % m, "html(t!(si, %s%s))" % (rest, c))
        put("use_i18n_scoped%d:t_string" % m, "t_string!(su, %s%s).to_string()" % (rest, s))
        put("use_i18n_scoped%d:tu" % m, "html(tu!(su, %s%s))" % (rest, sh))
        L.append("    }")
    if n > 2:
        L.append("    { let sl = scope_locale!(loc, %s); let si = scope_i18n!(i18n, %s);" % (key.path[0], key.path[0]))
        for seg in key.path[1:-1]:
            L.append("      let sl = scope_locale!(sl, %s); let si = scope_i18n!(si, %s);" % (seg, seg))
        put("scope_locale_chain:td_string", "td_string!(sl, %s%s).to_string()" % (key.path[-1], s))
        put("scope_locale_chain:td", "html(td!(sl, %s%s))" % (key.path[-1], c))
        put("scope_i18n_chain:t_display", "t_display!(si, %s%s).to_string()" % (key.path[-1], s))
        put("scope_i18n_chain:t", "html(t!(si, %s%s))" % (key.path[-1], sh))
        L.append("    }")
    L.append("}")
    return "\n".join(L)


MAIN_HEAD = r'''// GENERATED by /verif/checks/probe_common.py - a probe crate: prints what every accessor flavour renders.
#![allow(unused, non_snake_case, clippy::all)]
use leptos::prelude::*;
use leptos_i18n::context::{init_i18n_context_with_options, CookieOptions, I18nContextOptions, UseLocalesOptions};
use leptos_i18n::display::DisplayComp;
use leptos_i18n::{I18nContext, Locale as _};
leptos_i18n::load_locales!();
use i18n::*;

const VALS: [&str; %d] = %s;
const PCOUNTS: [i32; %d] = %s;

fn put(id: usize, a: usize, loc: Locale, fl: &str, s: String) {
    let h: String = s.bytes().map(|b| format!("{:02x}", b)).collect();
    println!("{}\t{}\t{}\t{}\t{}", id, a, loc, fl, h);
}
fn html<T: IntoView>(v: T) -> String {
    v.into_view().to_html()
}
async fn tick() {
    any_spawner::Executor::tick().await;
}
'''

MAIN_TAIL = r'''
fn main() {
    let rt = tokio::runtime::Builder::new_current_thread().build().unwrap();
    let local = tokio::task::LocalSet::new();
    local.block_on(&rt, async {
        let _ = any_spawner::Executor::init_tokio();
        let owner = Owner::new();
        owner.set();
        let cookie_options: CookieOptions<Locale> =
            CookieOptions::default().ssr_cookies_header_getter(|| None).ssr_set_cookie(|_c| {});
        let lang = UseLocalesOptions::default().ssr_lang_header_getter(|| None);
        let opts = I18nContextOptions::<Locale>::default().cookie_options(cookie_options).ssr_lang_header_getter(lang);
        let i18n: I18nContext<Locale> = init_i18n_context_with_options(opts);
        provide_context(i18n);
        // what icu_plurals itself says, for the check's oracle cross-check (does not go through the generated code)
        {
            use leptos_i18n::reexports::icu::plurals::{PluralCategory, PluralRuleType, PluralRules};
            for loc in Locale::get_all().iter().copied() {
                for (rname, rt) in [("cardinal", PluralRuleType::Cardinal), ("ordinal", PluralRuleType::Ordinal)] {
                    if let Ok(rules) = PluralRules::try_new(&loc.as_icu_locale().into(), rt) {
                        for n in PCOUNTS {
                            let c = match rules.category_for(n) {
                                PluralCategory::Zero => "zero", PluralCategory::One => "one", PluralCategory::Two => "two",
                                PluralCategory::Few => "few", PluralCategory::Many => "many", PluralCategory::Other => "other",
                            };
                            println!("#P\t{}\t{}\t{}\t{}", loc, rname, n, c);
                        }
                    }
                }
            }
        }
        for loc in Locale::get_all().iter().copied() {
            i18n.set_locale(loc);
            tick().await;
            for a in 0..%d {
%s
            }
        }
    });
}
'''


def write_crate(d, project, assignments=2, name="h_probe"):
    shutil.rmtree(os.path.join(d, "locales"), ignore_errors=True)
    os.makedirs(os.path.join(d, "src"), exist_ok=True)
    for loc in project.locales:
        for ns in (project.namespaces or [None]):
            p = os.path.join(d, "locales", loc, ns + ".json") if ns else os.path.join(d, "locales", loc + ".json")
            os.makedirs(os.path.dirname(p), exist_ok=True)
            with open(p, "w") as fh:
                json.dump(_tree(project, loc, ns), fh, ensure_ascii=False, indent=1)
    htoml = open(os.path.join(core.HARNESS, "h_rt", "Cargo.toml")).read()
    deps = htoml[htoml.index("[dependencies]"):]
    # mutation testing only: build the probe against a modified scratch copy of /repo (never set by ./check users).
    # Use a fresh path per mutation and `touch` the copied sources: cargo's freshness test is mtime-based, a copy that keeps
    # /repo's mtimes at a path used before silently reuses the artefacts of the earlier mutation.
    if os.environ.get("VERIF_PROBE_REPO"):
        deps = deps.replace('"/repo/', '"%s/' % os.environ["VERIF_PROBE_REPO"].rstrip("/"))
    wtoml = open(os.path.join(core.HARNESS, "Cargo.toml")).read()
    profile = wtoml[wtoml.index("[profile.dev]"):]
    toml = ('[package]\nname = "%s"\nversion = "0.1.0"\nedition = "2021"\n\n[workspace]\n\n%s\n%s\n'
            '[package.metadata.leptos-i18n]\ndefault = %s\nlocales = %s\n' % (
                name, deps, profile, json.dumps(project.locales[0]), json.dumps(project.locales)))
    if project.namespaces:
        toml += "namespaces = %s\n" % json.dumps(project.namespaces)
    if project.inherits:
        toml += "inherits = { %s }\n" % ", ".join("%s = %s" % (json.dumps(k), json.dumps(v)) for k, v in project.inherits.items())
    with open(os.path.join(d, "Cargo.toml"), "w") as fh:
        fh.write(toml)
    shutil.copy(os.path.join(core.HARNESS, "Cargo.lock"), os.path.join(d, "Cargo.lock"))
    src = MAIN_HEAD % (len(VALS), "[" + ", ".join(json.dumps(v, ensure_ascii=False) for v in VALS) + "]",
                       len(PCOUNTS), "[" + ", ".join(str(x) for x in PCOUNTS) + "]")
    src += "\n\n".join(_key_fn(project, k) for k in project.keys)
    src += MAIN_TAIL % (max([assignments] + [k.assignments for k in project.keys]), "\n".join("                k%d(i18n, loc, a);" % k.id for k in project.keys))
    with open(os.path.join(d, "src", "main.rs"), "w") as fh:
        fh.write(src)


def build_crate(d, timeout=2400, name="h_probe"):
    rc, out, err = core.sh(["cargo", "build", "--offline"], cwd=d, timeout=timeout,
                           env={"CARGO_TARGET_DIR": core.TARGET, "RUSTFLAGS": "--cap-lints warn"})
    if rc != 0:
        errs = [l for l in err.splitlines() if l.startswith("error")]
        return None, "\n".join(errs[:10]) + "\n" + err[-3000:]
    exe = os.path.join(d, "h_probe")
    # the next probe crate of this run overwrites the target binary (the name carries seed and tier: not another run's)
    shutil.copy(os.path.join(core.TARGET, "debug", name), exe)
    return exe, ""


def canon_html(s):
    s = re.sub(r"<!--.*?-->", "", s, flags=re.S)
    s = re.sub(r' data-hk="[^"]*"', "", s)
    s = s.replace("<!>", "")
    return html.unescape(s)


def run_probe(exe, timeout=600):
    rc, out, err = core.sh("%s 2>/dev/null" % exe, timeout=timeout)
    if rc != 0:
        raise core.Infra("probe binary failed (rc %s): %s" % (rc, out[-300:]))
    res = {"__plural_oracle__": {}}
    for line in out.splitlines():
        if line.startswith("#P\t"):
            _, loc, rname, n, cat = line.split("\t")
            res["__plural_oracle__"][(loc, rname, int(n))] = cat
            continue
        kid, a, loc, fl, hx = line.split("\t")
        text = bytes.fromhex(hx).decode()
        if fl.split(":")[-1] in VIEW_FLAVOURS:
            text = canon_html(text)
        res.setdefault((int(kid), int(a), loc), {})[fl] = text
    return res
