"""Reactive accessors follow the locale of their context — shared section of C05 (plural macros) and C18 (format macros).

The machinery is the one of C16 (checks/C16.py, harness h_ctx, Runtime/Context.v + Runtime/ContextAcc.v): the real leptos
runtime is driven through generated histories of set_locale / set_locale_untracked / scopes / sub-contexts / flushes; the
accessors are created through the real macros (t_plural!, tu_plural!, t_plural_ordinal!, tu_plural_ordinal! — t_format!,
tu_format! and their _string / _display forms) with every kind of context expression, BEFORE later sets, rendered after every
step and mounted in render effects.  Expected rendering at each step = what the fixed-locale macro (td_plural!, td_format!, ..)
renders for the locale the model says the context shows at that step (Coq: ContextAccCheck.tcheck).  This module runs the
histories of one family and reports under the calling property's id."""
import json

from vlib import core
from checks import C15, C16

FAMILY_TEXT = {
    "plural": "t_plural!/tu_plural!/t_plural_ordinal!/tu_plural_ordinal!",
    "format": "t_format!/tu_format!/t_format_string!/tu_format_string!/t_format_display!/tu_format_display!",
}
PACKAGES = [("h_ctx",)]


def run_family(ctx, family):
    """Runs the accessor histories of `family` ('plural' | 'format'); reports violations on ctx; returns the evidence dict."""
    bindir = core.cargo_build("h_ctx")
    exe = C15.exe_path(bindir)
    corpus = C16.flavour_corpus(family)
    hist = list(corpus)
    for _ in range(60 if ctx.quick else 1500):
        hist.append((C16.gen_root(ctx.rng), C16.gen_history(ctx.rng, family)))
    tag = "acc_" + family
    codes, metas, names = C16.evaluate(ctx, exe, hist, tag=tag)
    oracle_problems = C16.LAST["oracle"].problems()
    bad = [i for i, c in enumerate(codes) if c == 3]
    dis = [i for i, c in enumerate(codes) if c == 2]
    broken = [i for i, c in enumerate(codes) if c == 4]
    if bad:
        i = min(bad, key=lambda j: len(hist[j][1]))
        root, ops = C16.shrink(ctx, exe, hist[i][0], hist[i][1], (3,))
        c2, m2, _ = C16.evaluate(ctx, exe, [(root, ops)], tag=tag + "s")
        fi = m2[0]
        fi["acc_family"] = family
        fi["original_length"] = len(hist[i][1])
        fi["explanation"] = (
            "an accessor created through %s (macro and context expression under 'flavours') does not render the text of the "
            "locale its context shows at that step ('fixed_locale_oracle' = what the td_ form renders per locale); traces are "
            "h<handles: untracked,tracked read>/a<accessor pairs>/w<mounted effects>/c<cookies>/z<frozen observers> per step, "
            "plural renderings printed as the index of the form (zero one two few many other), format renderings as the least "
            "locale index with that text" % FAMILY_TEXT[family])
        core.violation(ctx, "accessor_locale", {"failing_input": fi, "count": len(bad)})
    elif broken:
        core.violation(ctx, "accessor_panic", {"failing_input": dict(metas[broken[0]], acc_family=family),
                                               "explanation": "the runtime panicked or a flush did not reach quiescence"})
    elif dis or oracle_problems:
        first = None
        if dis:
            i = min(dis, key=lambda j: len(hist[j][1]))
            root, ops = C16.shrink(ctx, exe, hist[i][0], hist[i][1], (2, 3))
            c2, m2, _ = C16.evaluate(ctx, exe, [(root, ops)], tag=tag + "s")
            first = dict(m2[0], code=c2[0], acc_family=family)
        core.violation(ctx, "correspondence", {
            "broken": ("fixed-locale oracle tables: " + "; ".join(oracle_problems[:3])) if oracle_problems else
                      "correspondence Runtime/ContextAcc.v (xmodel_trace) vs the real leptos runtime driven through %s" % FAMILY_TEXT[family],
            "first_disagreeing_input": first, "disagreements": len(dis)}, no_input=True)
    # distribution
    stat, kinds, counts = {}, {}, {}
    for root, ops in hist:
        sh, hctx = C16.Shape(), []
        for o in ops:
            hctx.append(sh.handles[o[1]][0] if o[0] in ("A", "M", "S", "U") else None)
            sh.apply(o)
        for j, o in enumerate(ops):
            if o[0] not in ("A", "M"):
                continue
            later = any(p[0] in ("S", "U") and hctx[j2] == hctx[j] for j2, p in enumerate(ops) if j2 > j)
            for f in o[2:]:
                m, e, _ = C16.fl_parts(f)
                d = stat.setdefault(C16.MACRO_NAMES[m], {"created": 0, "mounted": 0, "before_a_later_set": 0})
                d["created" if o[0] == "A" else "mounted"] += 1
                d["before_a_later_set"] += later
                kinds[C16.CTX_EXPR[e]] = kinds.get(C16.CTX_EXPR[e], 0) + 1
                p = C16.fl_payload(f)
                pk = str(C16.COUNTS[p]) if family == "plural" else "%s %s" % (C16.FMT_FORMATTER[p // 4], C16.FMT_VALUES[p // 4][p % 4])
                counts[pk] = counts.get(pk, 0) + 1
    orc = C16.LAST["oracle"]
    sample = C16.fl(9, 0, 0, 0) if family == "plural" else C16.fl(13, 0, 0, 0)
    return {
        "histories": len(hist), "systematic_histories": len(corpus), "steps_compared": sum(len(o) + 1 for _, o in hist),
        "spec_failures_on_impl": len(bad), "disagreements": len(dis), "harness_panics_or_unstable": len(broken),
        "oracle_table_problems": oracle_problems[:5],
        "rule": "systematic histories first (every macro of the family x 10 kinds of context expression, payload rotating, on three "
                "scope depths, on the root context and on a sub-context, created before set_locale(ar), set_locale_untracked(ru) and "
                "set_locale(fr) through another view, half mounted in a render effect), then random histories (<=6 contexts, <=40 "
                "ops) whose accessors are random flavours of the family; expected text = fixed-locale macro of the model's "
                "current locale",
        "by_macro": stat, "by_context_expression": kinds, "by_payload": counts,
        "oracle_sample": {C16.fl_name(sample): orc.texts(sample, names)},
        "locales": names,
    }


def is_mine(obj):
    fi = obj.get("failing_input") or obj.get("first_disagreeing_input") or {}
    return isinstance(fi, dict) and bool(fi.get("acc_family"))


def replay(ctx, path):
    return C16.replay(ctx, path)
