"""C14: structured case generator with explicit coverage dimensions, tagging and a pairwise table.

Dimensions of the quantifier of C14 ("all locale sets x base paths x route tables with static/param/optional/splat/
localized segments x paths x sequences of locale switches") as the generator sees them:

  names       flat | nested            some locale name is a proper prefix of another one (en / en-US, fi / fil)
  word        none | prefixed-first | prefixed-inner | equals-first | equals-inner      (multi-valued)
              a path segment that has a locale name as proper prefix ("french") / is equal to a locale name,
              as first segment after the prefix or further inside
  src         default | non-default    locale of the URL
  dst         same | default | other   target of the (first) switch
  base        root | bare | lead | trail | both | multi        "", "foo", "/foo", "foo/", "/foo/", "/app/v2"
  kinds       <kind>@<pos> (multi-valued) for every segment of the route the path was made from;
              kind: static localized param opt-present opt-absent splat-empty splat-nonempty, pos: first inner last;
              `none` when the path was not made from a route
  overlap     no-match | unique | first-of-many | shadowed     how the path reads against the table
  query       yes | no
  hash_form   none | bare | browser | browser-##     Location.hash as given: "", "top" (server/tests), "#top" (client:
                                       window.location.hash unmodified), "##x" (browser form of the fragment "#x");
                                       "#" alone is generated outside the table (the property cannot decide it)
  slashes     normal | trailing | doubled        spelling of the path handed to the router
  locale_arg  ctx | none | path        the `locale` argument: the context's previous locale, None (maybe_redirect),
                                       read back from the path (correct_locale_prefix_effect, histories only)
  hist_len    0 | 1 | 2 | 3 | 4+       0 = one get_new_path call; otherwise a history of that many switches
  prefix      canonical | explicit-default     the URL of the default locale spelled with its prefix ("/en/about", default en):
                                       accepted and read as en by the router, must be rewritten like any other prefix
"""
import itertools

FLAT = ["en", "fr", "de", "it", "ab", "is", "日本", "pt"]
NESTED = [("en", "en-US"), ("fr", "fr-CA"), ("fi", "fil"), ("en-US", "en-US-posix"), ("de", "de-CH"), ("e", "en")]
PLAIN = ["about", "files", "entry", "item", "x", "id", "edit", "user", "counter", "demo", "é", "docs", "a b"]
LOCWORDS = ["about", "a-propos", "ueber", "tungkol", "tietoja", "sobre", "chi-siamo", "search", "rechercher", "suche", "édition",
            "haku", "cerca", "buscar"]
VALUES = ["42", "7", "x", "id", "a", "rest", "john", "é", "日本語", "v1.2", "page"]
PNAMES = ["id", "a", "b", "x", "page"]
QUERIES = ["a=1&b=2", "x=/fr/y", "q=fr", "tag=x&sort=asc&tag=y", "debug"]
HASHES = ["top", "/fr", "s-1"]

DIMS = {
    "names": ["flat", "nested"],
    "word": ["none", "prefixed-first", "prefixed-inner", "equals-first", "equals-inner"],
    "src": ["default", "non-default"],
    "dst": ["same", "default", "other"],
    "base": ["root", "bare", "lead", "trail", "both", "multi"],
    "kinds": ["none"] + ["%s@%s" % (k, p) for k in ("static", "localized", "param", "opt-present", "opt-absent")
                         for p in ("first", "inner", "last")]
             + ["splat-empty@first", "splat-empty@last", "splat-nonempty@first", "splat-nonempty@last"],
    "overlap": ["no-match", "unique", "first-of-many", "shadowed"],
    "query": ["yes", "no"],
    "hash_form": ["none", "bare", "browser", "browser-##"],
    "slashes": ["normal", "trailing", "doubled"],
    "locale_arg": ["ctx", "none", "path"],
    "hist_len": ["0", "1", "2", "3", "4+"],
    "prefix": ["canonical", "explicit-default"],
}
MULTI = {"word", "kinds"}


def infeasible(d1, v1, d2, v2):
    """pairs of values that no input can combine, with the reason"""
    p = {d1: v1, d2: v2}

    def has(**kw):
        return all(p.get(k) == v for k, v in kw.items())
    if has(src="default", dst="default"):
        return "a default-locale URL switched to the default locale is dst=same"
    if has(locale_arg="none", src="non-default"):
        return "locale=None is only passed for a URL without prefix (default locale)"
    if p.get("locale_arg") == "none" and p.get("hist_len") not in (None, "0"):
        return "locale=None only occurs in the single call of maybe_redirect"
    if has(locale_arg="path", hist_len="0"):
        return "reading the locale back from the path is exercised in histories only"
    if p.get("kinds") == "none" and p.get("overlap") not in (None, "no-match"):
        return "kinds=none marks a path that was not made from a route; those are generated so that no route matches"
    if p.get("overlap") == "no-match" and p.get("kinds") not in (None, "none"):
        return "a path made from a route of the table matches that route"
    k = p.get("kinds")
    if k == "splat-empty@first" and p.get("word") not in (None, "none"):
        return "the route /*any with nothing captured has no segments"
    if k == "splat-empty@first" and p.get("overlap") == "shadowed":
        return "the empty path has the single reading []: another route matching first gives the same reading"
    if has(locale_arg="none", word="equals-first") or has(locale_arg="none", dst="default"):
        return "locale=None implies a default-locale URL (see src=default)"
    if has(prefix="explicit-default", src="non-default"):
        return "explicit-default is the default locale's URL spelled with its prefix"
    if has(prefix="explicit-default", locale_arg="none"):
        return "a URL with a prefix is never handled by maybe_redirect (locale=None)"
    if has(prefix="explicit-default", dst="default"):
        return "explicit-default implies a default-locale URL (see src=default x dst=default)"
    return None


# ------------------------------------------------------------------ reference semantics (mirror of Router.v `parses`)

def seg_ok(s):
    return s != "" and "/" not in s


def parses(n, l, route, segs):
    if not route:
        return [[]] if not segs else []
    a, rest = route[0], route[1:]
    k = a[0]
    if k == "U":
        return parses(n, l, rest, segs)
    if k == "S":
        ns = a[1]
        out = []
        if all(x == "" for x in ns[:n]):
            out += parses(n, l, rest, segs)
        if all(seg_ok(x) for x in ns[:n]) and segs and ns[l] == segs[0]:
            out += [[("S", ns)] + p for p in parses(n, l, rest, segs[1:])]
        return out
    if k == "P":
        return [[("V", segs[0])] + p for p in parses(n, l, rest, segs[1:])] if segs and seg_ok(segs[0]) else []
    if k == "O":
        out = [[("V", segs[0])] + p for p in parses(n, l, rest, segs[1:])] if segs and seg_ok(segs[0]) else []
        return out + parses(n, l, rest, segs)
    if k == "W":
        return [[("V", s) for s in segs]] if all(seg_ok(s) for s in segs) else []
    raise ValueError(k)


def all_parses(n, l, atab, segs):
    return [p for r in atab for p in parses(n, l, r, segs)]


def render(inst, l):
    return [i[1][l] if i[0] == "S" else i[1] for i in inst]


def expected_segs(n, atab, a, b, segs):
    ps = all_parses(n, a, atab, segs)
    return render(ps[0], b) if ps else list(segs)


def readable(names, dflt, l, segs):
    return l != dflt or not segs or segs[0] not in names


def url(names, dflt, bsegs, l, segs):
    return "/" + "/".join(list(bsegs) + ([] if l == dflt else [names[l]]) + list(segs))


# ------------------------------------------------------------------ generator

def pick(rng, force, dim, weights=None):
    if dim in force:
        return force[dim]
    vals = DIMS[dim]
    return rng.choices(vals, weights)[0] if weights else rng.choice(vals)


def gen(rng, force=None):
    """one structured case realising (as far as it can) the forced dimension values; the caller checks the tags"""
    force = dict(force or {})
    hist_len = pick(rng, force, "hist_len", [5, 1, 1, 1, 1])
    if hist_len == "0":
        locale_arg = pick(rng, force, "locale_arg", [8, 2, 0])
    else:
        locale_arg = pick(rng, force, "locale_arg", [6, 0, 4])
    src = pick(rng, force, "src") if locale_arg != "none" else "default"
    explicit = pick(rng, force, "prefix", [6, 1]) == "explicit-default"
    if explicit and "prefix" in force:
        src = "default"
        if locale_arg == "none":
            locale_arg = "ctx"
    elif explicit and (src != "default" or locale_arg == "none"):
        explicit = False
    dst = pick(rng, force, "dst", [1, 3, 4])
    if src == "default" and dst == "default":
        dst = "other"
    # ---- names
    nm = pick(rng, force, "names")
    k = rng.choice([2, 3, 3, 4, 5])
    if nm == "nested":
        pair = list(rng.choice(NESTED))
        rng.shuffle(pair)
        others = [x for x in FLAT if not any(x != y and (x.startswith(y) or y.startswith(x)) for y in pair) and x not in pair]
        names = pair + rng.sample(others, max(0, k - 2))
    else:
        names = rng.sample(FLAT, k)
    if dst == "other" and src == "non-default" and len(names) < 3:
        names.append(next(x for x in FLAT if x not in names and not any(x.startswith(y) or y.startswith(x) for y in names)))
    rng.shuffle(names)
    n = len(names)
    dflt = rng.randrange(n)
    a = dflt if src == "default" else rng.choice([i for i in range(n) if i != dflt])
    if dst == "same":
        b = a
    elif dst == "default":
        b = dflt
    else:
        b = rng.choice([i for i in range(n) if i not in (a, dflt)])
    # ---- base
    bk = pick(rng, force, "base", [4, 1, 1, 1, 1, 1])
    bsegs = {"root": [], "multi": ["app", "v2"]}.get(bk, [rng.choice(["foo", "f", "app", names[rng.randrange(n)] + "s"])])
    j = "/".join(bsegs)
    base = {"root": rng.choice(["/", "/", ""]), "bare": j, "lead": "/" + j, "trail": j + "/", "both": "/" + j + "/",
            "multi": rng.choice(["/", ""]) + j + rng.choice(["/", ""])}[bk]
    # ---- route and reading
    overlap = pick(rng, force, "overlap", [1, 5, 3, 2])
    fk = force.get("kinds")
    word = force.get("word") or rng.choices(DIMS["word"], [6, 2, 2, 1, 2])[0]
    if src == "default" and word == "equals-first" and not explicit:
        if "prefix" not in force and locale_arg != "none":
            explicit = True          # "/en/fr/x": only an explicit prefix lets a default-locale URL continue with a locale name
        else:
            word = "prefixed-first"
    root = ("S", [""] * n)
    used = set()

    def locwords():
        stem = rng.choice([w for w in LOCWORDS if w not in used] or ["seg%d" % len(used)])
        used.add(stem)
        return [stem if q == 0 else "%s-%d" % (stem, q) for q in range(n)]

    def plainword():
        w = rng.choice([w for w in PLAIN if w not in used] or ["w%d" % len(used)])
        used.add(w)
        return w
    inst, route, kinds = [], [root], []
    if overlap == "no-match" or fk == "none":
        overlap = "no-match"
        segs_n = rng.choice([1, 2, 3])
        inst = [("V", rng.choice(["zzz", "nope", "q", "missing"]) + str(i)) for i in range(segs_n)]
        nmx = rng.choice(names)
        pre = nmx + rng.choice(["nch", "x", "-XX", "s"])
        if word == "prefixed-first":
            inst[0] = ("V", pre)
        elif word == "equals-first":
            inst[0] = ("V", nmx)
        elif word == "prefixed-inner" and segs_n > 1:
            inst[rng.randrange(1, segs_n)] = ("V", pre)
        elif word == "equals-inner" and segs_n > 1:
            inst[rng.randrange(1, segs_n)] = ("V", nmx)
        table = [[root], [root, ("S", [plainword()] * n)], [root, ("S", locwords()), ("P", "id")]]
        route = None
    else:
        if fk:
            kind, pos = fk.split("@")
            ln = {"first": rng.choice([1, 2, 3]), "inner": rng.choice([3, 4]), "last": rng.choice([2, 3, 4])}[pos]
            if kind.startswith("splat"):
                ln = 1 if pos == "first" else rng.choice([2, 3])
            at = {"first": 0, "inner": rng.randrange(1, ln - 1) if ln > 2 else 1, "last": ln - 1}[pos]
        else:
            ln, at, kind = rng.choice([1, 1, 2, 2, 3, 4]), -1, None
        for i in range(ln):
            if i == at:
                kk = kind
            else:
                opts = ["static", "localized", "localized", "param", "opt-present", "opt-absent"]
                if i == ln - 1 and at != i:
                    opts += ["splat-empty", "splat-nonempty"]
                kk = rng.choice(opts)
            if kk == "static":
                w = plainword()
                route.append(("S", [w] * n))
                inst.append(("S", [w] * n))
            elif kk == "localized":
                ws = locwords()
                route.append(("S", ws))
                inst.append(("S", ws))
            elif kk == "param":
                route.append(("P", rng.choice(PNAMES)))
                inst.append(("V", rng.choice(VALUES)))
            elif kk == "opt-present":
                route.append(("O", rng.choice(PNAMES)))
                inst.append(("V", rng.choice(VALUES)))
            elif kk == "opt-absent":
                route.append(("O", rng.choice(PNAMES)))
            elif kk == "splat-empty":
                route.append(("W", "rest"))
            elif kk == "splat-nonempty":
                route.append(("W", "rest"))
                for _ in range(rng.choice([1, 2, 3])):
                    inst.append(("V", rng.choice(VALUES)))
            kinds.append(kk)
        # adversarial words: a locale name as proper prefix of / equal to a segment
        nmx = rng.choice(names)
        pre = nmx + rng.choice(["nch", "x", "-XX", "s"])
        vi = [i for i, x in enumerate(inst) if x[0] == "V"]
        si = [i for i, x in enumerate(inst) if x[0] == "S"]

        def put(i, w):
            if inst[i][0] == "V":
                inst[i] = ("V", w)
            else:
                ws = list(inst[i][1])
                plainseg = len(set(ws)) == 1
                ws = [w] * n if plainseg else [w if q == a else x for q, x in enumerate(ws)]
                ri = [q for q, x in enumerate(route) if x[0] == "S" and x[1] == inst[i][1]][0]
                inst[i] = ("S", ws)
                route[ri] = ("S", ws)
        if inst:
            if word == "prefixed-first":
                put(0, pre)
            elif word == "equals-first":
                put(0, nmx)
            elif word == "prefixed-inner" and len(inst) > 1:
                put(rng.randrange(1, len(inst)), pre)
            elif word == "equals-inner" and len(inst) > 1:
                put(rng.randrange(1, len(inst)), nmx)
        table = [route] if (overlap == "unique" and not inst) or rng.random() < 0.3 else [[root], route]
        if rng.random() < 0.5:
            table.append([root, ("S", [plainword()] * n), ("P", "id")])
        nseg = len(inst)
        catch = [[root, ("W", "any")]]
        if nseg >= 1:
            catch.append([root] + [("P", "p%d" % i) for i in range(nseg)])
            catch.append([root] + [("P", "p%d" % i) for i in range(nseg - 1)] + [("O", "o")])
        if overlap == "shadowed" and inst and inst[0][0] == "V" and seg_ok(inst[0][1]):
            # a static route spelled like the captured value shadows the param/splat route
            catch.append([root, ("S", [inst[0][1]] * n)] + [("P", "p%d" % i) for i in range(nseg - 1)])
            if all(x[0] == "V" for x in inst):
                catch = catch[-1:]
        if overlap == "first-of-many":
            table.append(rng.choice(catch))
            if rng.random() < 0.4:
                table.append([root, ("W", "any")])
        elif overlap == "shadowed":
            table.insert(rng.choice([0, 1]), rng.choice(catch))
    segs = render(inst, a)
    query = pick(rng, force, "query")
    hform = pick(rng, force, "hash_form", [3, 2, 4, 1])
    search = rng.choice(QUERIES) if query == "yes" else ""
    hsh = {"none": "", "bare": rng.choice(HASHES), "browser": "#" + rng.choice(HASHES), "browser-##": rng.choice(["##x", "##top"])}[hform]
    sl = pick(rng, force, "slashes", [6, 2, 2])
    path = url(names, dflt, bsegs, a, segs)
    if explicit:
        path = "/" + "/".join(list(bsegs) + [names[a]] + list(segs))
    if sl == "trailing":
        path = path + "/" if path != "/" else "//"
    elif sl == "doubled":
        parts = path.split("/")
        cut = rng.randrange(1, len(parts)) if len(parts) > 1 else 1
        path = "/".join(parts[:cut]) + "//" + "/".join(parts[cut:])
        if path == "//":
            path = "///"
    c = {"names": names, "dflt": dflt, "bsegs": bsegs, "base": base, "atab": table, "inst": inst, "a": a, "b": b,
         "old": (None if locale_arg == "none" else a), "path": path, "search": search, "hash": hsh, "structured": True, "explicit": explicit,
         "intent": {"slashes": sl, "base": bk, "kinds": kinds, "overlap": overlap}}
    if hist_len != "0":
        ln = {"1": 1, "2": 2, "3": 3, "4+": rng.choice([4, 5, 6])}[hist_len]
        ls = [b] + [rng.randrange(n) for _ in range(ln - 1)]
        if ln > 1 and rng.random() < 0.7:
            ls[-1] = a
        c["ls"] = ls
        c["by_path"] = locale_arg == "path"
    return c


def in_domain(c):
    """the Python side's reading of `valid_url` / `hist_valid` (cross-checked against Coq's codes by the check)"""
    names, dflt, atab, n = c["names"], c["dflt"], c["atab"], len(c["names"])
    if not all(seg_ok(x) for x in names) or len(set(names)) != n or c["hash"] == "#":
        return False
    segs = render(c["inst"], c["a"])
    cur = c["a"]
    first = True
    if c.get("explicit") and c["old"] is None:
        return False
    for l in (c.get("ls") or [c["b"]]):
        if not all(seg_ok(s) for s in segs) or not ((first and c.get("explicit")) or readable(names, dflt, cur, segs)):
            return False
        first = False
        if "ls" in c and any(ch in "/".join(segs) for ch in "?#"):
            return False
        segs = expected_segs(n, atab, cur, l, segs)
        cur = l
    if "ls" in c and any(ch in "/".join(segs) for ch in "?#"):
        return False
    return True


def tags(c):
    names, dflt, n, a = c["names"], c["dflt"], len(c["names"]), c["a"]
    segs = render(c["inst"], a)
    t = {}
    t["names"] = "nested" if any(x != y and y.startswith(x) for x in names for y in names) else "flat"
    w = set()
    for i, s in enumerate(segs):
        pos = "first" if i == 0 else "inner"
        if s in names:
            w.add("equals-" + pos)
        elif any(s.startswith(x) and s != x for x in names):
            w.add("prefixed-" + pos)
    t["word"] = w or {"none"}
    t["src"] = "default" if a == dflt else "non-default"
    b = c["ls"][0] if "ls" in c else c["b"]
    t["dst"] = "same" if b == a else ("default" if b == dflt else "other")
    t["base"] = c["intent"]["base"]
    ks = c["intent"]["kinds"]
    kt = set()
    for i, k in enumerate(ks):
        pos = "first" if i == 0 else ("last" if i == len(ks) - 1 else "inner")
        kt.add("%s@%s" % (k, pos))
    t["kinds"] = kt or {"none"}
    ps = all_parses(n, a, c["atab"], segs)
    if not ps:
        t["overlap"] = "no-match"
    elif len(ps) == 1:
        t["overlap"] = "unique"
    else:
        t["overlap"] = "first-of-many" if ps[0] == list(c["inst"]) else "shadowed"
    t["query"] = "yes" if c["search"] else "no"
    h = c["hash"]
    t["hash_form"] = "none" if h == "" else ("browser-##" if h.startswith("##") else ("browser" if h.startswith("#") else "bare"))
    t["slashes"] = c["intent"]["slashes"]
    if "ls" in c:
        t["locale_arg"] = "path" if c["by_path"] else "ctx"
        t["hist_len"] = str(len(c["ls"])) if len(c["ls"]) < 4 else "4+"
    else:
        t["locale_arg"] = "none" if c["old"] is None else "ctx"
        t["hist_len"] = "0"
    t["prefix"] = "explicit-default" if c.get("explicit") and a == dflt else "canonical"
    return t


def cells_of(t):
    """all (dim, value) pairs a case contributes, and the cross-dimension pairs"""
    items = []
    for d in DIMS:
        v = t[d]
        for x in (sorted(v) if isinstance(v, set) else [v]):
            items.append((d, x))
    return items


class Table:
    def __init__(self):
        self.count = {}

    def add(self, t):
        items = cells_of(t)
        for (d1, v1), (d2, v2) in itertools.combinations(items, 2):
            if d1 != d2:
                self.count[(d1, v1, d2, v2)] = self.count.get((d1, v1, d2, v2), 0) + 1

    def all_cells(self):
        dims = list(DIMS)
        for i, d1 in enumerate(dims):
            for d2 in dims[i + 1:]:
                for v1 in DIMS[d1]:
                    for v2 in DIMS[d2]:
                        yield (d1, v1, d2, v2)

    def zero_cells(self, below=1):
        return [c for c in self.all_cells() if self.count.get(c, 0) < below and infeasible(*c) is None]


def satisfies(t, force):
    for d, v in force.items():
        tv = t[d]
        if (v not in tv) if isinstance(tv, set) else (tv != v):
            return False
    return True


def build(rng, n_random, max_tries=60, want=3):
    """random structured cases, then targeted generation for every pair of values not reached yet"""
    cases, table = [], Table()
    for _ in range(n_random):
        c = gen(rng)
        if in_domain(c):
            c["tags"] = tags(c)
            table.add(c["tags"])
            cases.append(c)
    filled, unreached = 0, []
    for _round in range(2 * want):
        zeros = table.zero_cells(want)
        if not zeros:
            break
        unreached = []
        for (d1, v1, d2, v2) in zeros:
            if table.count.get((d1, v1, d2, v2), 0) >= want:
                continue
            force = {d1: v1, d2: v2}
            ok = False
            for _ in range(max_tries):
                c = gen(rng, force)
                if not in_domain(c):
                    continue
                t = tags(c)
                if satisfies(t, force):
                    c["tags"] = t
                    c["forced"] = force
                    table.add(t)
                    cases.append(c)
                    filled += 1
                    ok = True
                    break
            if not ok and not table.count.get((d1, v1, d2, v2), 0):
                unreached.append((d1, v1, d2, v2))
    return cases, table, filled, unreached


def report(table, unreached):
    cells = list(table.all_cells())
    feas = [c for c in cells if infeasible(*c) is None]
    inf = {}
    for c in cells:
        r = infeasible(*c)
        if r is not None:
            inf.setdefault(r, []).append("%s=%s x %s=%s" % c)
    counts = [table.count.get(c, 0) for c in feas]
    per_dim_pair = {}
    for c in feas:
        k = "%s x %s" % (c[0], c[2])
        m = per_dim_pair.setdefault(k, {"cells": 0, "reached": 0, "min": None})
        m["cells"] += 1
        n = table.count.get(c, 0)
        m["reached"] += 1 if n else 0
        m["min"] = n if m["min"] is None else min(m["min"], n)
    return {
        "dimensions": {d: v for d, v in DIMS.items()},
        "cells_total": len(cells), "cells_feasible": len(feas), "cells_reached": sum(1 for n in counts if n),
        "min_count_over_feasible_cells": min(counts) if counts else 0,
        "zero_cells": ["%s=%s x %s=%s" % c for c in feas if table.count.get(c, 0) == 0],
        "unreached_after_targeted_generation": ["%s=%s x %s=%s" % c for c in unreached],
        "infeasible_cells": {r: (v if len(v) <= 12 else v[:12] + ["... %d more" % (len(v) - 12)]) for r, v in inf.items()},
        "infeasible_count": sum(len(v) for v in inf.values()),
        "per_dimension_pair": per_dim_pair,
    }
