"""C03 — missing keys fall back along the inheritance chain, then to the default.
Theorems: coq/theories/Props/C03.v over the model Parser/Merge.v.
Correspondence: harness h_merge drives leptos_i18n_parser::parse_locales_raw + make_builder_keys on
generated project directories and dumps DefaultedLocales::compute()/default_of() and every locale's
own value for every key path; Parser/MergeCheck.v evaluates spec_C03 on that output."""
import itertools
import json
import os

from checks import cov_merge as cm
from checks import merge_common as mc
from checks import pairwise
from vlib import core

THEOREMS = ["C03_default_of_spec", "C03_resolution", "C03_default_of_total", "C03_compute_partition",
            "C03_compute_targets", "C03_uniform",
            "C03_default_never_inherits", "C03_empty_is_defined", "C03_spec", "C03_resolves_iff"]
PROPS = "theories/Props/C03.v"
REGISTRY = {
    "level": "proof",
    "technique": "Coq proof over a Gallina model of check_locales/Locale::merge/ParsedValue::merge/DefaultedLocales + "
                 "differential correspondence (coqc vm_compute vs leptos_i18n_parser on generated projects)",
    "text": "Theorems C03_default_of_spec/C03_resolution/C03_default_of_total/C03_compute_partition/C03_compute_targets/"
            "C03_uniform/C03_default_never_inherits (Props/C03.v): for every finite inherits map (chains, forks, cycles, self "
            "loops, inheritance from the default), every set of locale files and every value path, the model's "
            "DefaultedLocales resolve each locale to the first locale of its inherits walk that defines the key, else the "
            "default; compute() groups the non-defining locales by that target and every target defines the key. C03_spec: the "
            "executable predicate spec_C03 holds of the model on every well-formed case; C03_resolves_iff: the inductive "
            "relation Resolves coincides with the function first_defined. The model is tied to /repo by running "
            "parse_locales on generated projects (all functional inherits graphs over <=4 locales in quick, <=5 in thorough, "
            "x all per-locale presence patterns of a key) and evaluating spec_C03 on the real output.",
    "design_ref": "DESIGN.md §5 C03",
    "note": "Trusted: Coq kernel + vm_compute; hand-written model Parser/Merge.v (tied by the correspondence run); value "
            "contents are opaque payload ids; plural merging and foreign keys are outside this model (C05/C06); serde_json "
            "and toml parsing are exercised, not modelled. No axioms.",
    "engine": "coq",
    "packages": [("h_merge", ("json",), "target_merge_json")],
}


def pattern_tree(state, ids):
    return {"D": lambda: ["L", ids()], "N": lambda: ["N"]}[state]()


GROUP_STATES = ["A", "N"] + ["G" + a + b for a in "DNA" for b in "DNA"]


def exhaustive_project(rng, n, inherits_roles, group_sample):
    """one project for one inherits graph over n locales (role 0 = default): its keys enumerate every
    presence pattern (defined / null / absent per non-default locale) of a leaf, and of a two-leaf group"""
    names = rng.sample(mc.LOCALE_POOL, n)
    ids = mc.Ids()
    files = {nm: {} for nm in names}
    pats = list(itertools.product("DNA", repeat=n - 1))
    for i, pat in enumerate(pats):
        k = "p%d" % i
        files[names[0]][k] = ["L", ids()]
        for nm, st in zip(names[1:], pat):
            if st != "A":
                files[nm][k] = pattern_tree(st, ids)
    gp = list(itertools.product(GROUP_STATES, repeat=n - 1))
    if len(gp) > group_sample:
        gp = rng.sample(gp, group_sample)
    for j, pat in enumerate(gp):
        k = "g%d" % j
        files[names[0]][k] = ["G", {"x": ["L", ids()], "y": ["L", ids()]}]
        for nm, st in zip(names[1:], pat):
            if st == "A":
                continue
            if st == "N":
                files[nm][k] = ["N"]
            else:
                d = {}
                for kk, s in zip("xy", st[1:]):
                    if s != "A":
                        d[kk] = pattern_tree(s, ids)
                files[nm][k] = ["G", d]
    listed = list(names)
    if rng.random() < 0.3:
        rng.shuffle(listed)          # the default is not always written first
    inh = {names[a]: names[b] for a, b in inherits_roles.items()}
    return mc.decorate(rng, {"default": names[0], "locales": listed, "inherits": inh, "namespaces": None,
                             "files": {"-/" + nm: ["G", files[nm]] for nm in names}, "roles": names}, prob=0.2)


def random_project(rng, allow_errors=True):
    n = rng.choice([1, 2, 3, 3, 4, 4, 5])
    names = rng.sample(mc.LOCALE_POOL, n)
    inh = {}
    for nm in names[1:]:
        if rng.random() < 0.6:
            inh[nm] = rng.choice(names)
    nss = None if rng.random() < 0.7 else rng.sample(mc.NS_POOL, rng.choice([1, 2]))
    ids = mc.Ids()
    files = {}
    p_mis = 0.04 if allow_errors and rng.random() < 0.15 else 0.0
    for ns in (nss or ["-"]):
        d = mc.gen_default_tree(rng, ids)
        if allow_errors and rng.random() < 0.04:
            k = rng.choice(sorted(d[1]))
            d[1][k] = ["N"]
        files["%s/%s" % (ns, names[0])] = d
        for nm in names[1:]:
            files["%s/%s" % (ns, nm)] = mc.derive_tree(rng, ids, d, p_absent=rng.choice([0.1, 0.3, 0.5]),
                                                        p_null=rng.choice([0.1, 0.3]), p_mismatch=p_mis)
    listed = list(names)
    c = rng.random()
    if c < 0.2:
        rng.shuffle(listed)
    elif c < 0.3 and n > 1:
        listed = listed[1:]          # the default left out of `locales`, but never named by `inherits` values here
        inh = {k: v for k, v in inh.items() if v != names[0]}
    p = {"default": names[0], "locales": listed, "inherits": inh, "namespaces": nss, "files": files, "roles": names}
    return mc.decorate(rng, p) if rng.random() < 0.6 else p


def corpus():
    """DESIGN §5/§9 shapes: self loop, 2-cycle, rho, explicit inheritance from the default, chain over a null group"""
    out = []

    def proj(names, inh, per_locale):
        return {"default": names[0], "locales": list(names), "inherits": inh, "namespaces": None, "roles": list(names),
                "files": {"-/" + nm: ["G", per_locale[i]] for i, nm in enumerate(names)}}
    out.append(proj(["en", "de"], {"de": "de"}, [{"a": ["L", 1]}, {}]))
    out.append(proj(["en", "de", "fr"], {"de": "fr", "fr": "de"}, [{"a": ["L", 1], "b": ["L", 2]}, {"a": ["N"]}, {"b": ["L", 3]}]))
    out.append(proj(["en", "de", "fr", "it"], {"it": "de", "de": "fr", "fr": "de"},
                    [{"a": ["L", 1], "b": ["L", 2]}, {"a": ["N"]}, {"b": ["L", 3]}, {}]))
    out.append(proj(["en", "fr", "fr-CA"], {"fr-CA": "fr", "fr": "en"},
                    [{"a": ["L", 1], "g": ["G", {"x": ["L", 2], "y": ["L", 3]}]},
                     {"a": ["L", 4], "g": ["G", {"x": ["L", 5], "y": ["N"]}]},
                     {"a": ["N"], "g": ["N"]}]))
    out.append(proj(["en", "fr", "fr-CA"], {"fr-CA": "fr"},
                    [{"g": ["G", {"h": ["G", {"x": ["L", 1]}], "y": ["L", 2]}]},
                     {"g": ["G", {"h": ["G", {"x": ["L", 3]}]}]},
                     {}]))
    # defined but empty: fr's tail is "$t(suffix)" with suffix "", fr-CA inherits fr and has no tail: both use fr's
    # empty text, not en's "!" (seeded change C03e); plain "" and a component with empty children as controls
    sfx = lambda pay, txt=None: ["L", pay] if txt is None else ["L", pay, txt]      # noqa: E731
    out.append(proj(["en", "fr", "fr-CA"], {"fr-CA": "fr"},
                    [{"suffix": sfx(1), "tail": sfx(1, "$t(suffix)"), "e": sfx(2), "c": sfx(4)},
                     {"suffix": sfx(mc.EMPTY, ""), "tail": sfx(mc.EMPTY, "$t(suffix)"), "e": sfx(mc.EMPTY, ""), "c": sfx(mc.OTHER, "<b></b>")},
                     {"suffix": ["N"]}]))
    out.append(proj(["en", "fr"], {}, [{"suffix": sfx(mc.EMPTY, ""), "tail": sfx(mc.EMPTY, "$t(suffix)")}, {"suffix": sfx(5)}]))
    return out


def gen_projects(ctx):
    rng = ctx.rng
    projs = [("corpus", p) for p in corpus()]
    max_n = 4 if ctx.quick else 5
    for n in range(1, max_n + 1):
        roles = list(range(n))
        for combo in itertools.product([None] + roles, repeat=n - 1):
            inh = {i + 1: c for i, c in enumerate(combo) if c is not None}
            projs.append(("exhaustive", exhaustive_project(rng, n, inh, 24 if n <= 4 else 12)))
    for _ in range(250 if ctx.quick else 2500):
        projs.append(("random", random_project(rng)))
    return projs


def presence(tree, path):
    t = tree
    for k in path:
        if t[0] != "G" or k not in t[1]:
            return "A"
        t = t[1][k]
    return {"L": "D", "N": "N", "G": "G"}[t[0]]


def leaf_paths(tree, pre=()):
    for k, v in tree[1].items():
        if v[0] == "G":
            yield from leaf_paths(v, pre + (k,))
        else:
            yield pre + (k,)


def coverage_keys(p):
    """distinct (inherits graph by role, per-locale presence) pairs this project exercises; non-trivial when some
    inheriting locale does not define the key"""
    roles = p["roles"]
    g = tuple(sorted((roles.index(k), roles.index(v)) for k, v in p["inherits"].items()))
    out = set()
    for ns in (p["namespaces"] or ["-"]):
        d = p["files"]["%s/%s" % (ns, roles[0])]
        for path in leaf_paths(d):
            pres = tuple(presence(p["files"]["%s/%s" % (ns, r)], path) for r in roles[1:])
            if any(pr != "D" and roles[i + 1] in p["inherits"] for i, pr in enumerate(pres)):
                out.add((len(roles), g, pres))
    return out


def run(ctx):
    from checks import isolate
    isolate.enter(ctx)
    exe = mc.build_variant(ctx, ["json"])
    ok, problems = core.coq_audit(ctx, PROPS, THEOREMS)
    projs = gen_projects(ctx)
    metas, codes = mc.evaluate(ctx, exe, projs, False, "n", "check_C03s")
    # the suppress_key_warnings build chooses DefaultTo::Explicit(default) instead of Implicit: same resolution
    exe_s = mc.build_variant(ctx, ["json", "suppress"])
    sub = [kp for kp in projs if kp[0] != "exhaustive"] + [kp for kp in projs if kp[0] == "exhaustive"][:60]
    metas_s, codes_s = mc.evaluate(ctx, exe_s, sub, True, "s", "check_C03s")
    metas, codes = metas + metas_s, codes + codes_s
    # pairwise coverage of the quantifier's dimensions; directed cases fill the empty feasible cells
    table = pairwise.Table(cm.C03_DIMS, cm.c03_infeasible)
    pairwise.add_all(table, [o for m in metas for o in cm.c03_tags(m["project"], "suppress" if m["suppress"] else "normal")])
    gaps_before = ["%s=%s x %s=%s" % c for c in table.gaps()]
    directed = pairwise.greedy(table, ctx.rng, cm.c03_draw, lambda sc: cm.c03_build(ctx.rng, sc),
                               lambda p: cm.c03_tags(p, "normal") + cm.c03_tags(p, "suppress"))
    if directed:
        dp = [("directed", p) for p in directed]
        m1, c1 = mc.evaluate(ctx, exe, dp, False, "dn", "check_C03s")
        m2, c2 = mc.evaluate(ctx, exe_s, dp, True, "ds", "check_C03s")
        metas, codes = metas + m1 + m2, codes + c1 + c2
    pw = table.report()
    pw["zero_cells_before_directed_cases"] = gaps_before[:80]
    pw["zero_cells_before_directed_cases_count"] = len(gaps_before)
    pw["directed_cases"] = len(directed)
    bad = [m for m, c in zip(metas, codes) if c == 3]
    dis = [m for m, c in zip(metas, codes) if c == 2]
    skipped = [m for m, c in zip(metas, codes) if c == 1]
    panics = [m for m in metas if m["impl"].get("kind") == "panic"]
    if bad:
        bad.sort(key=lambda m: mc.size_of(m["project"]))
        small = mc.shrink(ctx, exe_s if bad[0]["suppress"] else exe, bad[0], "check_C03s")
        core.violation(ctx, "spec", {
            "failing_input": {"project": small, "cargo_toml": mc.cargo_toml(small),
                              "files": {k: mc.tree_obj(t) for k, t in small["files"].items()},
                              "suppress_key_warnings": bad[0]["suppress"]},
            "impl_output_unshrunk": bad[0]["impl"], "count": len(bad),
            "result_class": {"hang": "HANG (no answer within the per-project time limit)", "panic": "PANIC"}.get(
                bad[0]["impl"].get("kind"), "WRONG-ANSWER"),
            "explanation": "spec_C03 (Parser/MergeCheck.v) is false on the implementation's output: some locale is not "
                           "resolved to the first locale of its inherits walk that defines the key (else the default), or "
                           "compute() is not the partition of the non-defining locales by that target, or the result/err "
                           "status does not match the input"})
    elif dis or not ok:
        core.violation(ctx, "correspondence", {
            "broken": ("theorem/audit: " + "; ".join(problems)) if not ok else
                      "correspondence Parser/Merge.v (check_locales) vs leptos_i18n_parser::parse_locales",
            "first_disagreeing_input": (dis or [None])[0], "disagreements": len(dis)}, no_input=True)
    cov = set()
    for m in metas:
        cov |= coverage_keys(m["project"])
    hist = {}
    for m in metas:
        key = "%s,locales=%d,inherits=%d%s" % (m["kind"], len(m["project"]["roles"]), len(m["project"]["inherits"]),
                                              ",suppress" if m["suppress"] else "")
        hist[key] = hist.get(key, 0) + 1
    n_entries = sum(m["impl"].get("n_entries", 0) for m in metas)
    core.write_evidence(ctx, {
        "evaluations": len(metas), "distinct_nontrivial": len(cov), "key_paths_observed": n_entries,
        "rule": "corpus (self loop, 2-cycle, rho, inheritance from default, nested null group) first; then ALL functional "
                "inherits graphs over 1..%d locales, each as one project whose keys enumerate all 3^(n-1) presence patterns "
                "(defined/null/absent per non-default locale) of a leaf and up to 24 patterns of a two-leaf group; then random "
                "projects (1-5 locales, nested groups, namespaces, surplus keys, null in default, group/value mismatch); a "
                "subset is repeated on the suppress_key_warnings build. distinct_nontrivial counts distinct (number of "
                "locales, inherits graph by role, presence pattern of the key) where an inheriting locale does not define "
                "the key" % (4 if ctx.quick else 5),
        "directed_rule": "Then directed projects: every pair of values of the quantifier's dimensions (evidence field `pairwise`) that the above left empty and that is feasible is filled by a project built for it (checks/cov_merge.py), run on both builds.",
        "samples": [{"project": m["project"], "impl": m["impl"]["raw"][:600]} for m in metas[:2] + metas[-2:]],
        "traces_validated_against_impl": len(metas), "disagreements": len(dis), "spec_failures_on_impl": len(bad),
        "skipped_outside_model": len(skipped), "panics": len(panics), "hangs": sum(1 for m in metas if m["impl"].get("kind") == "hang"),
        "not_run_after_hangs": getattr(ctx, "not_run", 0), "error_results": sum(1 for m in metas if m["impl"].get("kind") not in ("ok", "panic")),
        "input_distribution": hist, "audit_problems": problems, "pairwise": pw,
    }, assumptions=[
        "leaf values are opaque: written as the literal v<id> (every 7th with an interpolated variable), identified in the "
        "harness output by that literal",
        "key names never end in a plural suffix, so merge_plurals is the identity on the generated files",
        "the locale order used for the case is ConfigFile.locales as printed by the harness (normalisation is C19's subject)"])


def replay(ctx, path):
    from checks import isolate
    isolate.enter(ctx)
    obj = json.load(open(path))
    fi = obj.get("failing_input") or {}
    p = fi.get("project")
    if not p:
        print(json.dumps(obj, indent=1))
        return 0
    sup = bool(fi.get("suppress_key_warnings"))
    exe = mc.build_variant(ctx, ["json", "suppress"] if sup else ["json"])
    metas, codes = mc.evaluate(ctx, exe, [("replay", p)], sup, "replay", "check_C03s")
    print(mc.cargo_toml(p))
    print(json.dumps(fi.get("files"), indent=1))
    print("implementation:", metas[0]["impl"]["raw"])
    print("check_C03s =", codes[0], "(3 = spec violated, 2 = differs from model, 0 = ok)")
    if codes[0] == 3:
        print("VIOLATION property=C03 replay=%s" % path)
        return 1
    return 0
