"""C15 — initial locale resolution follows the documented precedence.
Theorems: coq/theories/Props/C15.v over the model Runtime/Resolve.v.
Correspondence: harness h_ctx creates real contexts (init_i18n_context_with_options, resolve_locale_with_options,
init_i18n_subcontext_with_options) natively with injected Cookie / Accept-Language getters, for the whole
combination matrix; the Coq spec predicate is evaluated on the implementation's answers."""
import itertools
import json
import os
import urllib.parse

from vlib import core
from checks.C12 import Interner, coq_langid

THEOREMS = ["C15_main", "C15_resolve", "C15_sub", "C15_invalid_cookie", "C15_spec", "C15_cookie_unique"]
PROPS = "theories/Props/C15.v"
REGISTRY = {
    "level": "proof",
    "technique": "Coq proof over a Gallina model of fetch_locale.rs/context.rs/locale.rs resolution + exhaustive differential "
                 "correspondence against natively created contexts (ssr build, live effects)",
    "text": "Theorems C15_main/C15_sub/C15_invalid_cookie/C15_spec (Props/C15.v): for every application, cookie jar, options and "
            "accepted-language list the model's initial locale is the valid cookie's locale, else (sub-context) the explicit "
            "initial locale, else the parent's locale, else C12's negotiated locale (default when nothing matches); an invalid "
            "cookie gives the same result as no cookie. The model is tied to /repo by creating real contexts for the whole matrix "
            "{cookie absent/valid/invalid/padded/duplicated} x {cookies default/off/on} x {default/custom name} x Accept-Language "
            "headers x {no parent, parent in each locale} x {initial given or not} and evaluating the Coq spec on the answers.",
    "design_ref": "DESIGN.md §5 C15",
    "note": "Trusted: Coq kernel + vm_compute; hand-written model Runtime/Resolve.v; the cookie crate's header parsing, "
            "leptos-use's Accept-Language splitting and icu_locid parsing are oracles read back through the real libraries; "
            "client-side sources (navigator.languages, <html lang>) need a browser and are not covered. No axioms.",
    "engine": "coq",
    "packages": [("h_ctx",)],
}
PRE = ("From Coq Require Import List NArith Bool.\nImport ListNotations.\n"
       "From LI Require Import Base.StrOps Runtime.Langid Runtime.Resolve Runtime.ResolveCheck.\nOpen Scope N_scope.\n")

DEFAULT_NAME = "i18n_pref_locale"


def enc(s):
    """hex of the UTF-8 bytes; None -> '-'; the empty string -> '' is not splittable, so it is sent as '.'"""
    if s is None:
        return "-"
    return s.encode().hex() if s else "."


def unhex(s):
    return bytes.fromhex(s).decode()


# ------------------------------------------------------------------ talking to the harness

def exe_path(bindir):
    return os.path.join(bindir, "h_ctx")


def run_harness(exe, lines, timeout=900):
    """returns (universe line, output lines); stderr (leptos' debug warnings) is discarded"""
    inp = "".join(l + "\n" for l in lines)
    rc, out, err = core.sh("%s 2>/dev/null" % exe, input=inp, timeout=timeout)
    ls = out.splitlines()
    if rc != 0 or not ls or not ls[0].startswith("U ") or len(ls) != len(lines) + 1:
        raise core.Infra("h_ctx: rc=%s, %d lines for %d scenarios; %s" % (rc, len(ls), len(lines), err[-300:]))
    return ls[0][2:], ls[1:]


def parse_universe(u):
    names, flds = [], []
    for ent in u.split(","):
        n, f = ent.split(":")
        names.append(unhex(n))
        flds.append(f)
    return names, flds


def line_of(sc):
    if sc["kind"] == "main":
        e = "-" if sc["enable"] is None else ("1" if sc["enable"] else "0")
        return "15 M %s %s %s %s" % (e, enc(sc["name"]), enc(sc["cookie"]), enc(sc["accept"]))
    acc = "N" if sc["accept"] == "N" else enc(sc["accept"])
    return "15 S %s %s %s %s %s" % ("-" if sc["parent"] is None else sc["parent"], "-" if sc["initial"] is None else sc["initial"],
                                     enc(sc["name"]), enc(sc["cookie"]), acc)


def parse_out(line):
    if line == "PANIC" or line.startswith("BAD"):
        return None
    d = {}
    for part in line.split("|"):
        d[part[0]] = part[2:]
    jar = None
    if d["J"] != "-":
        jar = []
        for ent in d["J"][1:-1].split(","):
            if ent:
                n, v = ent.split(":")
                jar.append((unhex(n), unhex(v)))
    acc = []
    body = d["A"][1:-1]
    for ent in body.split(","):
        p, f = ent.split(":")
        acc.append((unhex(p), f))
    return {"L": int(d["L"]), "R": int(d["R"]) if "R" in d else None, "T": int(d["T"]), "P": d.get("P"),
            "jar": jar, "accept": acc, "set_cookie": d.get("W", "")}


# ------------------------------------------------------------------ the generator's own expectations of the oracles

def predict_jar(cookie):
    if cookie is None:
        return None
    out = []
    for part in cookie.split(";"):
        if "=" not in part:
            continue
        n, v = part.split("=", 1)
        n, v = n.strip(), v.strip()
        if not n:
            continue
        out.append((urllib.parse.unquote(n), urllib.parse.unquote(v)))
    return out


def predict_accept(header):
    h = header if header not in (None, "N") else ""
    return [p.split(";", 1)[0] for p in h.split(",")]


# ------------------------------------------------------------------ Coq terms

class Tables:
    """shared definitions placed in the preamble so case terms stay small"""

    def __init__(self, names, flds):
        self.intern = Interner()
        self.defs = []
        self.jars = {}
        self.accs = {}
        self.strs = {}
        ids = core.coq_list([coq_langid(f, self.intern) for f in flds])
        self.defs.append("Definition APP_ := mk_app %s %s." % (core.coq_list([core.coq_str(n) for n in names]), ids))

    def s(self, x):
        if x not in self.strs:
            self.strs[x] = "S%d_" % len(self.strs)
            self.defs.append("Definition %s : str := %s." % (self.strs[x], core.coq_str(x)))
        return self.strs[x]

    def jar(self, j):
        if j is None:
            return "None"
        k = tuple(j)
        if k not in self.jars:
            self.jars[k] = "J%d_" % len(self.jars)
            self.defs.append("Definition %s : jar := %s." % (
                self.jars[k], core.coq_list(["(%s, %s)" % (self.s(n), self.s(v)) for n, v in j])))
        return "(Some %s)" % self.jars[k]

    def acc(self, a):
        k = tuple(f for _, f in a)
        if k not in self.accs:
            self.accs[k] = "A%d_" % len(self.accs)
            self.defs.append("Definition %s : list (option langid) := %s." % (
                self.accs[k], core.coq_list(["None" if f == "!" else "(Some %s)" % coq_langid(f, self.intern) for f in k])))
        return self.accs[k]

    def preamble(self):
        return PRE + "\n".join(self.defs) + "\n"


def coq_case(sc, o, tb):
    if sc["kind"] == "main":
        en = "true" if sc["enable"] in (None, True) else "false"     # default: ENABLE_COOKIE (feature on)
        name = tb.s(sc["name"]) if sc["name"] is not None else "COOKIE_PREFERED_LANG"
        scn = "(Main (mk_main_opts %s %s %s %s))" % (en, name, tb.jar(o["jar"]), tb.acc(o["accept"]))
        return "(mk_case APP_ true %s %d (Some %d) %d)" % (scn, o["L"], o["R"], o["T"])
    name = "None" if sc["name"] is None else "(Some %s)" % tb.s(sc["name"])
    scn = "(Sub (mk_sub_opts %s %s %s %s %s))" % (core.coq_opt(sc["initial"]), name, tb.jar(o["jar"]), tb.acc(o["accept"]),
                                                   core.coq_opt(sc["parent"]))
    return "(mk_case APP_ true %s %d None %d)" % (scn, o["L"], o["T"])


# ------------------------------------------------------------------ the matrix

ACCEPTS_FULL = [None, "", "de", "fr-CA,fr;q=0.9,en;q=0.8", "it,fr-FR", "it, fr-FR", "pt", "pt-PT,pt;q=0.9,de;q=0.1", "*",
                "zh-CN,zh;q=0.9", "en-US,de;q=0.5", "de-CH,fr;q=0.5", "xx-,,de", "fr-FR;q=0.8,pt-BR", "FR-ca", "und-BR"]
ACCEPTS_SUB = [None, "N", "", "de", "it, fr-FR", "fr-CA,fr;q=0.9", "pt-PT", "zz,en-GB;q=0.4,pt"]


def cookie_states(name, other):
    """cookie header values for the cookie called `name` (other = a second cookie name that must not be read)"""
    st = [("absent", None), ("empty-header", ""), ("other-only", "%s=de" % other), ("other-only2", "theme=dark; %s=fr" % other)]
    for v in ("fr", "fr-CA", "pt-BR", "en"):
        st.append(("valid", "%s=%s" % (name, v)))
    st.append(("valid-padded", "%s=%%20fr-CA%%20" % name))
    st.append(("valid-among", "a=b; %s=de; %s=fr" % (name, other)))
    st.append(("valid-dup", "%s=fr; %s=de" % (name, name)))
    for v in ("xx", "FR", "", "fr_CA", "fr-ca", "fr-", "fr%2C", "french", "pt"):
        st.append(("invalid", "%s=%s" % (name, v)))
    st.append(("invalid-dup", "%s=fr; %s=zz" % (name, name)))
    return st


def matrix(ctx):
    cases = []
    # corpus first: the documented table rows and the Accept-Language whitespace observation
    cases.append({"kind": "main", "enable": None, "name": None, "cookie": "i18n_pref_locale=fr", "accept": "de", "state": "valid"})
    cases.append({"kind": "main", "enable": None, "name": None, "cookie": "i18n_pref_locale=xx", "accept": "de-DE,de;q=0.9", "state": "invalid"})
    cases.append({"kind": "main", "enable": None, "name": None, "cookie": None, "accept": "it, fr-FR", "state": "absent"})
    cases.append({"kind": "sub", "parent": 3, "initial": 1, "name": "sub_locale", "cookie": "sub_locale=pt-BR", "accept": "fr", "state": "valid"})
    accepts = ACCEPTS_FULL if not ctx.quick else ACCEPTS_FULL[:10]
    for enable in (None, False, True):
        for name in (None, "my_locale"):
            real = name or DEFAULT_NAME
            other = DEFAULT_NAME if name else "my_locale"
            for st, cookie in cookie_states(real, other):
                for acc in accepts:
                    cases.append({"kind": "main", "enable": enable, "name": name, "cookie": cookie, "accept": acc, "state": st})
    sub_states = [s for s in cookie_states("sub_locale", DEFAULT_NAME)
                  if ctx.quick is False or s[1] in (None, "sub_locale=fr-CA", "sub_locale=%20fr-CA%20", "sub_locale=xx",
                                                    "sub_locale=", "i18n_pref_locale=de", "sub_locale=fr; sub_locale=zz")]
    for parent in (None, 0, 1, 2, 3, 4):
        for initial in (None, 0, 2, 4):
            for name in (None, "sub_locale"):
                for st, cookie in sub_states:
                    for acc in (ACCEPTS_SUB if not ctx.quick else ACCEPTS_SUB[:5]):
                        cases.append({"kind": "sub", "parent": parent, "initial": initial, "name": name, "cookie": cookie,
                                      "accept": acc, "state": st})
    # a few random headers on top (seeded)
    rng = ctx.rng
    toks = ["fr", "fr-CA", "fr-FR", "de", "de-AT", "pt", "pt-BR", "pt-PT", "en", "en-GB", "it", "zz", "*", " fr", "fr ", "und", "x"]
    for _ in range(60 if ctx.quick else 600):
        h = ",".join(rng.choice(toks) + (";q=0.%d" % rng.randint(1, 9) if rng.random() < 0.4 else "") for _ in range(rng.randint(1, 4)))
        cases.append({"kind": "main", "enable": rng.choice([None, False, True]), "name": None,
                      "cookie": rng.choice([None, "i18n_pref_locale=" + rng.choice(["fr", "de", "zz", "pt-BR", " en"])]),
                      "accept": h, "state": "random"})
    return cases


def evaluate(ctx, exe, cases):
    u, outs = run_harness(exe, [line_of(c) for c in cases])
    names, flds = parse_universe(u)
    tb = Tables(names, flds)
    items, meta, panics, oracle = [], [], [], []
    for sc, line in zip(cases, outs):
        o = parse_out(line)
        if o is None:
            panics.append(sc)
            continue
        pj = predict_jar(sc["cookie"])
        if pj != o["jar"]:
            oracle.append({"cookie_header": sc["cookie"], "generator_expected_jar": pj, "cookie_crate_parsed": o["jar"]})
        pa = predict_accept(sc["accept"])
        if pa != [p for p, _ in o["accept"]]:
            oracle.append({"accept_header": sc["accept"], "generator_expected": pa, "leptos_use_list": [p for p, _ in o["accept"]]})
        items.append(coq_case(sc, o, tb))
        meta.append({"scenario": sc, "harness_line": line_of(sc), "impl": {"created": names[o["L"]],
                     "resolve_locale": None if o["R"] is None else names[o["R"]], "after_flush": names[o["T"]],
                     "parent_after": o["P"], "set_cookie": o["set_cookie"]},
                     "oracle_jar": o["jar"], "oracle_accept": o["accept"]})
    codes = core.coq_eval(ctx, "c15", tb.preamble(), items, "check")
    return names, meta, codes, panics, oracle, tb, items


def size_key(m):
    sc = m["scenario"]
    return (len(sc.get("cookie") or ""), len(sc.get("accept") or ""), sc["kind"] == "sub", sc.get("name") is not None)


def run(ctx):
    from checks import isolate
    isolate.enter(ctx)
    bindir = core.cargo_build("h_ctx")
    ok, problems = core.coq_audit(ctx, PROPS, THEOREMS)
    exe = exe_path(bindir)
    cases = matrix(ctx)
    names, meta, codes, panics, oracle, tb, items = evaluate(ctx, exe, cases)
    bad = [m for m, c in zip(meta, codes) if c == 3]
    dis = [m for m, c in zip(meta, codes) if c == 2]
    skipped = sum(1 for c in codes if c == 1)
    if bad:
        bad.sort(key=size_key)
        for m in bad[:5]:
            m["explanation"] = ("spec_C15 (Coq, Runtime/Resolve.v) is false on the locale the implementation chose: it is not the "
                                "valid cookie's locale / explicit initial / parent's locale / negotiated locale in that order")
        core.violation(ctx, "spec", {"failing_input": bad[0], "more": bad[1:5], "count": len(bad)})
    elif panics:
        core.violation(ctx, "panic", {"failing_input": panics[0], "explanation": "context creation panicked"})
    elif dis or oracle or not ok:
        core.violation(ctx, "correspondence", {
            "broken": ("theorem/audit: " + "; ".join(problems)) if not ok else
                      "correspondence Runtime/Resolve.v (init_main/resolve_locale/init_sub) vs leptos_i18n context creation",
            "first_disagreeing_input": (dis or [None])[0], "disagreements": len(dis), "oracle_mismatch": oracle[:5]}, no_input=True)
    hist = {}
    nontrivial = set()
    for m in meta:
        sc = m["scenario"]
        key = "%s/cookie=%s" % (sc["kind"], sc["state"])
        hist[key] = hist.get(key, 0) + 1
        if sc.get("cookie") is not None or sc.get("accept") not in (None, "", "N"):
            nontrivial.add(m["harness_line"])
    ws = [m for m in meta if any(p.startswith(" ") and f == "!" for p, f in m["oracle_accept"])]
    core.write_evidence(ctx, {
        "evaluations": len(meta), "distinct_nontrivial": len(nontrivial),
        "rule": "exhaustive matrix {cookies default/off/on} x {default/custom cookie name} x 21 cookie-header states (absent, other "
                "cookie only, valid, padded, among others, duplicated, 9 invalid values) x Accept-Language headers for main contexts and "
                "resolve_locale_with_options; {no parent, parent in each of 5 locales} x {initial none/3 locales} x {cookie name "
                "none/given} x cookie states x headers for sub-contexts; plus seeded random headers; non-trivial = a cookie header or "
                "a non-empty Accept-Language header is present; distinct by scenario line",
        "samples": meta[:4] + meta[len(meta) // 2:len(meta) // 2 + 2],
        "traces_validated_against_impl": len(meta),
        "disagreements": len(dis), "spec_failures_on_impl": len(bad), "oracle_mismatches": len(oracle), "skipped_unmodelled": skipped,
        "input_distribution": hist, "audit_problems": problems,
        "observations": {
            "accept_language_whitespace": "leptos-use splits Accept-Language on ',' without trimming: %d scenarios contain an entry "
                                          "with a leading space that icu_locid rejects (e.g. 'it, fr-FR' -> ' fr-FR' dropped); external "
                                          "library behaviour, treated as oracle input, not raised" % len(ws)},
    }, assumptions=[
        "cookie crate header parsing, leptos-use Accept-Language splitting and icu_locid parsing are oracles: their results are inputs "
        "of the model, read back through the real libraries; the generator's own prediction of both is compared with them",
        "harness build = ssr feature (server IO paths) + reactive_graph/effects (live effects): not a production configuration",
        "client-side sources (navigator.languages, <html lang> under hydrate) are not exercised"])


def replay(ctx, path):
    from checks import isolate
    isolate.enter(ctx)
    obj = json.load(open(path))
    fi = obj.get("failing_input") or obj.get("first_disagreeing_input")
    if not fi or "scenario" not in fi:
        print(json.dumps(obj, indent=1))
        return 0
    bindir = core.cargo_build("h_ctx")
    names, meta, codes, panics, oracle, tb, items = evaluate(ctx, exe_path(bindir), [fi["scenario"]])
    if panics:
        print("implementation: PANIC")
        return 1
    print("scenario:", json.dumps(fi["scenario"]))
    print("implementation:", json.dumps(meta[0]["impl"]))
    print("model:", core.coq_show(ctx, tb.preamble(), "match c_scn %s with Main o => init_main true APP_ o | Sub o => init_sub true APP_ o end" % items[0]))
    print("check code (0 ok, 2 model differs, 3 spec violated):", codes[0])
    return 1 if codes[0] == 3 else 0
