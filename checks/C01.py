"""C01 — rendered text is exactly what the translation source says.
Parser level: strings printed from generated source ASTs are parsed and reduced by the implementation; the
Coq predicate check_C01 compares the pieces of the implementation's value with the source's denotation,
and the model's trees with the implementation's.  Theorems: coq/theories/Props/C01.v."""
import json

from vlib import core
from checks import parsegen, parse_common

THEOREMS = ["C01_roundtrip", "C01_reduce_sound", "C01_closing_tag_found", "C01_wf_witness", "C01_old_refuted"]
PROPS = "theories/Props/C01.v"
PROPS_B = "theories/Props/C01b.v"
PROPS_C = "theories/Props/C01c.v"
THEOREMS_C = ["C01_end_to_end"]
THEOREMS_B = ["C01_codegen_view", "C01_codegen_string", "C01_tuple_order", "C01_tuple_order_eval", "C01_flatten_atoms",
              "C01_either_exists", "C01_either_in_range", "C01_either_injective", "C01_tuple_width"]
REGISTRY = {
    "level": "proof",
    "technique": "Coq proof (round trip parse∘print on the documented grammar, reduce soundness) + differential correspondence with ParsedValue::new/reduce",
    "text": "C01_end_to_end (composition): loading the printed source and evaluating the generated view / string code renders exactly the source; C01_roundtrip: for every well-formed source AST (text, {{var[, formatter]}}, components nested to any depth incl. same-name "
            "nesting, any whitespace padding) parse(print src) succeeds and reduce of it denotes exactly the source's pieces; "
            "C01_reduce_sound for every value; C01_closing_tag_found for the tag scan. The model (Parser/Parse.v, Reduce.v) is tied to "
            "/repo by running ParsedValue::new and reduce on generated strings and comparing trees; the Coq spec predicate is evaluated on "
            "the implementation's reduced values against the source AST. Code generation: Props/C01b.v (evaluating the generated view / "
            "string term equals the value's pieces, tuple order and width, EitherOf wrapping), whose correspondence (generated probe crates: "
            "td!/td_string!/t! output vs the source AST) runs in the C02 check. Partial: leptos' HTML rendering is observed, not modelled.",
    "design_ref": "DESIGN.md §5 C01",
    "note": "Trusted: Coq kernel + vm_compute; hand-written model tied by correspondence; syn::Ident and serde_json are oracles "
            "(theorems quantify over them); Python generator; h_parser harness. No axioms.",
    "engine": "coq",
    "packages": [("h_parser",)],
}


def shrink_items(items, pred):
    """remove siblings / unwrap components while pred stays true"""
    changed = True
    while changed:
        changed = False
        for i in range(len(items)):
            cand = items[:i] + items[i + 1:]
            if pred(cand):
                items, changed = cand, True
                break
            if items[i][0] == "C":
                cand = items[:i] + list(items[i][4]) + items[i + 1:]
                if pred(cand):
                    items, changed = cand, True
                    break
    return items


def run(ctx):
    from checks import isolate
    isolate.enter(ctx)
    ok, problems, infos = True, [], []
    # parser level (Props/C01.v), code generation (Props/C01b.v, correspondence in checks/C02.py), composition (Props/C01c.v)
    for props, thms in ((PROPS, THEOREMS), (PROPS_B, THEOREMS_B), (PROPS_C, THEOREMS_C)):
        o, pr = core.coq_audit(ctx, props, thms)
        ok, problems = ok and o, problems + pr
        infos.append(ctx.coq_info)
    if all(ci.get("built") for ci in infos):
        closure = list(dict.fromkeys(f for ci in infos for f in ci["closure"]))
        nq = 0
        import re as _re
        for f in closure:
            nq += len(_re.findall(r"\bQed\.", core.strip_comments(open(core.COQ + "/" + f).read())))
        ctx.coq_info = {"built": True, "closure": closure, "theorems": [t for ci in infos for t in ci["theorems"]],
                        "qed_in_closure": nq, "assumptions": {k: v for ci in infos for k, v in ci["assumptions"].items()},
                        "sources_sha256": "+".join(ci["sources_sha256"] for ci in infos),
                        "targets": ["theories/Props/C01.vo", "theories/Props/C01b.vo", "theories/Props/C01c.vo"]}
    else:
        ctx.coq_info = [ci for ci in infos if not ci.get("built")][0]
    n_valid, n_mal = (2000, 700) if ctx.quick else (25000, 8000)
    cases = parsegen.gen_cases(ctx.rng, n_valid, n_mal)
    meta, codes, _ = parse_common.evaluate(ctx, "c01", cases, "check_C01")
    bad = [(m, c) for m, c, cs in zip(meta, codes, cases) if c == 3]
    bad_cases = [cs for cs, c in zip(cases, codes) if c == 3]
    disagree = [m for m, c in zip(meta, codes) if c == 2]
    unmodelled = sum(1 for c in codes if c == 1)
    if bad:
        idx = min(range(len(bad_cases)), key=lambda i: len(bad_cases[i][0]))
        items = bad_cases[idx][1]

        def still_bad(its):
            m2, c2, _ = parse_common.evaluate(ctx, "c01s", [(parsegen.print_items(its), its, "shrink")], "check_C01")
            return c2[0] == 3
        small = shrink_items(items, still_bad) if parsegen.count_nodes(items) <= 25 else items
        s = parsegen.print_items(small)
        m2, _, _ = parse_common.evaluate(ctx, "c01s", [(s, small, "shrink")], "check_C01")
        core.violation(ctx, "spec", {
            "failing_input": s, "code_points": [ord(c) for c in s], "source_ast": parsegen.coq_items(small),
            "implementation_value": m2[0]["impl"], "implementation_reduced": m2[0]["impl_reduced"],
            "expected_pieces": core.coq_show(ctx, parse_common.PRE, "denote_list %s" % parsegen.coq_items(small)),
            "explanation": "pieces (reduce (ParsedValue::new s)) differ from the denotation of the source AST the string was printed from",
            "count": len(bad)})
    elif disagree or not ok:
        d = disagree[0] if disagree else None
        core.violation(ctx, "correspondence", {
            "broken": ("theorem/audit: " + "; ".join(problems)) if not ok else
                      "correspondence Parser/Parse.v + Parser/Reduce.v vs ParsedValue::new / reduce (tree differs)",
            "first_disagreeing_input": d, "model": parse_common.show_model(ctx, d["input"]) if d else None,
            "disagreements": len(disagree)}, no_input=True)
    sizes = {}
    for cs in cases:
        if cs[1] is not None:
            k = "nodes=%d" % min(parsegen.count_nodes(cs[1]), 12)
            sizes[k] = sizes.get(k, 0) + 1
    distinct = len(set(cs[0] for cs in cases if cs[1] is not None and parsegen.count_nodes(cs[1]) >= 2))
    core.write_evidence(ctx, {
        "evaluations": len(meta), "distinct_nontrivial": distinct,
        "rule": "source ASTs (text / {{var[, formatter]}} / <comp>kids</comp>, nesting <= 5, same-name nesting, Unicode text and "
                "whitespace variants) printed to strings; plus a malformed stream for tree-level agreement; non-trivial = source "
                "AST with >= 2 nodes, distinct by printed string",
        "samples": [meta[len(parsegen.CORPUS) + i] for i in (0, 1, 2)],
        "traces_validated_against_impl": len(meta) - unmodelled, "unmodelled_skipped": unmodelled,
        "from_source_ast": sum(1 for cs in cases if cs[1] is not None),
        "disagreements": len(disagree), "spec_failures_on_impl": len(bad), "input_distribution": sizes, "audit_problems": problems,
    }, assumptions=[
        "parser level only so far: code generation (generated accessors, leptos rendering) is not yet covered by this check",
        "source grammar of the proved/compared fragment: text without '<', '{', '$'; names are ASCII identifiers (see Props/C01.v)"])


def replay(ctx, path):
    from checks import isolate
    isolate.enter(ctx)
    obj = json.load(open(path))
    print(json.dumps(obj, indent=1, ensure_ascii=False))
    s = obj.get("failing_input") or (obj.get("first_disagreeing_input") or {}).get("input")
    if isinstance(s, str):
        meta, codes, _ = parse_common.evaluate(ctx, "c01r", [(s, None, "replay")], "check_C01")
        print("implementation:", meta[0]["impl"], meta[0]["impl_reduced"])
        print("model:", parse_common.show_model(ctx, s))
    return 0
