"""C12 — locale negotiation honours the user's order of preference.
Theorems: coq/theories/Props/C12.v over the model Runtime/Langid.v.
Correspondence: harness h_rt (mode langid) compiles /repo/leptos_i18n/src/langid.rs and drives
filter_matches / find_match / Locale::find_locale."""
import itertools
import json
import os

from vlib import core

THEOREMS = ["C12_supported", "C12_preference", "C12_default", "C12_lossy", "C12_spec",
            "C12_candidates_nodup", "C12_old_refuted"]
PROPS = "theories/Props/C12.v"
REGISTRY = {
    "level": "proof",
    "technique": "Coq proof over a Gallina model of langid.rs + differential correspondence (coqc vm_compute vs compiled langid.rs)",
    "text": "Theorems C12_supported/C12_preference/C12_default/C12_lossy/C12_spec (Props/C12.v) hold for every supported list and "
            "every request list over an abstract subtag carrier (no bound). The model is tied to /repo by running filter_matches, "
            "find_match and Locale::find_locale (langid.rs compiled by #[path]) on thousands of generated cases and evaluating "
            "the Coq spec predicate on the implementation's answers.",
    "design_ref": "DESIGN.md §5 C12",
    "note": "Trusted: Coq kernel + vm_compute; hand-written model Runtime/Langid.v (tied by the correspondence run); icu_locid "
            "LanguageIdentifier parsing is an oracle; Python generator; Rust harness h_rt. No axioms (Print Assumptions: closed).",
    "engine": "coq",
    "packages": [("h_rt",)],
}
PRE = ("From Coq Require Import List NArith.\nImport ListNotations.\n"
       "From LI Require Import Runtime.Langid Runtime.LangidCheck.\nOpen Scope N_scope.\n")

LANGS = ["en", "fr", "de", "zh", "ca", "und", "it"]
SCRIPTS = [None, "Latn", "Hant", "Hans"]
REGIONS = [None, "US", "GB", "FR", "CA", "DE", "CH", "TW", "CN", "ES", "419"]
VARIANTS = [[], ["posix"], ["valencia"], ["1996"], ["posix", "valencia"]]
BAD = ["", "x", "toolonglanguage", "en--US", "en-", "-en", " fr-FR", "fr-FR ", "*", "e n", "en-US-US", "12", "en-Latn-Latn",
       "en-posix-posix", "é", "fr;q=0.9", "en-US-u-ca-buddhist", "en-x-private"]


def fields(lang, script, region, variants):
    return "%s/%s/%s/%s" % ("" if lang == "und" else lang, script or "", region or "", ".".join(sorted(variants)))


def gen_req(rng):
    """returns (string, expected canonical fields or '!' or None when the generator makes no prediction)"""
    r = rng.random()
    if r < 0.12:
        s = rng.choice(BAD)
        return s, "!"
    lang = rng.choice(LANGS)
    script = rng.choice(SCRIPTS) if rng.random() < 0.35 else None
    region = rng.choice(REGIONS) if rng.random() < 0.6 else None
    variants = list(rng.choice(VARIANTS)) if rng.random() < 0.2 else []
    parts = [lang] + ([script] if script else []) + ([region] if region else [])
    vs = list(variants)
    rng.shuffle(vs)
    parts += vs
    sep = "_" if rng.random() < 0.15 else "-"
    s = sep.join(parts)
    c = rng.random()
    if c < 0.15:
        s = s.upper()
    elif c < 0.3:
        s = s.lower()
    return s, fields(lang, script, region, variants)


def gen_req_near(rng, univ):
    """a request derived from a supported locale: the locale itself, or with one subtag dropped / added (seeded changes
    C12g and C15g only show on a request with a variant or two optional subtags next to its less specific forms)"""
    lang, script, region, vs = rng.choice(univ).split("/")
    lang = lang or "und"
    variants = [v for v in vs.split(".") if v]
    r = rng.random()
    if r < 0.3:
        pass
    elif r < 0.45 and variants:
        variants = variants[:-1]
    elif r < 0.55 and region:
        region = ""
    elif r < 0.62 and script:
        script = ""
    elif r < 0.78:
        variants = sorted(set(variants + [rng.choice(["posix", "valencia", "1996"])]))
    elif r < 0.9 and not region:
        region = rng.choice(REGIONS[1:])
    elif not script:
        script = rng.choice(SCRIPTS[1:])
    parts = [lang] + ([script] if script else []) + ([region] if region else [])
    sv = list(variants)
    rng.shuffle(sv)
    return "-".join(parts + sv), fields(lang, script or None, region or None, variants)


class Interner:
    def __init__(self):
        self.t = {}

    def __call__(self, s):
        if s == "":
            return None
        if s not in self.t:
            self.t[s] = len(self.t) + 1
        return self.t[s]


def coq_langid(f, intern):
    lang, script, region, vs = f.split("/")
    vl = [str(intern("v:" + v)) for v in vs.split(".") if v]
    return "(mk_langid %d %s %s %s)" % (
        (intern("l:" + lang) if lang else 0),
        core.coq_opt(intern("s:" + script) if script else None),
        core.coq_opt(intern("r:" + region) if region else None),
        core.coq_list(vl))


def gen_cases(ctx, univ):
    n_univ = len(univ)
    rng = ctx.rng
    cases = []
    # corpus first: the witness of the pre-fix defect and the unit tests of the repository
    cases.append(([6, 10, 9], [("fr", "fr///"), ("de-DE", "de//DE/")]))
    cases.append(([9, 1, 10, 11], [("de", "de///")]))
    cases.append(([9, 1, 10, 11], [("de-DE", "de//DE/")]))
    cases.append(([10, 9, 1, 11], [("de-CH", "de//CH/")]))
    cases.append(([0, 17, 7], [("xx y", "!"), ("fr-FR", "fr//FR/"), ("und", "///")]))
    n_random = 2500 if ctx.quick else 30000
    for _ in range(n_random):
        k = rng.choice([0, 1, 2, 3, 3, 4, 5, 6, 8, n_univ])
        avail = rng.sample(range(n_univ), min(k, n_univ))
        if rng.random() < 0.05 and avail:
            avail.append(rng.choice(avail))  # a duplicate entry in the slice
        nreq = rng.choice([0, 1, 1, 2, 2, 3, 3, 4])
        # bias: half of the requests are close to supported locales
        reqs = [gen_req_near(rng, univ) if rng.random() < 0.5 else gen_req(rng) for _ in range(nreq)]
        cases.append((avail, reqs))
    if not ctx.quick:
        # exhaustive over a small closed universe: all subsets (in index order) of 6 locales x all request lists of length <= 2
        small = [6, 7, 8, 17, 9, 10]
        reqpool = ["fr", "fr-FR", "fr-CA", "fr-BE", "de", "de-DE", "und-FR", "und", "en"]
        for r in range(len(small) + 1):
            for sub in itertools.combinations(small, r):
                for nreq in (1, 2):
                    for rq in itertools.product(reqpool, repeat=nreq):
                        cases.append((list(sub), [(x, None) for x in rq]))
    return cases


def run(ctx):
    from checks import isolate
    isolate.enter(ctx)
    bindir = core.cargo_build("h_rt")
    ok, problems = core.coq_audit(ctx, PROPS, THEOREMS)
    exe = os.path.join(bindir, "h_rt")
    rc, out, err = core.sh([exe, "langid"], input="", timeout=60)
    if rc != 0 or not out.startswith("U "):
        raise core.Infra("h_rt langid failed: " + err[-400:])
    univ = out.splitlines()[0][2:].split(",")
    cases = gen_cases(ctx, univ)
    inp = "".join("%s|%d|%s\n" % (",".join(map(str, a)), len(r), "\x1f".join(s for s, _ in r)) for a, r in cases)
    rc, out, err = core.sh([exe, "langid"], input=inp, timeout=600)
    lines = out.splitlines()[1:]
    if rc != 0 or len(lines) != len(cases):
        raise core.Infra("h_rt langid: %d lines for %d cases; %s" % (len(lines), len(cases), err[-400:]))
    intern = Interner()
    ucoq = core.coq_list([coq_langid(f, intern) for f in univ])
    pre = PRE + "Definition U_ := %s.\n" % ucoq
    items, meta, oracle_mismatch, panics = [], [], [], []
    for (avail, reqs), line in zip(cases, lines):
        if line == "PANIC":
            panics.append((avail, reqs))
            continue
        P, M, F, L = [x[2:] for x in line.split("|")]
        parsed = P.split(";") if reqs else []
        for (s, exp), got in zip(reqs, parsed):
            if exp is not None and exp != got:
                oracle_mismatch.append({"request": s, "generator_expected": exp, "icu_locid_parsed": got})
        rq = core.coq_list(["None" if p == "!" else "(Some %s)" % coq_langid(p, intern) for p in parsed])
        items.append("(mk_case U_ %s %s %s %s %s)" % (
            core.coq_list(map(str, avail)), rq, core.coq_list([m for m in M.split(",") if m]), F, L))
        meta.append({"available": [univ[i] for i in avail], "available_idx": avail, "requests": [s for s, _ in reqs],
                     "parsed": parsed, "impl_filter_matches": M, "impl_find_match": F, "impl_find_locale": L})
    codes = core.coq_eval(ctx, "c12", pre, items, "check")
    bad_spec = [m for m, c in zip(meta, codes) if c == 3]
    disagree = [m for m, c in zip(meta, codes) if c == 2]
    for m in bad_spec[:3]:
        m["universe"] = univ
        m["explanation"] = ("spec_C12 (Coq, Runtime/Langid.v) is false on the implementation's answer: the chosen locale "
                            "does not serve the first servable request / is not the exact match / is not supported")
    if bad_spec:
        bad_spec.sort(key=lambda m: (len(m["requests"]), len(m["available"])))
        core.violation(ctx, "spec", {"failing_input": bad_spec[0], "more": bad_spec[1:5], "count": len(bad_spec)})
    elif panics:
        core.violation(ctx, "panic", {"failing_input": {"available": panics[0][0], "requests": panics[0][1]},
                                      "explanation": "negotiation panicked"})
    elif disagree or oracle_mismatch or not ok:
        core.violation(ctx, "correspondence", {
            "broken": ("theorem/audit: " + "; ".join(problems)) if not ok else
                      "correspondence Runtime/Langid.v (filter_matches/find_match) vs leptos_i18n/src/langid.rs",
            "first_disagreeing_input": (disagree or [None])[0], "disagreements": len(disagree),
            "oracle_mismatch": oracle_mismatch[:5]}, no_input=True)
    nontrivial = set()
    for m in meta:
        if len(m["available"]) >= 2 and any(p != "!" for p in m["parsed"]):
            nontrivial.add((tuple(m["available_idx"]), tuple(m["parsed"])))
    hist = {}
    for m in meta:
        key = "avail=%d,reqs=%d" % (min(len(m["available"]), 9), len(m["requests"]))
        hist[key] = hist.get(key, 0) + 1
    core.write_evidence(ctx, {
        "evaluations": len(meta), "distinct_nontrivial": len(nontrivial),
        "rule": "random (available slice, request strings) over an 18-locale universe compiled with declare_locales!, corpus first; "
                "thorough adds all subsets of 6 locales x all request lists (len<=2) from 9 requests; non-trivial = >=2 available "
                "locales and >=1 parsable request; distinct by (available order, parsed requests)",
        "samples": meta[:3] + meta[5:7],
        "traces_validated_against_impl": len(meta),
        "disagreements": len(disagree), "spec_failures_on_impl": len(bad_spec), "oracle_mismatches": len(oracle_mismatch),
        "unparsable_requests": sum(p == "!" for m in meta for p in m["parsed"]),
        "input_distribution": hist, "audit_problems": problems,
    }, assumptions=[
        "icu_locid LanguageIdentifier parsing is an oracle (its result is an input of the model); the generator's own "
        "prediction of the parse is compared with it",
        "langid.rs is compiled by #[path] into the harness crate (same source text as the library)"])


def replay(ctx, path):
    from checks import isolate
    isolate.enter(ctx)
    obj = json.load(open(path))
    print(json.dumps(obj, indent=1))
    return 0
