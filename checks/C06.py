"""C06 — foreign keys are pure substitution.
Model: coq/theories/Parser/Foreign.v (resolution, populate, source-level inlining semantics).
Correspondence: h_parser `project` mode runs the whole loading pipeline (parse_locales) on generated projects;
the Coq predicate spec_C06 compares the pieces of every final value with the inlining semantics of the source ASTs."""
import json
import os
import shutil

from vlib import core
from checks import parsegen

THEOREMS = ["C06_subst", "C06_resolved_closed", "C06_resolve_then_reduce", "C06_missing", "C06_cycle", "C06_group", "C06_old_refuted"]
PROPS_B = "theories/Props/C06b.v"
THEOREMS_B = ["C06b_roundtrip_ref", "C06b_json_model_ok", "C06b_roundtrip_ref_model", "C06b_roundtrip_ref_shape", "C06b_resolve_inline",
              "C06b_stack_irrelevant", "C06b_stack_only_cycles", "C06b_final_value_inline", "C06b_model_project_is_drive",
              "C06b_order_independent", "C06b_result_unique", "C06b_inline_xdenote_args", "C06b_final_value_xdenote_args", "C06b_Rep_XRep",
              "C06b_inline_xdenote", "C06b_sound_partial", "C06b_sound_partial_model", "C06b_xprint_canonical", "C06b_parse_args",
              "C06b_sound", "C06_args_locale_old_refuted"]
REGISTRY = {
    "level": "proof",
    "technique": "Coq proof (populate = substitution on the denotation; resolution leaves no foreign key; rejection lemmas) + differential "
                 "correspondence of the whole loader against an executable inlining semantics",
    "text": "C06_subst: for every value and argument map populate is exactly substitution on the value's pieces, inside components at any "
            "depth; C06_resolved_closed / C06_resolve_then_reduce: after resolution no foreign key is left, for every project; C06_missing / "
            "C06_cycle / C06_group: rejections. Props/C06b.v: C06b_roundtrip_ref (parse∘print for sources WITH references and argument "
            "objects), C06b_resolve_inline (a successful resolution denotes the stack-free inlining semantics), C06b_stack_irrelevant / "
            "C06b_stack_only_cycles (the RefCell bookkeeping only ever turns a result into a cycle error), C06b_order_independent / "
            "C06b_result_unique (the order in which registered paths are visited does not change a successful result), C06b_sound (for "
            "every project whose values are parses of printed well-formed sources, every final value denotes the source-level inlining "
            "semantics xdenote, inherits walks included); Props/C06c.v: C06c_spec bridges the executable predicate to these theorems (for every well-formed case the model's own output satisfies spec_C06), C06c_first_error (the driver reports the first failing value in sorted order); C06_args_locale_old_refuted (nested references of an argument denote in the locale the reference is written in; the pre-fix code resolved them in the locale a null target is inherited from). The same predicate spec_C06 (source ASTs -> expected pieces) is evaluated "
            "on the real loader's final values for generated acyclic reference graphs (chains, arguments with "
            "variables / nested $t / numbers / bools, namespaces, subkeys, nulls with inherits) and planted cycles / missing / group targets.",
    "design_ref": "DESIGN.md §5 C06",
    "note": "Trusted: Coq kernel + vm_compute; model Parser/Foreign.v tied by correspondence (h_parser project mode runs parse_locales); "
            "ranges/plurals as targets (count arguments) are not in this fragment; Python generator. No axioms.",
    "engine": "coq",
    "packages": [("h_parser",)],
}
PROPS = "theories/Props/C06.v"
PROPS_C = "theories/Props/C06c.v"
THEOREMS_C = ["C06c_spec", "C06c_build_values_lookup", "C06c_get_value_at_lfind", "C06c_collect_find", "C06c_pieces_eqb_refl", "C06c_resolve_err_kinds", "C06c_final_value_err_kinds", "C06c_model_project_err", "C06c_first_error", "C06c_missing", "C06c_group", "C06c_self_cycle", "C06c_spec_reject"]
PRE = ("From Coq Require Import List NArith ZArith.\nImport ListNotations.\n"
       "From LI Require Import Base.StrOps Parser.Parse Parser.Reduce Parser.Source Parser.Foreign Parser.ForeignCheck.\nOpen Scope N_scope.\n")

E_MISSING, E_INVALID, E_RECURSIVE, E_EXPLICIT_DEFAULT = 10, 11, 12, 13
ERR_KINDS = {"MissingForeignKey": 10, "InvalidForeignKey": 11, "RecursiveForeignKey": 12, "ExplicitDefaultInDefault": 13,
             "UnexpectedToken": 1, "UnknownFormatter": 2, "InvalidForeignKeyArgs": 3, "LocaleFileDeser": 20}

KEYS = ["a", "b", "c", "d", "e", "f", "g", "h"]
VARS = ["x", "y", "n", "who"]
COMPS = ["b", "i", "em"]
TEXTS = ["hello", " ", "x > y", "é", "日本", "😀", ")", "(", ",", ".", ":", "-", "l'été", "100%", "a/b", "]", "["]


def gen_items(rng, targets, depth=0, allow_ref=True, in_arg=False):
    """source items: ("T", s) ("V", name) ("C", name, kids) ("R", ns, path, [(k, ("S", items) | ("L", lit))])"""
    items = []
    if depth <= 1 and rng.random() < 0.07:
        # defined-but-empty: "" as a value, as the children of a component, as an argument string; a value made only
        # of a reference to such a key is defined too (seeded change C03e treated it as undefined)
        return items
    if depth == 0 and allow_ref and targets and rng.random() < 0.08:
        ns, path = rng.choice(targets)
        return [("R", ns, path, [])]
    for _ in range(rng.randint(1, 3)):
        r = rng.random()
        if r < 0.35:
            items.append(("T", rng.choice(TEXTS)))
        elif r < 0.55:
            items.append(("V", rng.choice(VARS)))
        elif r < 0.7 and depth < 2:
            # references inside components: `<b>$t(k)</b>` (defect C06-foreign-key-inside-component, repaired)
            items.append(("C", rng.choice(COMPS), gen_items(rng, targets, depth + 1, allow_ref, in_arg)))
        elif allow_ref and targets and depth < 2:
            ns, path = rng.choice(targets)
            args = []
            for v in rng.sample(VARS, rng.randint(0, 2)):
                a = rng.random()
                if a < 0.5:
                    # argument strings: text / variables / components (also a component alone) / now and then a nested $t
                    args.append((v, ("S", gen_items(rng, targets if rng.random() < 0.25 else [], 1, True, True))))
                elif a < 0.7:
                    args.append((v, ("L", ("U", rng.randint(0, 99)))))
                elif a < 0.8:
                    args.append((v, ("L", ("I", -rng.randint(1, 99)))))
                else:
                    args.append((v, ("L", ("B", rng.random() < 0.5))))
            items.append(("R", ns, path, args))
        else:
            items.append(("T", rng.choice(TEXTS)))
    return items


def print_items(items):
    out = []
    for it in items:
        if it[0] == "T":
            out.append(it[1])
        elif it[0] == "V":
            out.append("{{ %s }}" % it[1])
        elif it[0] == "C":
            out.append("<%s>%s</%s>" % (it[1], print_items(it[2]), it[1]))
        else:
            _, ns, path, args = it
            p = (ns + ":" if ns else "") + ".".join(path)
            if args:
                d = {}
                for k, a in args:
                    if a[0] == "S":
                        d[k] = print_items(a[1])
                    else:
                        d[k] = a[1][1]
                out.append("$t(%s, %s)" % (p, json.dumps(d, ensure_ascii=False)))
            else:
                out.append("$t(%s)" % p)
    return "".join(out)


def coq_lit(l):
    if l[0] == "U":
        return "(LUnsigned %d)" % l[1]
    if l[0] == "I":
        return "(LSigned (%d)%%Z)" % l[1]
    return "(LBool %s)" % ("true" if l[1] else "false")


def coq_xitems(items):
    out = []
    for it in items:
        if it[0] == "T":
            out.append("XText %s" % core.coq_str(it[1]))
        elif it[0] == "V":
            out.append("XVar %s" % core.coq_str(it[1]))
        elif it[0] == "C":
            out.append("XComp %s %s" % (core.coq_str(it[1]), coq_xitems(it[2])))
        else:
            _, ns, path, args = it
            al = ["(%s, %s)" % (core.coq_str(k), ("XAStr %s" % coq_xitems(a[1])) if a[0] == "S" else ("XALit %s" % coq_lit(a[1]))) for k, a in args]
            out.append("XRef %s %s %s" % (core.coq_opt(ns, core.coq_str), core.coq_list(core.coq_str(p) for p in path), core.coq_list(al)))
    return "[" + "; ".join(out) + "]"


def refs_of(items):
    r = []
    for it in items:
        if it[0] == "C":
            r += refs_of(it[2])
        elif it[0] == "R":
            r.append((it[1], tuple(it[2])))
            for _, a in it[3]:
                if a[0] == "S":
                    r += refs_of(a[1])
    return r


def gen_project(rng, idx):
    """an abstract project: config + per (ns, locale) a key tree whose leaves are source items / null"""
    locales = ["en", "fr", "de"][:rng.choice([1, 2, 3, 3])]
    inherits = {}
    middle = None
    if len(locales) >= 2 and rng.random() < 0.6:
        locales.append("fr-CA")
        inherits["fr-CA"] = "fr" if "fr" in locales else "en"
        if rng.random() < 0.2 and "de" in locales:
            inherits["de"] = "fr"
        if rng.random() < 0.6:
            # a chain of depth two: fr-BE -> fr-CA -> fr; the middle locale may leave keys absent (not only null)
            locales.append("fr-BE")
            inherits["fr-BE"] = "fr-CA"
            middle = "fr-CA"
            if rng.random() < 0.15:
                inherits["fr"] = "fr-BE"      # a cycle: the walk must stop and fall back to the default
    nss = [None] if rng.random() < 0.7 else ["common", "home"]
    # key shapes (same in every locale): flat keys and one group
    shapes = {}
    for ns in nss:
        ks = rng.sample(KEYS, rng.randint(3, 6))
        paths = [(k,) for k in ks[:-1]] + [(ks[-1], "s1"), (ks[-1], "s2")]
        shapes[ns] = paths
    allpaths = [(ns, p) for ns in nss for p in shapes[ns]]
    # acyclic reference order: a key may reference only keys later in a random global order
    order = list(allpaths)
    rng.shuffle(order)
    rank = {kp: i for i, kp in enumerate(order)}
    expect = None
    bad = rng.random() < 0.12
    bad_kind = rng.choice(["cycle", "self", "missing", "group", "null_in_default"]) if bad else None
    src = {}    # (ns, locale, path) -> items | None(null)
    for ns, p in allpaths:
        targets = [kp for kp in allpaths if rank[kp] > rank[(ns, p)]]
        for li, l in enumerate(locales):
            if l == middle:
                r = rng.random()
                if r < 0.3 and len(p) == 1:
                    src[(ns, l, p)] = "absent"    # not written at all in the middle locale of the chain (flat keys only)
                elif r < 0.6:
                    src[(ns, l, p)] = None
                else:
                    src[(ns, l, p)] = gen_items(rng, [])     # no reference from the middle locale: an absent target would be an error
            elif l != "en" and rng.random() < (0.35 if l in inherits else 0.12):
                src[(ns, l, p)] = None            # explicit null
            else:
                src[(ns, l, p)] = gen_items(rng, targets)
    if bad:
        victim = order[0]
        l = rng.choice(locales)
        if src[(victim[0], l, victim[1])] is None or src[(victim[0], l, victim[1])] == "absent" or l == middle:
            l = "en"
        if bad_kind == "self":
            src[(victim[0], l, victim[1])] = [("T", "s"), ("R", victim[0], list(victim[1]), [])]
            expect = E_RECURSIVE
        elif bad_kind == "cycle" and len(order) >= 3:
            k2 = order[1]
            if src[(k2[0], l, k2[1])] is None or src[(k2[0], l, k2[1])] == "absent":
                l = "en"
            src[(victim[0], l, victim[1])] = [("R", k2[0], list(k2[1]), [])]
            src[(k2[0], l, k2[1])] = [("T", "x"), ("R", victim[0], list(victim[1]), [])]
            expect = E_RECURSIVE
        elif bad_kind == "missing":
            src[(victim[0], l, victim[1])] = [("R", victim[0], ["nope"], [])]
            expect = E_MISSING
        elif bad_kind == "group":
            grp = [p for p in shapes[victim[0]] if len(p) == 2][0]
            if victim[1][0] != grp[0]:
                src[(victim[0], l, victim[1])] = [("R", victim[0], [grp[0]], [])]
                expect = E_INVALID
        elif bad_kind == "null_in_default":
            tgt = order[-1]
            if tgt != victim:
                src[(tgt[0], "en", tgt[1])] = None
                src[(victim[0], "en", victim[1])] = [("R", tgt[0], list(tgt[1]), [])]
                expect = "any_error"      # rejected either as ExplicitDefaultInDefault by the resolver or later by the merge
    return {"locales": locales, "inherits": inherits, "nss": nss, "shapes": shapes, "src": src, "expect": expect, "idx": idx}


def tree_of(proj, ns, l, rng):
    """nested dict in a random member order"""
    tree = {}
    paths = list(proj["shapes"][ns])
    rng.shuffle(paths)
    for p in paths:
        v = proj["src"][(ns, l, p)]
        if v == "absent":
            continue
        leaf = None if v is None else print_items(v)
        if len(p) == 1:
            tree[p[0]] = leaf
        else:
            tree.setdefault(p[0], {})[p[1]] = leaf
    # a null group now and then (all leaves null)
    return tree


def write_project(proj, d, rng):
    shutil.rmtree(d, ignore_errors=True)
    os.makedirs(os.path.join(d, "locales"))
    inh = ""
    if proj["inherits"]:
        inh = "inherits = { %s }\n" % ", ".join('"%s" = "%s"' % kv for kv in proj["inherits"].items())
    nsl = ""
    if proj["nss"] != [None]:
        nsl = "namespaces = [%s]\n" % ", ".join('"%s"' % n for n in proj["nss"])
    with open(os.path.join(d, "Cargo.toml"), "w") as fh:
        fh.write('[package]\nname = "p"\nversion = "0.1.0"\nedition = "2021"\n\n[package.metadata.leptos-i18n]\ndefault = "en"\n'
                 'locales = [%s]\n%s%s' % (", ".join('"%s"' % l for l in proj["locales"]), nsl, inh))
    files = []
    for ns in proj["nss"]:
        for l in proj["locales"]:
            tree = tree_of(proj, ns, l, rng)
            if ns is None:
                path = os.path.join(d, "locales", l + ".json")
            else:
                os.makedirs(os.path.join(d, "locales", l), exist_ok=True)
                path = os.path.join(d, "locales", l, ns + ".json")
            with open(path, "w") as fh:
                json.dump(tree, fh, ensure_ascii=False)
            files.append((ns, l, tree))
    return files


def coq_jnode(v):
    if v is None:
        return "JNull"
    if isinstance(v, dict):
        return "(JObj %s)" % core.coq_list("(%s, %s)" % (core.coq_str(k), coq_jnode(x)) for k, x in v.items())
    return "(JStr %s)" % core.coq_str(v)


def parse_block(lines):
    """-> ("ok", entries) | ("err", kind, detail) | ("panic", msg)"""
    head = lines[0].split("\t")
    if head[1] == "ok":
        ents = []
        for ln in lines[1:]:
            f = ln.split("\t")
            if f[0] == "V":
                ents.append((None if f[1] == "-" else f[1], f[2], f[3].split("."), f[4]))
        return ("ok", ents)
    if head[1] == "err":
        return ("err", head[2], head[3] if len(head) > 3 else "")
    return ("panic", head[2] if len(head) > 2 else "")


def run(ctx):
    from checks import isolate
    isolate.enter(ctx)
    bindir = core.cargo_build("h_parser")
    ok, problems = core.coq_audit_multi(ctx, [(PROPS, THEOREMS), (PROPS_B, THEOREMS_B), (PROPS_C, THEOREMS_C)])
    exe = os.path.join(bindir, "h_parser")
    n = 150 if ctx.quick else 1500
    root = os.path.join(ctx.work, "projects")
    shutil.rmtree(root, ignore_errors=True)
    projs, dirs, filesl = [], [], []
    for i in range(n):
        p = gen_project(ctx.rng, i)
        d = os.path.join(root, "p%d" % i)
        filesl.append(write_project(p, d, ctx.rng))
        projs.append(p)
        dirs.append(d)
    rc, out, err = core.sh([exe, "project"], input="".join(d + "\n" for d in dirs), timeout=900)
    blocks, cur = [], []
    for ln in out.split("\n"):
        if ln.startswith("END\t"):
            blocks.append(cur)
            cur = []
        elif ln:
            cur.append(ln)
    if rc != 0 or len(blocks) != n:
        raise core.Infra("h_parser project: rc=%s, %d blocks for %d projects; %s" % (rc, len(blocks), n, err[-300:]))
    items, meta, panics, unexpected_other = [], [], [], []
    for p, files, blk, d in zip(projs, filesl, blocks, dirs):
        res = parse_block(blk)
        m = {"project": d, "locales": p["locales"], "inherits": p["inherits"], "namespaces": p["nss"], "expect": p["expect"],
             "files": [{"ns": ns, "locale": l, "content": tree} for ns, l, tree in files], "impl": res[0] + (":" + res[1] if res[0] == "err" else "")}
        if res[0] == "panic":
            m["panic"] = res[1]
            panics.append(m)
            continue
        expect = p["expect"]
        if res[0] == "ok":
            ents = []
            other = False
            for ns, l, path, val in res[1]:
                if val.startswith("OTHER"):
                    other = True
                ents.append("(%s, %s, %s, %s)" % (core.coq_opt(ns, core.coq_str), core.coq_str(l), core.coq_list(core.coq_str(x) for x in path),
                                                 "None" if val == "DEFAULT" else "(Some %s)" % val))
            if other:
                unexpected_other.append(m)
                continue
            impl = "(Ok %s)" % core.coq_list(ents)
        else:
            kind = ERR_KINDS.get(res[1], 99)
            impl = "(Err %d)" % kind
            m["impl_error"] = res[2][:300]
            if expect == "any_error":
                expect = kind
        if expect == "any_error":
            expect = 0      # the implementation accepted a project that must be rejected
        srcs = ["(%s, %s, %s, %s)" % (core.coq_opt(ns, core.coq_str), core.coq_str(l), core.coq_list(core.coq_str(x) for x in path),
                                     "None" if v is None else "(Some %s)" % coq_xitems(v)) for (ns, l, path), v in p["src"].items() if v != "absent"]
        fl = ["(%s, %s, %s)" % (core.coq_opt(ns, core.coq_str), core.coq_str(l),
                               core.coq_list("(%s, %s)" % (core.coq_str(k), coq_jnode(x)) for k, x in tree.items())) for ns, l, tree in files]
        items.append("(mk_fcase %s %s %s %s %s %s)" % (
            core.coq_str("en"), core.coq_list("(%s, %s)" % (core.coq_str(a), core.coq_str(b)) for a, b in p["inherits"].items()),
            core.coq_list(fl), core.coq_list(srcs), core.coq_opt(expect), impl))
        meta.append(m)
    codes = core.coq_eval(ctx, "c06", PRE, items, "check_C06", min_per_shard=8)
    bad = [m for m, c in zip(meta, codes) if c == 3]
    dis = [m for m, c in zip(meta, codes) if c == 2]
    # a listed (not repaired) finding suppresses exactly its input class: a valid project rejected with MissingForeignKey
    # because the nested reference of an argument is looked up in the locale a null target is inherited from
    known = [f for f in core.load_known("C06") if f.get("status") == "known" and f.get("id") == "C06-nested-arg-locale"]
    if known:
        by_dir = {d: p for p, d in zip(projs, dirs)}
        hit = [m for m in bad if m["expect"] is None and m["impl"] == "err:MissingForeignKey" and nested_arg_under_null_target(by_dir[m["project"]])]
        if hit:
            core.known_finding(ctx, known[0], known[0].get("line", "C06-nested-arg-locale") + " (%d generated projects)" % len(hit))
            bad = [m for m in bad if m not in hit]
    unm = sum(1 for c in codes if c == 1)
    if bad or panics:
        first = (bad or panics)[0]
        core.violation(ctx, "spec", {"failing_input": first, "count": len(bad) + len(panics),
                                     "explanation": "a final value does not denote the inlining semantics of its source (spec_C06, Parser/ForeignCheck.v), "
                                                    "or an expected rejection did not happen / the loader panicked"})
    elif dis or unexpected_other or not ok:
        core.violation(ctx, "correspondence", {
            "broken": ("theorem/audit: " + "; ".join(problems)) if not ok else "correspondence Parser/Foreign.v (model_project) vs parse_locales",
            "first_disagreeing_input": (dis or unexpected_other or [None])[0], "disagreements": len(dis)}, no_input=True)
    hist = {}
    for m in meta:
        k = "locales=%d,ns=%d,inherits=%d,expect=%s,impl=%s" % (len(m["locales"]), len(m["namespaces"]), len(m["inherits"]), m["expect"], m["impl"])
        hist[k] = hist.get(k, 0) + 1
    nontrivial = set()
    for p, m in zip(projs, meta):
        if sum(len(refs_of(v)) for v in p["src"].values() if v and v != "absent") >= 2:
            nontrivial.add(json.dumps(m["files"], sort_keys=True, ensure_ascii=False))
    core.write_evidence(ctx, {
        "evaluations": len(meta) + len(panics), "distinct_nontrivial": len(nontrivial),
        "rule": "generated projects: 1-4 locales (fr-CA inherits fr), optional namespaces, flat keys and one subkey group, values = text / variables / "
                "components / $t references (acyclic by construction, chains, arguments: strings with variables and nested $t, numbers, bools), "
                "explicit nulls in non-default locales; ~12% carry one planted defect (self/2-cycle, missing target, group target, null target in "
                "the default); member order random. non-trivial = at least two references; distinct by file contents",
        "samples": meta[:2], "traces_validated_against_impl": len(meta) - unm, "unmodelled_skipped": unm,
        "disagreements": len(dis), "spec_failures_on_impl": len(bad), "panics": len(panics), "input_distribution": hist, "audit_problems": problems,
    }, assumptions=["ranges and plurals as foreign-key targets (count arguments) are not in this fragment",
                    "nested references inside an argument denote in the locale the reference is written in (the reading the repaired code "
                    "follows since 01a592b; the earlier code resolved them in the locale a null target is inherited from)"])


def nested_arg_under_null_target(proj):
    """the input class of finding C06-nested-arg-locale: in some locale L a value holds `$t(target, {.. "x": ".. $t(other) .."})`
    whose target is an explicit null in L (so the value comes from another locale of the inherits walk) and whose argument
    string itself contains a reference"""
    src = proj["src"]

    def has_ref(items):
        return any(it[0] == "R" or (it[0] == "C" and has_ref(it[2])) for it in items)

    def walk(items, l):
        for it in items:
            if it[0] == "C" and walk(it[2], l):
                return True
            if it[0] == "R":
                _, ns, path, args = it
                nested = any(a[0] == "S" and has_ref(a[1]) for _, a in args)
                if nested and src.get((ns, l, tuple(path)), "x") is None:
                    return True
                if any(a[0] == "S" and walk(a[1], l) for _, a in args):
                    return True
        return False
    return any(v not in (None, "absent") and walk(v, l) for (ns, l, p), v in src.items())


def replay(ctx, path):
    from checks import isolate
    isolate.enter(ctx)
    print(json.dumps(json.load(open(path)), indent=1, ensure_ascii=False))
    return 0
