"""C16 — a context always shows the last locale set; sub-contexts are isolated.
Theorems: coq/theories/Props/C16.v over the machines of Runtime/Context.v.
Correspondence: harness h_ctx drives the real leptos runtime (live effects) through generated operation histories over a
tree of contexts and prints every observation after every step; the Coq spec predicate is evaluated on those traces and the
traces are compared with the model's. Failing histories are shrunk to a minimal operation sequence.
Accessors are created through the real macros in every flavour (Runtime/ContextAcc.v): t!/tu!/t_string!/tu_string!/t_display!/
tu_display!/td!/td_string!/td_display! x ten kinds of first-argument expression x with/without interpolation arguments, each
created before later sets and rendered after every step, and mounted in render effects."""
import json
import os

from vlib import core
from checks import C15

THEOREMS = ["C16_refines", "C16_views_agree", "C16_last_set", "C16_isolation", "C16_isolation_unwired", "C16_spec",
            "C16_accessor_refines", "C16_accessor_reads_current", "C16_mounted_current", "C16_frozen_observer", "C16_accessor_spec",
            "C16_accessor_renders_current_text", "C16_decode_sound", "C16_provider_scoping", "C16_provider_handles"]
PROPS = "theories/Props/C16.v"
REGISTRY = {
    "level": "proof",
    "technique": "Coq forward simulation (signal-arena machine vs. context->locale map) + differential correspondence against "
                 "the real leptos reactive runtime over random operation histories with shrinking",
    "text": "C16_refines (Props/C16.v): for every operation list (set_locale, set_locale_untracked, scope, accessor creation, "
            "mounting an effect, sub-context creation with or without a wired initial-locale signal and cookie, caller signal "
            "writes) and every placement of executor flushes, the small-step model of context.rs over a shared signal arena shows "
            "exactly the observations of the abstract map context->locale; corollaries: every handle/scoped view/accessor shows the "
            "last locale set (C16_last_set), operations on one context never change another unless an initial-locale signal was "
            "wired and written (C16_isolation). The model is tied to /repo by running the real runtime on generated histories "
            "(<=6 contexts, <=40 ops, flushes interleaved) and comparing every step. C16_accessor_reads_current / "
            "C16_mounted_current / C16_frozen_observer (Runtime/ContextAcc.v): an accessor of any flavour (9 macros x 10 kinds of "
            "context expression x with/without arguments) created at any point renders the current locale of its context after "
            "any continuation; effects over tracked flavours show it after a flush; the harness creates every accessor through "
            "the real macro with that flavour. C16_accessor_renders_current_text: the same for an accessor whose output is any "
            "function of the locale (t_plural!, t_format! families: expected text = fixed-locale macro of the model's current "
            "locale, read back by decode, C16_decode_sound). C16_provider_scoping / C16_provider_handles (Runtime/Provider.v): for "
            "every forest of component-level providers (<I18nSubContextProvider> nested / siblings, lookups before, inside, "
            "after) the owner-arena model of run_as_children scopes lexically, owners outside a provider keep their lookup, lazy "
            "lookups are stable, and the operations the forest is checked as put each lookup's handle on that context; the "
            "harness renders the real components natively.",
    "design_ref": "DESIGN.md §5 C16",
    "note": "Trusted: Coq kernel + vm_compute; hand-written model Runtime/Context.v; leptos' scheduler is observed (effects run at "
            "executor ticks), not modelled; harness build = ssr + reactive_graph/effects. No axioms.",
    "engine": "coq",
    "packages": [("h_ctx",)],
}
PRE = ("From Coq Require Import List NArith Bool.\nImport ListNotations.\n"
       "From LI Require Import Base.StrOps.\nFrom LI Require Import Runtime.Langid.\nFrom LI Require Import Runtime.Resolve.\n"
       "From LI Require Import Runtime.Context.\nFrom LI Require Import Runtime.ContextCheck.\n"
       "From LI Require Import Runtime.ContextAcc.\nFrom LI Require Import Runtime.ContextAccCheck.\nOpen Scope N_scope.\n")

NLOC = 8
SUB_COOKIES = ["sub_a", "sub_b"]
MAX_CTX, MAX_OPS, MAX_HANDLES, MAX_DEPTH = 6, 40, 9, 2
MAX_ACC, MAX_WATCH, MAX_FROZEN = 5, 4, 4

# ------------------------------------------------------------------ accessor flavours (mirror of Runtime/ContextAcc.v)
MACROS = ["MT", "MTu", "MTString", "MTuString", "MTDisplay", "MTuDisplay", "MTd", "MTdString", "MTdDisplay",
          "MTPlural", "MTuPlural", "MTPluralOrd", "MTuPluralOrd",
          "MTFormat", "MTuFormat", "MTFormatString", "MTuFormatString", "MTFormatDisplay", "MTuFormatDisplay"]
MACRO_NAMES = ["t!", "tu!", "t_string!", "tu_string!", "t_display!", "tu_display!", "td!", "td_string!", "td_display!",
               "t_plural!", "tu_plural!", "t_plural_ordinal!", "tu_plural_ordinal!",
               "t_format!", "tu_format!", "t_format_string!", "tu_format_string!", "t_format_display!", "tu_format_display!"]
EXPRS = ["EIdent", "EUseCall", "EScopeInline", "EUseScopedInline", "EField", "EDeref", "EBlock", "EParen", "EMethod", "EFnCall"]
CTX_EXPR = ["c", "use_i18n()", "scope_i18n!(c, ns)", "use_i18n_scoped!(ns)", "holder.i18n", "*r", "{ c }", "(c)", "holder.get()", "idf(c)"]
LOC_EXPR = ["l (Locale bound at creation)", "use_i18n().get_locale()", "scope_locale!(c.get_locale(), ns)",
            "use_i18n().get_locale_untracked()", "holder.i18n.get_locale()", "(*r).get_locale()", "{ c.get_locale() }",
            "(c.get_locale())", "c.get_locale()", "idf(c.get_locale_untracked())"]
# payloads (mirror of harness/h_ctx: COUNTS, NUMS, DATES, LISTS and the one formatter of each family)
COUNTS = [0, 1, 2, 3, 5, 11, 21, 100]
FORM_NAMES = ["zero", "one", "two", "few", "many", "other"]
FMT_VALUES = [["2000.5", "1234567.891", "0.5"], ["2024-03-05", "1999-12-31"], ['["a", "b", "c"]', '["x", "y"]']]
FMT_FORMATTER = ["number", "date(date_length: long)", "list(list_type: and; list_style: wide)"]
FMT_PAYLOADS = [fam * 4 + v for fam in range(3) for v in range(len(FMT_VALUES[fam]))]


def fl(m, e, i, p=0):
    """a flavour with its payload: macro * 32 + kind of first argument * 2 + interpolation arguments, + 1024 * payload
    (plural macros: index of the count; format macros: formatter family * 4 + index of the value)"""
    return m * 32 + e * 2 + i + 1024 * p


def fl_parts(f):
    f %= 1024
    return f // 32, (f % 32) // 2, f % 2


def fl_payload(f):
    return f // 1024


def fl_family(f):
    m = fl_parts(f)[0]
    return "loc" if m < 9 else "plural" if m < 13 else "format"


def fl_frozen(f):
    m, e, _ = fl_parts(f)
    return 6 <= m <= 8 and e == 0


def fl_tracked(f):
    m, e, _ = fl_parts(f)
    if m < 6:
        return m % 2 == 0
    if m < 9:
        return e not in (0, 3, 9)
    return m % 2 == 1


def fl_name(f):
    m, e, i = fl_parts(f)
    p = fl_payload(f)
    if m < 9:
        return "%s(%s, key%s)" % (MACRO_NAMES[m], (LOC_EXPR if m >= 6 else CTX_EXPR)[e], ", n = .." if i else "")
    if m < 13:
        return "%s(%s, count = move || %d, zero => .., one => .., two => .., few => .., many => .., _ => ..)" % (
            MACRO_NAMES[m], CTX_EXPR[e], COUNTS[p % 8])
    return "%s(%s, %s, formatter: %s)" % (MACRO_NAMES[m], CTX_EXPR[e], FMT_VALUES[p // 4][p % 4], FMT_FORMATTER[p // 4])


def fl_coq(f):
    return "F%d_" % (f % 1024)


LOC_FL = [fl(m, e, i) for m in range(9) for e in range(10) for i in range(2)]
PLURAL_FL = [fl(m, e, 0, p) for m in range(9, 13) for e in range(10) for p in range(8)]
FORMAT_FL = [fl(m, e, 0, p) for m in range(13, 19) for e in range(10) for p in FMT_PAYLOADS]
ALL_FL = LOC_FL + PLURAL_FL + FORMAT_FL
FROZEN_FL = [f for f in ALL_FL if fl_frozen(f)]
LIVE_FL = [f for f in ALL_FL if not fl_frozen(f)]
FAMILY_FL = {"loc": LOC_FL, "plural": PLURAL_FL, "format": FORMAT_FL}
FL_DEFS = "".join("Definition %s := mk_fl %s %s %s.\n" % (fl_coq(f), MACROS[fl_parts(f)[0]], EXPRS[fl_parts(f)[1]],
                                                          "true" if fl_parts(f)[2] else "false")
                  for f in sorted(set(f % 1024 for f in ALL_FL)))
FL_T, FL_TSTRING = fl(0, 0, 0), fl(2, 0, 0)


def family_order(family):
    """the flavours of one family in the order of the systematic corpus.  loc: all of them (frozen ones first, so that they
    are paired with each other).  plural / format: every (macro, kind of first argument), the payload rotating, three rounds
    (one per scope depth gets a different payload)"""
    if family == "loc":
        return [f for f in LOC_FL if fl_frozen(f)] + [f for f in LOC_FL if not fl_frozen(f)]
    ms = range(9, 13) if family == "plural" else range(13, 19)
    pl = list(range(8)) if family == "plural" else FMT_PAYLOADS
    return [fl(m, e, 0, pl[(j + 3 * e + m) % len(pl)]) for j, m in enumerate(ms) for e in range(10)]


# ------------------------------------------------------------------ histories

# component forests (mirror of Runtime/Provider.v): a node is "L" (a component calling use_i18n()) or
# ("P", wire, cookie name, children) = <I18nSubContextProvider initial_locale=signal cookie_name=..> children </..>
def forest_walk(forest, cur, nctx, out):
    """lexical scoping: appends ("new", parent ctx) / ("probe", ctx) in rendering order; returns the context count"""
    for n in forest:
        if n == "L":
            out.append(("probe", cur))
        else:
            out.append(("new", cur))
            out.append(("probe", nctx))        # the lookup the harness places first inside every provider
            nctx = forest_walk(n[3], nctx, nctx + 1, out)
    return nctx


def forest_wires(forest):
    return [w for n in forest if n != "L" for w in ([n[1]] if n[1] is not None else []) + forest_wires(n[3])]


def forest_str(forest):
    return ".".join("L" if n == "L" else "P%s_%s[%s]" % ("-" if n[1] is None else n[1], C15.enc(n[2]), forest_str(n[3])) for n in forest)


def forest_show(forest):
    return " ".join("<Lookup/>" if n == "L" else "<I18nSubContextProvider%s%s> <Lookup/> %s </I18nSubContextProvider>" % (
        "" if n[1] is None else " initial_locale=signal%d" % n[1], "" if n[2] is None else " cookie_name=%s" % n[2], forest_show(n[3]))
        for n in forest).replace("  ", " ")


def forest_coq(forest, tb):
    t = "RNil"
    for n in reversed(forest):
        c = "RLookup" if n == "L" else "(RSubP %s %s %s)" % ("None" if n[1] is None else "(Some %d%%nat)" % n[1],
                                                             "None" if n[2] is None else "(Some %s)" % tb.s(n[2]), forest_coq(n[3], tb))
        t = "(RCons %s %s)" % (c, t)
    return t


def forest_fix(forest, fixsig):
    return tuple("L" if n == "L" else ("P", fixsig(n[1]), n[2], forest_fix(n[3], fixsig)) for n in forest)


def tup(x):
    """json lists back to the tuples of a history"""
    return tuple(tup(y) for y in x) if isinstance(x, (list, tuple)) else x


class Shape:
    """structural simulation of a history (no locale values): what indices exist"""

    def __init__(self):
        self.nctx, self.handles, self.nsig, self.nacc, self.nw, self.nz = 1, [(0, 0)], 0, 0, 0, 0

    def ok(self, op):
        k = op[0]
        if k == "N":
            return op[1] < self.nctx and (op[2] is None or op[2] < self.nsig) and self.nctx < MAX_CTX
        if k == "W":
            return op[1] < self.nsig
        if k in ("S", "U", "M"):
            return op[1] < len(self.handles)
        if k == "A":
            return op[1] < len(self.handles) and fl_frozen(op[2]) == fl_frozen(op[3])
        if k == "C":
            return op[1] < len(self.handles) and self.handles[op[1]][1] < MAX_DEPTH
        if k == "T":
            if not (op[1] < len(self.handles) and op[2]) or any(w >= self.nsig for w in forest_wires(op[2])):
                return False
            ev = []
            n = forest_walk(op[2], self.handles[op[1]][0], self.nctx, ev)
            return n <= MAX_CTX and len(self.handles) + sum(1 for e in ev if e[0] == "probe") <= MAX_HANDLES + 4
        return True

    def apply(self, op):
        k = op[0]
        if k == "N":
            self.handles.append((self.nctx, 0))
            self.nctx += 1
        elif k == "I":
            self.nsig += 1
        elif k == "T":
            ev = []
            self.nctx = forest_walk(op[2], self.handles[op[1]][0], self.nctx, ev)
            self.handles += [(e[1], 0) for e in ev if e[0] == "probe"]
        elif k == "C":
            c, d = self.handles[op[1]]
            self.handles.append((c, d + 1))
        elif k == "A":
            if fl_frozen(op[2]):
                self.nz += 1
            else:
                self.nacc += 1
        elif k == "M":
            if fl_tracked(op[2]):
                self.nw += 1
            else:
                self.nz += 1


def valid(ops):
    sh = Shape()
    for op in ops:
        if not sh.ok(op):
            return False
        sh.apply(op)
    return len(ops) <= MAX_OPS


def renumber(later, hr, cr, sr):
    """the operations `later` after the handles hr = (start, count), contexts cr and caller signals sr were removed
    (None when one of them refers to a removed object)"""
    def fixer(rng_):
        start, count = rng_

        def fix(v):
            if v is None or not count or v < start:
                return v
            if v < start + count:
                raise KeyError
            return v - count
        return fix
    fh, fc, fs = fixer(hr), fixer(cr), fixer(sr)
    out = []
    try:
        for o in later:
            if o[0] == "N":
                out.append(("N", fc(o[1]), fs(o[2]), o[3]))
            elif o[0] in ("S", "U"):
                out.append((o[0], fh(o[1]), o[2]))
            elif o[0] in ("C", "A", "M"):
                out.append((o[0], fh(o[1])) + tuple(o[2:]))
            elif o[0] == "T":
                out.append(("T", fh(o[1]), forest_fix(o[2], fs)))
            elif o[0] == "W":
                out.append(("W", fs(o[1]), o[2]))
            else:
                out.append(o)
    except KeyError:
        return None
    return out


def remove_renumbered(ops, i):
    """drop operation i; when it created handles / contexts / a caller signal, renumber later references
    (None when a later operation refers to a removed object)"""
    sh = Shape()
    for o in ops[:i]:
        sh.apply(o)
    h0, c0, s0 = len(sh.handles), sh.nctx, sh.nsig
    sh.apply(ops[i])
    later = renumber(ops[i + 1:], (h0, len(sh.handles) - h0), (c0, sh.nctx - c0), (s0, sh.nsig - s0))
    return None if later is None else list(ops[:i]) + later


def forest_deletions(forest, h_off=0, c_off=0):
    """every forest obtained by deleting one node (with its subtree): (forest, first handle, handles, first context, contexts)
    of what disappears, counted from the first handle / context the forest creates"""
    def size(n):
        if n == "L":
            return 1, 0
        sub = [size(c) for c in n[3]]
        return 1 + sum(x for x, _ in sub), 1 + sum(y for _, y in sub)
    for idx, n in enumerate(forest):
        kh, kc = size(n)
        yield forest[:idx] + forest[idx + 1:], h_off, kh, c_off, kc
        if n != "L":
            for ch, a, b, c, d in forest_deletions(n[3], h_off + 1, c_off + 1):
                yield forest[:idx] + (("P", n[1], n[2], ch),) + forest[idx + 1:], a, b, c, d
        h_off, c_off = h_off + kh, c_off + kc


def tree_simplifications(ops, i):
    """histories in which one node of the forest of operation i is deleted (later references renumbered)"""
    sh = Shape()
    for o in ops[:i]:
        sh.apply(o)
    h0, c0 = len(sh.handles), sh.nctx
    for forest, a, kh, c, kc in forest_deletions(ops[i][2]):
        if not forest:
            continue
        later = renumber(ops[i + 1:], (h0 + a, kh), (c0 + c, kc), (0, 0))
        if later is not None:
            yield list(ops[:i]) + [("T", ops[i][1], forest)] + later
    for forest in (forest_fix(ops[i][2], lambda w: None), forest_nocookie(ops[i][2])):
        if forest != ops[i][2]:
            yield list(ops[:i]) + [("T", ops[i][1], forest)] + list(ops[i + 1:])


def forest_nocookie(forest):
    return tuple("L" if n == "L" else ("P", n[1], None, forest_nocookie(n[3])) for n in forest)


def gen_forest(rng, sh, budget_ctx, depth=0):
    """a random forest: lookups before / between / after providers, nested and sibling providers"""
    out = []
    for _ in range(rng.choice([1, 2, 2, 3, 3, 4]) if depth == 0 else rng.choice([0, 1, 1, 2])):
        if budget_ctx[0] > 0 and rng.random() < (0.5 if depth == 0 else 0.35) and depth < 2:
            budget_ctx[0] -= 1
            wire = rng.randrange(sh.nsig) if sh.nsig and rng.random() < 0.3 else None
            ck = rng.choice(SUB_COOKIES) if rng.random() < 0.2 else None
            out.append(("P", wire, ck, gen_forest(rng, sh, budget_ctx, depth + 1)))
        else:
            out.append("L")
    return tuple(out)


def gen_history(rng, family=None):
    live = LIVE_FL if family is None else [f for f in FAMILY_FL[family] if not fl_frozen(f)]
    frozen = FROZEN_FL if family in (None, "loc") else []
    both = live + frozen
    n = rng.choice([4, 8, 12, 20, 30, 40])
    sh, ops = Shape(), []
    wired_bias = rng.random() < 0.6
    while len(ops) < n:
        r = rng.random()
        if r < 0.22:
            op = ("S", rng.randrange(len(sh.handles)), rng.randrange(NLOC))
        elif r < 0.32:
            op = ("U", rng.randrange(len(sh.handles)), rng.randrange(NLOC))
        elif r < 0.50:
            op = ("F",)
        elif r < 0.58:
            if sh.nctx >= MAX_CTX:
                continue
            wire = rng.randrange(sh.nsig) if sh.nsig and rng.random() < (0.7 if wired_bias else 0.2) else None
            ck = rng.choice(SUB_COOKIES) if rng.random() < 0.3 else None
            op = ("N", rng.randrange(sh.nctx), wire, ck)
        elif r < 0.61:
            if sh.nsig >= 3:
                continue
            op = ("I", rng.randrange(NLOC))
        elif r < 0.64:
            if len(sh.handles) >= MAX_HANDLES - 1:
                continue
            op = ("T", rng.randrange(len(sh.handles)), gen_forest(rng, sh, [MAX_CTX - sh.nctx]))
            if not any(n != "L" for n in op[2]) and rng.random() < 0.7:
                continue
        elif r < 0.74:
            if not sh.nsig:
                continue
            op = ("W", rng.randrange(sh.nsig), rng.randrange(NLOC))
        elif r < 0.81:
            if len(sh.handles) >= MAX_HANDLES:
                continue
            op = ("C", rng.randrange(len(sh.handles)))
        elif r < 0.88:
            pool = frozen if frozen and rng.random() < 0.12 else live
            if (sh.nz if pool is frozen else sh.nacc) >= (MAX_FROZEN if pool is frozen else MAX_ACC):
                continue
            op = ("A", rng.randrange(len(sh.handles)), rng.choice(pool), rng.choice(pool))
        elif r < 0.95:
            f = rng.choice(both)
            if (sh.nw if fl_tracked(f) else sh.nz) >= (MAX_WATCH if fl_tracked(f) else MAX_FROZEN):
                continue
            op = ("M", rng.randrange(len(sh.handles)), f)
        else:
            op = ("G",)
        if sh.ok(op):
            sh.apply(op)
            ops.append(op)
    return ops


def gen_root(rng):
    enable = rng.random() < 0.7
    parts = []
    if rng.random() < 0.5:
        parts.append("i18n_pref_locale=" + rng.choice(["fr", "de", "pt-BR", "zz", "%20fr-CA"]))
    for n in SUB_COOKIES:
        if rng.random() < 0.5:
            parts.append("%s=%s" % (n, rng.choice(["fr", "fr-CA", "de", "en", "xx"])))
    cookie = "; ".join(parts) if parts or rng.random() < 0.5 else None
    accept = rng.choice([None, "de", "fr-CA,fr;q=0.9", "pt-PT,pt;q=0.8", "it", "en-GB,de;q=0.3"])
    # component: the root context is created by rendering <I18nContextProvider> (else init_i18n_context_with_options)
    return {"enable": enable, "cookie": cookie, "accept": accept, "component": rng.random() < 0.5}


def flavour_corpus(family="loc", rounds=1):
    """every flavour of `family_order(family)`, on every scope depth, created BEFORE tracked and untracked sets (through the same handle and through
    another view of the context) and rendered after each step; every flavour mounted in an effect on some depth; alternately on
    the root context and on a sub-context"""
    out = []
    order = family_order(family)
    live = [f for f in order if not fl_frozen(f)]
    chunks = [order[i:i + 8] for i in range(0, len(order), 8)]
    while len(chunks[-1]) < 8:
        chunks[-1].append(live[len(chunks[-1])])
    # the locales set: ar, ru, fr (and pt-BR on the parent): from en, plural categories and formatted texts change at each step
    mounted = {0: (0, 2, 4, 6), 1: (1, 3, 5, 7), 2: (0, 3, 4, 7)}
    for ci, ch in enumerate(chunks):
        for depth in range(3):
            ops, base = [], 0
            if (ci + depth) % 2:
                ops.append(("N", 0, None, None))
                base = 1
            for d in range(depth):
                ops.append(("C", base + d))
            t = base + depth
            for j in range(0, 8, 2):
                ops.append(("A", t, ch[j], ch[j + 1]))
            for j in mounted[depth]:
                ops.append(("M", t, ch[j]))
            ops += [("S", base, 6), ("F",), ("U", t, 5), ("G",), ("F",), ("S", t, 1), ("F",)]
            if base:
                ops += [("S", 0, 4), ("F",)]
            out.append(({"enable": False, "cookie": None, "accept": None}, ops))
    return out


def tree_corpus():
    """component-level providers: Header / provider(Inner) / Footer, nested providers, sibling providers, empty providers,
    wired and cookie-carrying providers; rendered under the root (created by init_i18n_context or by <I18nContextProvider>) and
    under a sub-context; accessors that evaluate use_i18n() lazily on the first and on the last lookup; then a set through
    every handle, an untracked set through the last one"""
    P = lambda *ch, wire=None, ck=None: ("P", wire, ck, tuple(ch))
    forests = [
        ("L", P("L"), "L"),
        (P(P("L"), "L"), "L"),
        (P(), P("L"), "L"),
        ("L", P("L", P(), "L"), "L", P(), "L"),
        (P("L", wire=0), "L"),
        ("L", P(ck="sub_a"), P(P(), ck="sub_b"), "L"),
    ]
    lazy = (fl(0, 1, 0), fl(2, 1, 0))          # t!(use_i18n(), ..), t_string!(use_i18n(), ..)
    out = []
    for fi, forest in enumerate(forests):
        for component in (False, True):
            for base in (0, 1):
                ops = [("I", 2)] if forest_wires(forest) else []
                if base:
                    ops.append(("N", 0, None, None))
                sh = Shape()
                for o in ops:
                    sh.apply(o)
                h0 = len(sh.handles)
                ops.append(("T", base, forest))
                sh.apply(ops[-1])
                new = list(range(h0, len(sh.handles)))
                ops += [("A", new[0], lazy[0], lazy[1]), ("A", new[-1], lazy[0], lazy[1]), ("M", new[-1], lazy[1]), ("F",)]
                for j, h in enumerate([base] + new):
                    ops += [("S", h, 1 + (j + fi) % 7), ("F",)]
                ops += [("U", new[-1], 0), ("G",), ("T", new[-1], ("L", P(), "L")), ("S", len(sh.handles) + 2, 3), ("F",)]
                cookie = "sub_a=de; sub_b=fr" if fi == 5 else None
                out.append(({"enable": component, "cookie": cookie, "accept": None, "component": component}, ops))
    return out


CORPUS = [
    # scoped views and accessors created before/after sets, tracked and untracked
    ({"enable": True, "cookie": "i18n_pref_locale=fr", "accept": "de"},
     [("A", 0, FL_T, FL_TSTRING), ("C", 0), ("S", 0, 3), ("A", 1, FL_T, FL_TSTRING), ("F",), ("U", 1, 2), ("M", 0, FL_TSTRING), ("F",),
      ("S", 1, 4), ("F",)]),
    # isolation parent/child, then a wired sub-context: write, set, flush orders
    ({"enable": False, "cookie": None, "accept": "fr"},
     [("N", 0, None, None), ("S", 1, 3), ("F",), ("S", 0, 4), ("F",), ("I", 2), ("N", 0, 0, None), ("F",), ("S", 2, 0), ("F",),
      ("W", 0, 2), ("F",), ("W", 0, 1), ("S", 2, 3), ("F",), ("S", 2, 4), ("W", 0, 1), ("F",), ("W", 0, 0), ("F",)]),
    # cookie attached to a sub-context
    ({"enable": True, "cookie": "sub_a=de; i18n_pref_locale=zz", "accept": "pt-PT,pt"},
     [("I", 1), ("N", 0, 0, "sub_a"), ("F",), ("W", 0, 1), ("F",), ("N", 1, None, "sub_b"), ("S", 2, 2), ("F",), ("U", 1, 0), ("F",)]),
]


# ------------------------------------------------------------------ encoding

def op_word(op):
    k = op[0]
    if k == "N":
        return "N%d,%s,%s" % (op[1], "-" if op[2] is None else op[2], C15.enc(op[3]))
    if k in ("S", "U", "W"):
        return "%s%d,%d" % (k, op[1], op[2])
    if k == "A":
        return "%s%d,%d,%d,%d,%d" % ("Z" if fl_frozen(op[2]) else "A", op[1], op[2] % 1024, op[3] % 1024, fl_payload(op[2]), fl_payload(op[3]))
    if k == "M":
        return "%s%d,%d,%d" % ("M" if fl_tracked(op[2]) else "Y", op[1], op[2] % 1024, fl_payload(op[2]))
    if k in ("C", "I"):
        return "%s%d" % (k, op[1])
    if k == "T":
        return "T%d,%s" % (op[1], forest_str(op[2]))
    return k


def line_of(root, ops):
    return "16 %d %s %s %s" % ((1 if root["enable"] else 0) + (2 if root.get("component") else 0), C15.enc(root["cookie"]), C15.enc(root["accept"]),
                               " ".join(op_word(o) for o in ops))


def coq_ops(ops, tb):
    sh, out = Shape(), []
    for op in ops:
        out.append(coq_op(op, tb, sh))
        sh.apply(op)
    return out


def coq_op(op, tb, sh):
    k = op[0]
    if k == "T":
        return "(XRTree %d%%nat %d%%nat %d%%nat %d%%nat %s)" % (op[1], len(sh.handles), sh.nctx, sh.handles[op[1]][0], forest_coq(op[2], tb))
    if k == "N":
        return "(XRaw (RNewSub %d%%nat %s %s))" % (op[1], "None" if op[2] is None else "(Some %d%%nat)" % op[2], "None" if op[3] is None else "(Some %s)" % tb.s(op[3]))
    if k == "I":
        t = "ONewSig %d" % op[1]
    elif k in ("W", "S", "U"):
        t = "%s %d%%nat %d" % ({"W": "OWrite", "S": "OSet", "U": "OSetU"}[k], op[1], op[2])
    elif k == "A":
        return "(XRAcc %d%%nat %s %s)" % (op[1], fl_coq(op[2]), fl_coq(op[3]))
    elif k == "M":
        return "(XRMount %d%%nat %s)" % (op[1], fl_coq(op[2]))
    elif k == "C":
        t = "OScope %d%%nat" % op[1]
    else:
        t = "OGet" if k == "G" else "OFlush"
    return "(XRaw (ROp (%s)))" % t


LAST = {}


class BadTrace(Exception):
    pass


def parse_trace(line, names):
    """-> (trace_a, trace_b): lists of snapshots (handles, accs, watch, cookies, frozen observers)"""
    if "PANIC" in line or "UNSTABLE" in line or line.startswith("BAD"):
        raise BadTrace(line[:300])
    ta, tb_ = [], []
    for snap in line.split(";"):
        h, a, w, c, z = snap.split("/")
        hs = [x for x in h[1:].split(".") if x]
        ac = [x for x in a[1:].split(".") if x]
        zs = [x for x in z[1:].split(".") if x]
        ws = [x for x in w[1:].split(".") if x]
        cs = c[1:].split(".")
        if any(len(x) != 2 or not x.isdigit() for x in hs + ac + zs) or any(len(x) != 1 or not x.isdigit() for x in ws):
            raise BadTrace("unreadable rendering in " + snap)
        cook = []
        for log in cs:
            last = log.split("+")[-1] if log else ""
            cook.append(None if last == "" else (names.index(last) if last in names else 99))
        ta.append(([int(x[0]) for x in hs], [int(x[0]) for x in ac], [int(x) for x in ws], cook, [int(x[0]) for x in zs]))
        tb_.append(([int(x[1]) for x in hs], [int(x[1]) for x in ac], [int(x) for x in ws], cook, [int(x[1]) for x in zs]))
    return ta, tb_


def coq_obs(o):
    return "(mk_obs %s %s %s %s, %s)" % (core.coq_list(map(str, o[0])), core.coq_list(map(str, o[1])), core.coq_list(map(str, o[2])),
                                         core.coq_list(["None" if x is None else "(Some %d)" % x for x in o[3]]),
                                         core.coq_list(map(str, o[4])))


class Oracle:
    """the fixed-locale tables printed by the harness (line `17`): what td_plural!/td_plural_ordinal! select and what
    td_format! / td_format_string! render for every locale and payload; as Coq tables locale -> class of text"""

    def __init__(self, line):
        if not line.startswith("T "):
            raise core.Infra("h_ctx: no oracle table line: " + line[:200])
        self.plural, self.text = {}, {}
        for ent in line[2:].split():
            k, v = ent.split("=")
            a, b, c = k[1:].split(":")
            if k[0] == "P":
                self.plural.setdefault((int(a), int(c)), {})[int(b)] = int(v)
            else:
                self.text.setdefault((k[0], int(a), int(b)), {})[int(c)] = bytes.fromhex(v).decode()
        self.used = {}

    def key(self, f):
        m, p = fl_parts(f)[0], fl_payload(f)
        if m < 9:
            return None
        if m < 13:
            return ("P", 0 if m < 11 else 1, p)
        return ("V" if m < 15 else "S", p // 4, p % 4)

    def table(self, f):
        k = self.key(f)
        if k is None:
            return None
        if k[0] == "P":
            row = self.plural[(k[1], k[2])]
            return [row[l] for l in sorted(row)]
        row = self.text[k]
        ts = [row[l] for l in sorted(row)]
        return [ts.index(t) for t in ts]

    def texts(self, f, names):
        k = self.key(f)
        if k[0] == "P":
            row = self.plural[(k[1], k[2])]
            return {names[l]: FORM_NAMES[row[l]] if row[l] < 6 else "?" for l in sorted(row)}
        return {names[l]: t for l, t in sorted(self.text[k].items())}

    def coq(self, f):
        k = self.key(f)
        if k is None:
            return "None"
        name = "TB_%s_%d_%d_" % k
        self.used[name] = self.table(f)
        return "(Some %s)" % name

    def dectab(self, ops):
        accs, watch, frozen = [], [], []
        for o in ops:
            if o[0] == "A" and fl_frozen(o[2]):
                frozen.append("(%s, %s)" % (self.coq(o[2]), self.coq(o[3])))
            elif o[0] == "A":
                accs.append("(%d%%nat, %s, %s)" % (o[1], self.coq(o[2]), self.coq(o[3])))
            elif o[0] == "M" and fl_tracked(o[2]):
                watch.append(self.coq(o[2]))
            elif o[0] == "M":
                frozen.append("(%s, %s)" % (self.coq(o[2]), self.coq(o[2])))
        return "(mk_dectab %s %s %s)" % (core.coq_list(accs), core.coq_list(watch), core.coq_list(frozen))

    def defs(self):
        # all tables, so that the preamble does not depend on the order of the cases
        for f in ALL_FL:
            self.coq(f)
        return "".join("Definition %s : tbl := %s.\n" % (n, core.coq_list(map(str, t))) for n, t in sorted(self.used.items()))

    def problems(self):
        """string and display variants must agree, the html of a view must be the string"""
        out = []
        for (k, fam, v), row in self.text.items():
            for l, t in row.items():
                if "DIFFER" in t:
                    out.append("td_format_string!/td_format_display! differ: family %d value %d locale %d: %s" % (fam, v, l, t))
                if k == "V" and self.text[("S", fam, v)][l] != t:
                    out.append("td_format! view html %r differs from td_format_string! %r (family %d value %d locale %d)" % (
                        t, self.text[("S", fam, v)][l], fam, v, l))
        return out


def evaluate(ctx, exe, hist, tag="c16"):
    """hist: list of (root, ops) -> (codes, metas); code 4 = harness panic / unstable flush"""
    u, outs = C15.run_harness(exe, ["17"] + [line_of(r, o) for r, o in hist])
    orc, outs = Oracle(outs[0]), outs[1:]
    names, flds = C15.parse_universe(u)
    tb = C15.Tables(names, flds)
    items, idx, metas, codes = [], [], [], [None] * len(hist)
    # the oracle read-backs for the root's headers come from a C15 main run of the same options
    _, o15 = C15.run_harness(exe, [C15.line_of({"kind": "main", "enable": r["enable"], "name": None, "cookie": r["cookie"],
                                                 "accept": r["accept"]}) for r, _ in hist])
    for i, ((root, ops), line, l15) in enumerate(zip(hist, outs, o15)):
        m = {"root": root, "ops": [list(o) for o in ops], "harness_line": line_of(root, ops), "impl_trace": line,
             "flavours": {"op%d" % j: [fl_name(f) for f in o[2:]] for j, o in enumerate(ops) if o[0] in ("A", "M")}}
        trees = {"op%d" % j: "under the owner of handle %d: %s" % (o[1], forest_show(o[2])) for j, o in enumerate(ops) if o[0] == "T"}
        if trees:
            m["component_trees"] = trees
        rows = {fl_name(f): orc.texts(f, names) for o in ops if o[0] in ("A", "M") for f in o[2:] if orc.table(f) is not None}
        if rows:
            m["fixed_locale_oracle"] = rows
        metas.append(m)
        try:
            ta, tb_ = parse_trace(line, names)
        except BadTrace as e:
            codes[i] = 4
            m["bad_trace"] = str(e)
            continue
        o = C15.parse_out(l15)
        main = "(mk_main_opts %s COOKIE_PREFERED_LANG %s %s)" % ("true" if root["enable"] else "false", tb.jar(o["jar"]), tb.acc(o["accept"]))
        items.append("(mk_tcase (mk_xcase APP_ %s %s %s %s) %s)" % (
            main, core.coq_list(coq_ops(ops, tb)), core.coq_list(map(coq_obs, ta)), core.coq_list(map(coq_obs, tb_)),
            orc.dectab(ops)))
        idx.append(i)
    pre = PRE + FL_DEFS + orc.defs() + "\n".join(tb.defs) + "\n"
    res = core.coq_eval(ctx, tag, pre, items, "tcheck", min_per_shard=8)
    for i, c in zip(idx, res):
        codes[i] = c
    LAST["preamble"], LAST["items"], LAST["oracle"] = pre, items, orc
    return codes, metas, names


def shrink_ops(ctx, exe, root, ops, bad_codes):
    rounds = 0
    cur = list(ops)
    chunk = max(1, len(cur) // 2)
    while chunk >= 1 and rounds < 60:
        cands = []
        for i in range(0, len(cur), chunk):
            c = cur[:i] + cur[i + chunk:]
            if c and valid(c):
                cands.append(c)
        if chunk == 1:
            for i in range(len(cur)):
                c = remove_renumbered(cur, i)
                if c and valid(c) and c not in cands:
                    cands.append(c)
            # simpler operations: smaller locale index, no cookie name, no wired signal
            for i, o in enumerate(cur):
                if o[0] in ("S", "U", "W") and o[2] > 1:
                    cands.append(cur[:i] + [(o[0], o[1], o[2] - 1)] + cur[i + 1:])
                if o[0] == "N" and o[3] is not None:
                    cands.append(cur[:i] + [("N", o[1], o[2], None)] + cur[i + 1:])
                if o[0] == "N" and o[2] is not None:
                    cands.append(cur[:i] + [("N", o[1], None, o[3])] + cur[i + 1:])
                if o[0] == "T":
                    cands += [c for c in tree_simplifications(cur, i) if valid(c)]
                # simpler accessors: both of one flavour, no interpolation arguments
                if o[0] == "A":
                    # the same first argument given to td! / t! / t_plural! / t_format! (tracked-ness kept)
                    canon = lambda f: (192 + f % 32 if fl_frozen(f) else f % 32 if f < 288 else
                                       f - 64 * ((fl_parts(f)[0] - 9) // 2) if f % 1024 < 416 else f - 64 * ((fl_parts(f)[0] - 13) // 2))
                    for fa, fb in ((o[2], o[2]), (o[3], o[3]), (o[2] & ~1, o[3]), (o[2], o[3] & ~1), (canon(o[2]), canon(o[3]))):
                        if (fa, fb) != (o[2], o[3]):
                            cands.append(cur[:i] + [("A", o[1], fa, fb)] + cur[i + 1:])
                if o[0] == "M" and o[2] & 1:
                    cands.append(cur[:i] + [("M", o[1], o[2] & ~1)] + cur[i + 1:])
                if o[0] == "M" and 32 <= o[2] < 288 and fl_tracked(o[2] % 32) == fl_tracked(o[2]):
                    cands.append(cur[:i] + [("M", o[1], o[2] % 32)] + cur[i + 1:])
        if not cands:
            chunk //= 2
            continue
        rounds += 1
        codes, _, _ = evaluate(ctx, exe, [(root, c) for c in cands], tag="c16s")
        hit = [c for c, k in zip(cands, codes) if k in bad_codes]
        if hit:
            hit.sort(key=lambda c: (len(c), str(c)))
            cur = hit[0]
            chunk = min(chunk, max(1, len(cur) // 2))
        else:
            chunk //= 2
    return cur


def shrink(ctx, exe, root, ops, bad_codes):
    """greedy delta debugging: drop chunks, then single operations (renumbering later references), then simplify
    operations and the root options, keeping structurally valid histories that still fail"""
    cur = list(ops)
    for _ in range(2):
        cur = shrink_ops(ctx, exe, root, cur, bad_codes)
        changed = False
        comp = bool(root.get("component"))
        for simpler in ({"enable": False, "cookie": None, "accept": None, "component": False},
                        {"enable": False, "cookie": None, "accept": None, "component": comp},
                        {"enable": root["enable"], "cookie": None, "accept": None, "component": comp},
                        {"enable": root["enable"], "cookie": root["cookie"], "accept": None, "component": comp}):
            if simpler == dict(root, component=comp):
                continue
            codes, _, _ = evaluate(ctx, exe, [(simpler, cur)], tag="c16s")
            if codes[0] in bad_codes:
                root, changed = simpler, True
                break
        if not changed:
            break
    return root, cur


def run(ctx):
    from checks import isolate
    isolate.enter(ctx)
    bindir = core.cargo_build("h_ctx")
    ok, problems = core.coq_audit(ctx, PROPS, THEOREMS)
    exe = C15.exe_path(bindir)
    hist = list(CORPUS) + tree_corpus() + flavour_corpus("loc") + flavour_corpus("plural") + flavour_corpus("format")
    n = 400 if ctx.quick else 8000
    for _ in range(n):
        hist.append((gen_root(ctx.rng), gen_history(ctx.rng)))
    codes, metas, names = evaluate(ctx, exe, hist)
    bad = [i for i, c in enumerate(codes) if c == 3]
    dis = [i for i, c in enumerate(codes) if c == 2]
    broken = [i for i, c in enumerate(codes) if c == 4]
    if bad:
        i = min(bad, key=lambda j: len(hist[j][1]))
        root, ops = shrink(ctx, exe, hist[i][0], hist[i][1], (3,))
        c2, m2, _ = evaluate(ctx, exe, [(root, ops)], tag="c16s")
        m2[0]["explanation"] = ("spec_C16 (Coq, Runtime/Context.v) is false on the implementation's trace: some handle / scoped view / "
                                "accessor (created through the macro and context expression listed under 'flavours') / mounted effect "
                                "does not show the locale last set on its context, or a context moved without being set (and "
                                "without a wired initial-locale signal being written)")
        m2[0]["original_length"] = len(hist[i][1])
        core.violation(ctx, "spec", {"failing_input": m2[0], "count": len(bad)})
    elif broken:
        core.violation(ctx, "panic", {"failing_input": metas[broken[0]], "explanation": "the runtime panicked or a flush did not reach quiescence"})
    elif dis or not ok or LAST["oracle"].problems():
        first = None
        if dis:
            i = min(dis, key=lambda j: len(hist[j][1]))
            root, ops = shrink(ctx, exe, hist[i][0], hist[i][1], (2, 3))
            c2, m2, _ = evaluate(ctx, exe, [(root, ops)], tag="c16s")
            first = m2[0]
            first["code"] = c2[0]
        core.violation(ctx, "correspondence", {
            "broken": ("theorem/audit: " + "; ".join(problems)) if not ok else
                      ("fixed-locale oracle tables: " + "; ".join(LAST["oracle"].problems()[:3])) if LAST["oracle"].problems() else
                      "correspondence Runtime/ContextAcc.v (xmodel_trace) vs the real leptos runtime driven through leptos_i18n "
                      "contexts and accessor macros",
            "first_disagreeing_input": first, "disagreements": len(dis)}, no_input=True)
    hist_len, kinds, nontrivial = {}, {}, set()
    # component forests: lookups by position, providers by shape
    tstat = {"forests": 0, "providers": 0, "nested_providers": 0, "forests_with_sibling_providers": 0, "empty_providers": 0,
             "wired_providers": 0, "cookie_providers": 0, "lookups_before_a_provider": 0, "lookups_inside_a_provider": 0,
             "lookups_after_a_provider": 0, "forests_under_a_sub_context": 0, "forests_followed_by_a_set": 0,
             "roots_created_by_I18nContextProvider": sum(1 for r, _ in hist if r.get("component"))}

    def tree_stats(forest, depth):
        seen = False
        if sum(1 for n in forest if n != "L") >= 2:
            tstat["forests_with_sibling_providers"] += 1
        for n in forest:
            if n == "L":
                tstat["lookups_inside_a_provider" if depth else "lookups_after_a_provider" if seen else "lookups_before_a_provider"] += 1
            else:
                seen = True
                tstat["providers"] += 1
                tstat["nested_providers"] += depth > 0
                tstat["empty_providers"] += not n[3]
                tstat["wired_providers"] += n[1] is not None
                tstat["cookie_providers"] += n[2] is not None
                tree_stats(n[3], depth + 1)

    # per flavour: accessors created, of which rendered after a later set / untracked set on their own context, effects mounted
    fstat = {f: {"created": 0, "before_set": 0, "before_set_untracked": 0, "mounted": 0, "mounted_before_set": 0} for f in ALL_FL}
    by_depth = {0: 0, 1: 0, 2: 0}
    for (root, ops), c in zip(hist, codes):
        key = "ops<=%d" % (10 * ((len(ops) + 9) // 10))
        hist_len[key] = hist_len.get(key, 0) + 1
        sh, hctx = Shape(), []
        for o in ops:
            hctx.append(sh.handles[o[1]][0] if o[0] in ("A", "M", "S", "U") else None)
            if o[0] in ("A", "M"):
                by_depth[sh.handles[o[1]][1]] += 1
            if o[0] == "T" and sh.handles[o[1]][0] != 0:
                tstat["forests_under_a_sub_context"] += 1
            sh.apply(o)
        for j, o in enumerate(ops):
            kinds[o[0]] = kinds.get(o[0], 0) + 1
            if o[0] == "T":
                tstat["forests"] += 1
                tree_stats(o[2], 0)
                tstat["forests_followed_by_a_set"] += any(p[0] in ("S", "U") for p in ops[j + 1:])
            if o[0] in ("A", "M"):
                later_s = any(p[0] == "S" and hctx[j2] == hctx[j] for j2, p in enumerate(ops) if j2 > j)
                later_u = any(p[0] == "U" and hctx[j2] == hctx[j] for j2, p in enumerate(ops) if j2 > j)
                for f in o[2:]:
                    st = fstat[f]
                    if o[0] == "A":
                        st["created"] += 1
                        st["before_set"] += later_s
                        st["before_set_untracked"] += later_u
                    else:
                        st["mounted"] += 1
                        st["mounted_before_set"] += later_s
        if any(o[0] in ("S", "U") for o in ops) and any(o[0] == "N" for o in ops):
            nontrivial.add(line_of(root, ops))
    core.write_evidence(ctx, {
        "evaluations": len(hist), "distinct_nontrivial": len(nontrivial),
        "steps_compared": sum(len(o) + 1 for _, o in hist),
        "rule": "corpus histories first (3 hand-written; 24 component-tree histories: Header / <I18nSubContextProvider>(Inner) / "
                "Footer, nested, sibling, empty, wired and cookie providers x root by init_i18n_context or by <I18nContextProvider> x "
                "rendered under the root or under a sub-context, lazy use_i18n() accessors on the first and last lookup, a set "
                "through every handle; then systematic families: every t!-family flavour = 9 macros x 10 kinds of "
                "first-argument expression x with/without interpolation arguments; every plural macro (t_/tu_plural!, "
                "t_/tu_plural_ordinal!) and every format macro (t_/tu_format!, _string, _display) x 10 kinds of context "
                "expression with rotating payloads (counts 0 1 2 3 5 11 21 100; number/date/list values); each on every scope "
                "depth, created before a set (to ar), an untracked set (to ru) and a set through another view (to fr), half of them "
                "mounted in an effect, alternately on the root and on a sub-context), then random histories with random flavours "
                "of all families: <=6 contexts (root + sub-contexts below any context, with/without a "
                "wired caller signal, with/without a cookie name), <=40 ops among set/set_untracked/scope/accessor/mount/new signal/"
                "signal write/flush/observe, flushes interleaved at random; random root options (cookies on/off, Cookie and "
                "Accept-Language headers); non-trivial = at least one set and one sub-context; distinct by scenario line",
        "samples": metas[:2] + metas[len(metas) // 2:len(metas) // 2 + 1],
        "traces_validated_against_impl": len(hist) - len(broken),
        "disagreements": len(dis), "spec_failures_on_impl": len(bad), "harness_panics_or_unstable": len(broken),
        "input_distribution": {
            "history_length": hist_len, "operation_kinds": kinds, "component_forests": tstat,
            "accessor_flavours": {
                "flavours_total": len(ALL_FL),
                "flavours_by_family": {k: len(v) for k, v in FAMILY_FL.items()},
                "by_plural_count": {str(COUNTS[p]): sum(fstat[f]["created"] + fstat[f]["mounted"] for f in PLURAL_FL if fl_payload(f) == p)
                                    for p in range(8)},
                "by_format_payload": {"%s %s" % (FMT_FORMATTER[p // 4], FMT_VALUES[p // 4][p % 4]):
                                      sum(fstat[f]["created"] + fstat[f]["mounted"] for f in FORMAT_FL if fl_payload(f) == p)
                                      for p in FMT_PAYLOADS},
                "flavours_created_and_rendered_after_a_later_set": sum(1 for f in ALL_FL if fstat[f]["before_set"]),
                "flavours_created_and_rendered_after_a_later_untracked_set": sum(1 for f in ALL_FL if fstat[f]["before_set_untracked"]),
                "flavours_mounted_before_a_later_set": sum(1 for f in ALL_FL if fstat[f]["mounted_before_set"]),
                "accessors_and_effects_by_scope_depth": by_depth,
                "by_macro": {MACRO_NAMES[m]: {k: sum(fstat[f][k] for f in ALL_FL if fl_parts(f)[0] == m)
                                             for k in ("created", "before_set", "before_set_untracked", "mounted", "mounted_before_set")}
                             for m in range(len(MACROS))},
                "by_first_argument_kind": {"%s | td!: %s" % (CTX_EXPR[e], LOC_EXPR[e]):
                                           {k: sum(fstat[f][k] for f in ALL_FL if fl_parts(f)[1] == e)
                                            for k in ("created", "before_set", "before_set_untracked", "mounted", "mounted_before_set")}
                                           for e in range(10)},
                "with_arguments": {str(bool(i)): sum(fstat[f]["created"] + fstat[f]["mounted"] for f in ALL_FL if fl_parts(f)[2] == i)
                                   for i in range(2)},
                "least_exercised_flavour": min(({"flavour": fl_name(f), **fstat[f]} for f in ALL_FL),
                                               key=lambda d: (d["before_set"], d["created"])),
            }}, "audit_problems": problems,
    }, assumptions=[
        "leptos' scheduler is observed, not modelled: a flush is 12 executor ticks and is checked to be quiescent (a second flush "
        "changes nothing); effects only run at those points in a single-threaded native run",
        "harness build = ssr feature + reactive_graph/effects: not a production configuration",
        "component forests are observed once after rendering; the observations after each of the operations a forest is checked "
        "as are that observation cut to the handles and contexts existing then (nothing is set or flushed in between)",
        "'observe' is read as 'when evaluated after the call'; a mounted effect is not re-run by set_locale_untracked (DESIGN §5 C16)",
        "frozen observers (td! over a Locale value bound at creation, effects over untracked accessors) are compared with the model "
        "only; the property demands nothing of them",
        "use_i18n() is evaluated under the owner of the context the accessor belongs to (creation and every rendering)",
        "plural and format accessors: the expected text per locale is what the fixed-locale macro (td_plural!, td_plural_ordinal!, "
        "td_format!, td_format_string!) renders in the same process; those tables are checked against CLDR / ICU4X by C05 and C18",
        "the root context's Cookie/Accept-Language oracles are read back as in C15"])


def replay(ctx, path):
    from checks import isolate
    isolate.enter(ctx)
    obj = json.load(open(path))
    fi = obj.get("failing_input") or obj.get("first_disagreeing_input")
    if not fi or "ops" not in fi:
        print(json.dumps(obj, indent=1))
        return 0
    bindir = core.cargo_build("h_ctx")
    ops = [tup(o) for o in fi["ops"]]
    codes, metas, names = evaluate(ctx, C15.exe_path(bindir), [(fi["root"], ops)], tag="c16r")
    print("root:", json.dumps(fi["root"]))
    print("ops:", " ".join(op_word(o) for o in ops))
    for j, o in enumerate(ops):
        if o[0] in ("A", "M"):
            print("  op %d %s on handle %d: %s" % (j, "accessors" if o[0] == "A" else "mounted effect over", o[1],
                                                 " ; ".join(fl_name(f) for f in o[2:])))
        if o[0] == "T":
            print("  op %d components rendered under the owner of handle %d: %s" % (j, o[1], forest_show(o[2])))
    print("implementation trace:", metas[0]["impl_trace"])
    if LAST.get("items"):
        c = "(t_case %s)" % LAST["items"][0]
        rows = metas[0].get("fixed_locale_oracle")
        if rows:
            print("fixed-locale oracle (what td_plural!/td_format!.. render per locale):")
            for nm, row in rows.items():
                print("  %s: %s" % (nm, json.dumps(row, ensure_ascii=False)))
            print("(plural / format renderings are printed as the class of their text and read back as a locale, see "
                  "Runtime/ContextAccCheck.v dec_trace)")
        print("model trace (handles, accessors, mounted, cookies, frozen observers per step):", core.coq_show(
            ctx, LAST["preamble"],
            "let c := %s in map (fun o => (o_handles (fst o), o_accs (fst o), o_watch (fst o), o_cookies (fst o), snd o)) "
            "(xmodel_trace (init_main true (x_app c) (x_main c)) "
            "(mo_enable_cookie (x_main c)) (flat_map (xcook (x_app c) (x_main c)) (x_ops c)))" % c))
        for nm, fld, sel in (("first trace: untracked reads, first accessor of each pair", "x_impl_a", "true"),
                             ("second trace: tracked reads, second accessor of each pair", "x_impl_b", "false")):
            print("first differing step (%s):" % nm, core.coq_show(
                ctx, LAST["preamble"],
                "let tc := %s in let c := t_case tc in "
                "let m := xmodel_trace (init_main true (x_app c) (x_main c)) (mo_enable_cookie (x_main c)) "
                "(flat_map (xcook (x_app c) (x_main c)) (x_ops c)) in xfirst_diff 0 m (dec_trace (t_dec tc) %s m (expand_trace (x_app c) (x_main c) (x_ops c) (%s c)))"
                % (LAST["items"][0], sel, fld)))
    print("check code (0 ok, 2 model differs, 3 spec violated, 4 panic/unstable):", codes[0])
    return 1 if codes[0] in (3, 4) else 0
