"""Pairwise coverage bookkeeping for the generators of C03 / C07 / C19.

A property declares its dimensions (name -> list of values) and tags every *observation* (a
generated case, or one (locale, key) of a generated project) with one value per dimension.  The
table counts, for every pair of dimensions and every pair of their values, how many observations
carry both.  A zero cell is either explained by the property's `infeasible(d1, v1, d2, v2)` rule
(returns the reason) or it is a coverage gap, listed in the evidence and closed by the directed
generator (`greedy`): candidate scenarios are drawn from the rng, built, tagged by the same
independent tagging function, and kept only when they fill a so far empty feasible cell."""
import itertools


class Table:
    def __init__(self, dims, infeasible):
        self.dims = dims                      # ordered dict name -> list of values
        self.names = list(dims)
        self.infeasible = infeasible
        self.counts = {}
        self.n_obs = 0

    def cells_of(self, obs):
        items = [(d, obs[d]) for d in self.names if obs.get(d) is not None]
        for (d1, v1), (d2, v2) in itertools.combinations(items, 2):
            yield (d1, v1, d2, v2)

    def add(self, obs, weight=1):
        for d, v in obs.items():
            if v is not None and v not in self.dims[d]:
                raise ValueError("value %r is not declared for dimension %s" % (v, d))
        self.n_obs += weight
        for c in self.cells_of(obs):
            self.counts[c] = self.counts.get(c, 0) + weight

    def new_cells(self, obs):
        return [c for c in self.cells_of(obs) if self.counts.get(c, 0) == 0]

    def all_cells(self):
        for d1, d2 in itertools.combinations(self.names, 2):
            for v1 in self.dims[d1]:
                for v2 in self.dims[d2]:
                    yield (d1, v1, d2, v2)

    def why_infeasible(self, c):
        d1, v1, d2, v2 = c
        return self.infeasible(d1, v1, d2, v2) or self.infeasible(d2, v2, d1, v1)

    def gaps(self):
        return [c for c in self.all_cells() if self.counts.get(c, 0) == 0 and not self.why_infeasible(c)]

    def report(self, max_list=60):
        total = nonzero = 0
        infeasible = {}
        gaps = []
        wrongly_infeasible = []
        for c in self.all_cells():
            total += 1
            n = self.counts.get(c, 0)
            why = self.why_infeasible(c)
            if n:
                nonzero += 1
                if why:
                    wrongly_infeasible.append("%s=%s x %s=%s (%d)" % (c + (n,)))
            elif why:
                infeasible.setdefault(why, []).append("%s=%s x %s=%s" % c)
            else:
                gaps.append("%s=%s x %s=%s" % c)
        table = {}
        for d1, d2 in itertools.combinations(self.names, 2):
            t = {}
            for v1 in self.dims[d1]:
                for v2 in self.dims[d2]:
                    t["%s|%s" % (v1, v2)] = self.counts.get((d1, v1, d2, v2), 0)
            table["%s x %s" % (d1, d2)] = t
        return {
            "dimensions": {d: list(v) for d, v in self.dims.items()},
            "observations": self.n_obs,
            "cells_total": total, "cells_reached": nonzero,
            "cells_infeasible": sum(len(v) for v in infeasible.values()),
            "zero_cells_feasible": gaps[:max_list], "zero_cells_feasible_count": len(gaps),
            "zero_cells_infeasible_by_reason": {k: {"count": len(v), "cells": v[:12]} for k, v in infeasible.items()},
            "cells_reached_although_declared_infeasible": wrongly_infeasible[:20],
            "table": table,
        }


def greedy(table, rng, draw, build, tag, max_tries=4000, max_keep=400):
    """draw(rng, gap) -> scenario aimed at a gap cell; build(scenario) -> case or None; tag(case) -> observations.
    Keeps the cases that reach an empty feasible cell.  Returns the kept cases."""
    kept = []
    tries = 0
    stale = 0
    while tries < max_tries and len(kept) < max_keep:
        gaps = table.gaps()
        if not gaps:
            break
        gap = gaps[rng.randrange(len(gaps))] if stale < 50 else gaps[tries % len(gaps)]
        tries += 1
        sc = draw(rng, gap)
        case = build(sc) if sc is not None else None
        if case is None:
            stale += 1
            continue
        obs = tag(case)
        if any(table.new_cells(o) for o in obs):
            for o in obs:
                table.add(o)
            kept.append(case)
            stale = 0
        else:
            stale += 1
    return kept


def add_all(table, observations):
    """add many observations, identical ones aggregated first"""
    agg = {}
    for o in observations:
        k = tuple(sorted(o.items()))
        agg[k] = agg.get(k, 0) + 1
    for k, n in agg.items():
        table.add(dict(k), n)
