"""C09 — loading translations never panics or hangs (string-level parser part; pipeline parts are added
by the sections below as they are built).
Theorems: coq/theories/Props/C09.v.  Correspondence: h_parser (ParsedValue::new under catch_unwind)."""
import json

from vlib import core
from checks import parsegen, parse_common

THEOREMS = ["C09_parse_total", "C09_scan_boundaries", "C09_parse_old_refuted", "C09_parse_fixed_witness"]
PROPS = "theories/Props/C09.v"
REGISTRY = {
    "level": "proof",
    "technique": "Coq totality proof of the parser model (no Panic, fuel adequacy) + differential correspondence under catch_unwind",
    "text": "C09_parse_total: for EVERY string ParsedValue::new (model) returns Ok/Err, never panics (every recorded slice offset is a "
            "character boundary: C09_scan_boundaries) and needs at most length+2 nested calls. The model is tied to /repo by running the "
            "real parser under catch_unwind on a malformed stream (grammar-aware mutations, token soups, foreign-key argument variants, "
            "multibyte characters next to delimiters) and comparing result classes. Partial: ranges/plurals/merge/resolution/codegen totality "
            "are being added; stack depth and wall-clock are runtime behaviour (the theorem bounds the recursion depth).",
    "design_ref": "DESIGN.md §5 C09",
    "note": "Trusted: Coq kernel + vm_compute; model tied by correspondence; syn::Ident and serde_json are oracles assumed not to panic; "
            "Python generator; h_parser harness. No axioms.",
    "engine": "coq",
    "packages": [("h_parser",)],
}


def shrink(ctx, s, pred):
    """greedy character deletion while pred(s) stays true"""
    changed = True
    while changed and len(s) > 1:
        changed = False
        for i in range(len(s)):
            t = s[:i] + s[i + 1:]
            if pred(t):
                s, changed = t, True
                break
    return s


def run(ctx):
    ok, problems = core.coq_audit(ctx, PROPS, THEOREMS)
    n_valid, n_mal = (600, 2400) if ctx.quick else (6000, 30000)
    cases = parsegen.gen_cases(ctx.rng, n_valid, n_mal)
    meta, codes, _ = parse_common.evaluate(ctx, "c09", cases, "check_C09")
    panics = [m for m, c in zip(meta, codes) if c == 3]
    disagree = [m for m, c in zip(meta, codes) if c == 2]
    unmodelled = sum(1 for c in codes if c == 1)
    if panics:
        panics.sort(key=lambda m: len(m["input"]))
        first = panics[0]

        def still_panics(t):
            m2, c2, _ = parse_common.evaluate(ctx, "c09s", [(t, None, "shrink")], "check_C09")
            return c2[0] == 3
        small = shrink(ctx, first["input"], still_panics) if len(first["input"]) <= 40 else first["input"]
        core.violation(ctx, "panic", {
            "failing_input": small, "code_points": [ord(c) for c in small], "found_as": first,
            "observed": "ParsedValue::new panicked (caught by catch_unwind in h_parser)",
            "model": parse_common.show_model(ctx, small), "count": len(panics)})
    elif disagree or not ok:
        d = disagree[0] if disagree else None
        core.violation(ctx, "correspondence", {
            "broken": ("theorem/audit: " + "; ".join(problems)) if not ok else
                      "correspondence Parser/Parse.v (parse_top) vs ParsedValue::new: result class (Ok / Err kind / Panic) differs",
            "first_disagreeing_input": d, "model": parse_common.show_model(ctx, d["input"]) if d else None,
            "disagreements": len(disagree)}, no_input=True)
    kinds = {}
    for m, c in zip(meta, codes):
        k = "%s:%s" % (m["kind"], m["impl"].split(" ")[0].strip("()") + (m["impl"].split(" ")[1].strip("()") if m["impl"].startswith("(Err") else ""))
        kinds[k] = kinds.get(k, 0) + 1
    distinct = len(set(m["input"] for m in meta if len(m["input"]) > 3 and m["kind"] != "corpus"))
    core.write_evidence(ctx, {
        "evaluations": len(meta), "distinct_nontrivial": distinct,
        "rule": "strings printed from generated source ASTs (valid stream) + grammar-aware mutations, token soups, foreign-key "
                "argument variants and invalid names (malformed stream), corpus of earlier failures first; non-trivial = longer than 3 "
                "characters, distinct by string",
        "samples": [meta[0], meta[1], meta[len(parsegen.CORPUS)], meta[-1], meta[-2]],
        "traces_validated_against_impl": len(meta) - unmodelled, "unmodelled_skipped": unmodelled,
        "disagreements": len(disagree), "panics": len(panics), "input_distribution": kinds, "audit_problems": problems,
    }, assumptions=[
        "serde_json (argument objects) and syn::Ident (identifier check) are oracles of the model; the correspondence uses "
        "an ASCII-exact identifier check and a JSON sub-grammar reader and skips inputs outside them (counted as unmodelled)",
        "stack depth and wall-clock are runtime behaviour: the theorem bounds the recursion by the input length, it cannot exhibit an overflow"])


def replay(ctx, path):
    obj = json.load(open(path))
    s = obj.get("failing_input") or (obj.get("first_disagreeing_input") or {}).get("input")
    print(json.dumps(obj, indent=1, ensure_ascii=False))
    if isinstance(s, str):
        meta, codes, _ = parse_common.evaluate(ctx, "c09r", [(s, None, "replay")], "check_C09")
        print("implementation:", meta[0]["impl"])
        print("model:", parse_common.show_model(ctx, s))
        print("check_C09 code:", codes[0])
    return 0
