"""C09 — loading translations never panics or hangs.
Section 1 (string level): Coq totality theorem for ParsedValue::new + differential correspondence (h_parser, catch_unwind).
Section 2 (pipeline): the rest of the loader (ranges, plurals, merge, foreign-key resolution, configuration), the build-script
API and the code generator are NOT modelled in Coq; they are covered by correspondence + fault enumeration: a project-level
malformed stream run through parse_locales (h_order `total`), leptos_i18n_build (h_total) and the in-process code generator,
every stage under catch_unwind, stack-depth probes in child processes.
Theorems: coq/theories/Props/C09.v."""
import json
import os
import re
import subprocess

from vlib import core
from checks import parsegen, parse_common, pipeline_gen

THEOREMS = ["C09_parse_total", "C09_scan_boundaries", "C09_parse_old_refuted", "C09_parse_fixed_witness", "C09_range_count_total", "C09_model_parse_total"]
PROPS = "theories/Props/C09.v"
PROPS_C = "theories/Props/C09c.v"
THEOREMS_C = ["C09_default_of_terminates", "C09_default_of_inner_terminates", "C09_compute_terminates", "C09_default_of_start_only_refuted"]
PROPS_B = "theories/Props/C09b.v"
THEOREMS_B = ["C09_resolve_terminates", "C09_resolve_terminates_own", "C09_resolve_terminates_stack", "C09_project_keys", "C09_final_value_terminates", "C09_walk_fuel_adequate", "C09_walk_stops", "C09_look_one_restart"]
REGISTRY = {
    "level": "proof",
    "technique": "Coq totality proof of the parser model (no Panic, fuel adequacy) + differential correspondence under catch_unwind",
    "text": "C09_parse_total: for EVERY string ParsedValue::new (model) returns Ok/Err, never panics (every recorded slice offset is a "
            "character boundary: C09_scan_boundaries) and needs at most length+2 nested calls; Props/C09b.v: foreign-key resolution terminates within its fuel for every project (C09_resolve_terminates, bound D + N*(D+1)); Props/C09c.v: DefaultedLocales::default_of / compute terminate for every inherits table, rho shapes included (C09_default_of_terminates, C09_compute_terminates). The model is tied to /repo by running the "
            "real parser under catch_unwind on a malformed stream (grammar-aware mutations, token soups, foreign-key argument variants, "
            "multibyte characters next to delimiters) and comparing result classes. PIPELINE (not proved, correspondence + fault "
            "enumeration only): whole malformed projects (bad configs, empty/mistyped files, NaN/inf/overflowing range bounds in every "
            "range syntax, literal counts missing every branch, $t in plural forms and range branches, cycles, plural groups with "
            "non-identifier base keys or null forms, dashed keys in interpolations, kind mismatches, duplicate keys, deep nesting) are "
            "run through parse_locales, TranslationsInfos::parse_at_dir/get_translations/write_to_dir/get_icu_keys and the macro crate's "
            "code generator, each stage under catch_unwind: every stage must end Ok or with a descriptive Err; nested-tag / "
            "interpolation / foreign-key-chain depth probes run in child processes under the 8 MiB main-thread stack. Stack depth and "
            "wall-clock are runtime behaviour (the theorem bounds the recursion depth of the string parser only).",
    "design_ref": "DESIGN.md §5 C09",
    "note": "Trusted: Coq kernel + vm_compute; model tied by correspondence; syn::Ident and serde_json are oracles assumed not to panic; "
            "Python generator; h_parser harness. No axioms.",
    "engine": "coq",
    "packages": [("h_parser",), ("h_order", ("json",), "target_order_json"), ("h_total",)],
}


def shrink(ctx, s, pred):
    """greedy character deletion while pred(s) stays true"""
    changed = True
    while changed and len(s) > 1:
        changed = False
        for i in range(len(s)):
            t = s[:i] + s[i + 1:]
            if pred(t):
                s, changed = t, True
                break
    return s


def run(ctx):
    from checks import isolate
    isolate.enter(ctx)
    ok, problems = core.coq_audit_multi(ctx, [(PROPS, THEOREMS), (PROPS_B, THEOREMS_B), (PROPS_C, THEOREMS_C)])   # C09b: foreign-key resolution terminates within its fuel
    n_valid, n_mal = (600, 2400) if ctx.quick else (6000, 30000)
    cases = parsegen.gen_cases(ctx.rng, n_valid, n_mal)
    meta, codes, _ = parse_common.evaluate(ctx, "c09", cases, "check_C09")
    panics = [m for m, c in zip(meta, codes) if c == 3]
    disagree = [m for m, c in zip(meta, codes) if c == 2]
    unmodelled = sum(1 for c in codes if c == 1)
    if panics:
        panics.sort(key=lambda m: len(m["input"]))
        first = panics[0]

        def still_panics(t):
            m2, c2, _ = parse_common.evaluate(ctx, "c09s", [(t, None, "shrink")], "check_C09")
            return c2[0] == 3
        small = shrink(ctx, first["input"], still_panics) if len(first["input"]) <= 40 else first["input"]
        core.violation(ctx, "panic", {
            "failing_input": small, "code_points": [ord(c) for c in small], "found_as": first,
            "observed": "ParsedValue::new panicked (caught by catch_unwind in h_parser)",
            "model": parse_common.show_model(ctx, small), "count": len(panics)})
    elif disagree or not ok:
        d = disagree[0] if disagree else None
        core.violation(ctx, "correspondence", {
            "broken": ("theorem/audit: " + "; ".join(problems)) if not ok else
                      "correspondence Parser/Parse.v (parse_top) vs ParsedValue::new: result class (Ok / Err kind / Panic) differs",
            "first_disagreeing_input": d, "model": parse_common.show_model(ctx, d["input"]) if d else None,
            "disagreements": len(disagree)}, no_input=True)
    kinds = {}
    for m, c in zip(meta, codes):
        k = "%s:%s" % (m["kind"], m["impl"].split(" ")[0].strip("()") + (m["impl"].split(" ")[1].strip("()") if m["impl"].startswith("(Err") else ""))
        kinds[k] = kinds.get(k, 0) + 1
    distinct = len(set(m["input"] for m in meta if len(m["input"]) > 3 and m["kind"] != "corpus"))
    pipe = pipeline(ctx)
    core.write_evidence(ctx, {
        "evaluations": len(meta) + pipe["stage_runs"], "distinct_nontrivial": distinct + pipe["distinct_projects"],
        "pipeline": pipe,
        "rule": "strings printed from generated source ASTs (valid stream) + grammar-aware mutations, token soups, foreign-key "
                "argument variants and invalid names (malformed stream), corpus of earlier failures first; non-trivial = longer than 3 "
                "characters, distinct by string",
        "samples": [meta[0], meta[1], meta[len(parsegen.CORPUS)], meta[-1], meta[-2]],
        "traces_validated_against_impl": len(meta) - unmodelled, "unmodelled_skipped": unmodelled,
        "disagreements": len(disagree), "panics": len(panics), "input_distribution": kinds, "audit_problems": problems,
    }, assumptions=[
        "serde_json (argument objects) and syn::Ident (identifier check) are oracles of the model; the correspondence uses "
        "an ASCII-exact identifier check and a JSON sub-grammar reader and skips inputs outside them (counted as unmodelled)",
        "stack depth and wall-clock are runtime behaviour: the theorem bounds the recursion by the input length, it cannot exhibit an overflow",
        "pipeline section: no Coq model of ranges/plurals/merge/resolution/config/codegen panic sites; what is claimed is that the "
        "enumerated fault classes and the random malformed stream end Ok/Err in every stage (catch_unwind), nothing more",
        "the code generator is the macro crate's source compiled into h_order by #[path] (parser with the `quote` feature, as in the "
        "macro); the build-script side links leptos_i18n_build as a build.rs does (parser without `quote`, skip_icu_cfg = true)",
        "harness crates are built with opt-level 1 for dependencies: real proc-macro/build-script builds use opt-level 0, whose larger "
        "frames overflow the stack earlier than the measured thresholds"])


def replay(ctx, path):
    from checks import isolate
    isolate.enter(ctx)
    obj = json.load(open(path))
    s = obj.get("failing_input") or (obj.get("first_disagreeing_input") or {}).get("input")
    print(json.dumps(obj, indent=1, ensure_ascii=False))
    if isinstance(s, str):
        meta, codes, _ = parse_common.evaluate(ctx, "c09r", [(s, None, "replay")], "check_C09")
        print("implementation:", meta[0]["impl"])
        print("model:", parse_common.show_model(ctx, s))
        print("check_C09 code:", codes[0])
    return 0


# ====================================================================== section 2: pipeline (correspondence + fault enumeration)

PLURAL_NULL = re.compile(r'_(zero|one|two|few|many|other)":\s*null')
# id, stage(s), panic-message pattern, predicate on the (shrunk) project's files
PIPELINE_CLASSES = [
    ("C09-plural-base-key-not-identifier", re.compile(r"merge_plurals_1"), None),
    ("C09-foreign-key-in-plural-form", re.compile(r"resolve_foreign_keys_1"), None),
    ("C09-nonfinite-range-bounds", re.compile(r"is_finite"), None),
    ("C09-dashed-key-builder-ident", re.compile(r"_builder\\?\" is not a valid Ident"), None),
    ("C09-typed-range-without-branch", re.compile(r"0 locales \?"), None),
    ("C09-null-plural-form", re.compile(r"defaulted value should never"), lambda files: any(PLURAL_NULL.search(t or "") for t in files.values())),
    ("C09-null-range-value", re.compile(r"defaulted value should never"), lambda files: any("[null" in re.sub(r"\s", "", t or "") for t in files.values())),
]
CONFIG_ERRORS = {"ConfigFileDeser", "ConfigNotPresent", "DuplicateLocalesInConfig", "DuplicateNamespacesInConfig", "ManifestNotFound",
                 "CargoDirEnvNotPresent", "MissingTranslationsURI", "NoFileFormats", "MultipleFilesFormats"}
LOCATION = re.compile(r'\$DIR|locale \\?"|key \\?"|at key')


def classify_panic(msg, files):
    for cid, pat, pred in PIPELINE_CLASSES:
        if pat.search(msg) and (pred is None or pred(files)):
            return cid
    return None


WATCHDOG_S = {"quick": 20, "thorough": 40}
WATCHDOG = [20]          # seconds a single project may take in one process before it is declared hung (set per tier in pipeline())


def run_batch(exe, args, dirs, timeout=None, watchdog=None):
    """one process for many inputs (project directories / lines), every input under a wall-clock watchdog: the harness flushes a
    line after every stage and `END` after every input; if nothing arrives for [watchdog] seconds the process is killed, the
    input is recorded as `X HANG <what was reached>` and the rest is run in a new process.  A process that dies (abort / stack
    overflow) is recorded as `X CRASH`.  -> per input: list of output lines"""
    import queue
    import threading
    import time
    wd = watchdog or WATCHDOG[0]
    res = {}
    todo = list(dirs)
    hangs = 0
    while todo:
        if hangs >= 2:
            wd = min(wd, 3)      # the verdict is already "HANG": do not spend the full watchdog on every further input
        if hangs >= 8:
            for d in todo:       # ... and after eight of them the remaining inputs are not run at all
                res[d] = ["S\tnot-run\tafter 8 hangs in this batch"]
            break
        p = subprocess.Popen([exe] + args, stdin=subprocess.PIPE, stdout=subprocess.PIPE, stderr=subprocess.DEVNULL, text=True)
        q = queue.Queue()

        def feed(p=p, todo=todo):
            try:
                p.stdin.write("".join(d + "\n" for d in todo))
                p.stdin.close()
            except (BrokenPipeError, OSError):
                pass

        def read(p=p, q=q):
            for l in p.stdout:
                q.put(l.rstrip("\n"))
            q.put(None)
        threading.Thread(target=feed, daemon=True).start()
        threading.Thread(target=read, daemon=True).start()
        cur, done, verdict = [], 0, None
        last = time.time()
        while done < len(todo):
            try:
                l = q.get(timeout=max(0.05, wd - (time.time() - last)))
            except queue.Empty:
                verdict = "HANG\tno answer within %d s after: %s" % (wd, " ; ".join(x.replace("\t", " ")[:40] for x in cur) or "(nothing)")
                hangs += 1
                break
            if l is None:
                p.wait()
                verdict = "CRASH\texit status %s" % p.returncode
                break
            if l.startswith("END\t"):
                res[todo[done]] = cur
                cur, done = [], done + 1
                last = time.time()
            else:
                cur.append(l)
        if verdict is None:
            p.wait()
            break
        p.kill()
        p.wait()
        res[todo[done]] = cur + ["X\t" + verdict]
        todo = todo[done + 1:]
    return [res[d] for d in dirs]


def stage_results(lines):
    """-> {stage letter: (class, variant-or-message, text)}"""
    r = {}
    for l in lines:
        f = l.split("\t")
        if f[0] in "PDGBTILXS" and len(f) >= 2:
            r[f[0]] = (f[1], f[2] if len(f) > 2 else "", f[3] if len(f) > 3 else "")
    return r


def pipeline_exes(ctx):
    macro = os.path.join(core.cargo_build("h_order", features=["json"], target_sub="target_order_json"), "h_order")
    build = os.path.join(core.cargo_build("h_total"), "h_total")
    return macro, build


def run_projects(root, macro, build, projs, tag, watchdog=None):
    dirs = []
    for i, p in enumerate(projs):
        d = os.path.join(root, "%s%d" % (tag, i))
        pipeline_gen.write(d, p)
        dirs.append(d)
    m = run_batch(macro, ["total"], dirs, watchdog=watchdog)
    b = run_batch(build, [], dirs, watchdog=watchdog)
    out = []
    for x, y in zip(m, b):
        sx, sy = stage_results(x), stage_results(y)
        if "X" in sx and "X" in sy:
            sy["X"] = (sx["X"][0], sx["X"][1] + " | build side: " + sy["X"][1], "")
        out.append(dict(sx, **sy))
    return out


def failures_of(st, files):
    """-> list of (kind, stage, class id or None, message)"""
    out = []
    for stage, (cls, a, b) in st.items():
        if cls == "PANIC":
            out.append(("panic", stage, classify_panic(a, files), a))
        elif stage == "X":
            out.append(("crash" if cls == "CRASH" else "hang", stage, None, a))     # HANG: a stage did not return (watchdog)
        elif cls == "err" and stage in "PB":
            if not b.strip():
                out.append(("empty-error", stage, None, a))
            elif a not in CONFIG_ERRORS and not LOCATION.search(b) and '"' not in b:
                out.append(("error-without-location", stage, None, a + ": " + b))
    return out


def depth_probe(exe, root, kind, n, timeout=300):
    d = os.path.join(root, "depth")
    pipeline_gen.write(d, pipeline_gen.depth_project(kind, n))
    try:
        p = subprocess.run([exe, "depth"], input=d + "\n", capture_output=True, text=True, timeout=timeout)
        return p.returncode
    except subprocess.TimeoutExpired:
        return "timeout"


DEPTH_KINDS = ["nested-tags", "interpolations", "sibling-tags", "fk-chain"]
DEPTH_PLAUSIBLE = 500          # a single translation with 500 tags / variables (about 5 KB) is already far beyond real files


def pipeline(ctx):
    macro, build = pipeline_exes(ctx)
    # one directory per invocation: concurrent checks must not share project / depth-probe directories
    root = os.path.join(ctx.work, "pipeline_s%d_%d" % (ctx.seed, os.getpid()))
    os.makedirs(root, exist_ok=True)
    try:
        return _pipeline(ctx, macro, build, root)
    finally:
        import shutil
        shutil.rmtree(root, ignore_errors=True)


# ---- DefaultedLocales: the real default_of / compute on generated tables against the Coq model (Parser/Defaults.v)
PRE_D = ("From Coq Require Import List NArith Bool.\nImport ListNotations.\nFrom LI Require Import Base.StrOps.\n"
         "From LI Require Import Parser.Defaults.\nFrom LI Require Import Parser.DefaultsCheck.\nOpen Scope N_scope.\n")


def defaults_tables(rng, n):
    out = []
    for nm, ls, table in pipeline_gen.inherits_shapes():
        out.append((nm, "en", table, ls + ["en", "zz"]))
        # the per-key table only holds the locales whose value is defaulted: every sub-table of a shape occurs too
        for _ in range(2):
            sub = {k: v for k, v in table.items() if rng.random() < 0.7}
            out.append((nm + "/sub", "en", sub, ls + ["en"]))
    for _ in range(n):
        ls = pipeline_gen.LOCS6[:rng.randint(1, 6)]
        table = {l: rng.choice(ls + ["en", "en"]) for l in ls if rng.random() < 0.85}
        out.append(("random", "en", table, ls + ["en"]))
    return out


def defaults_correspondence(ctx, macro):
    tabs = defaults_tables(ctx.rng, 150 if ctx.quick else 1500)
    lines = ["%s|%s|%s" % (d, ",".join("%s>%s" % kv for kv in t.items()), ",".join(q)) for _, d, t, q in tabs]
    outs = run_batch(macro, ["defaults"], lines, watchdog=5)
    items, meta = [], []
    not_run = 0
    for (nm, d, t, q), o in zip(tabs, outs):
        got = {}
        if any(l.startswith("S\t") for l in o):
            not_run += 1          # the batch was cut short after repeated hangs
            continue
        hang = any(l.startswith("X\t") for l in o)
        for l in o:
            if l.startswith("R "):
                for pair in l[2:].split("|")[0].split(","):
                    if "=" in pair:
                        a, b = pair.split("=")
                        got[a] = b
        impl = core.coq_list(["(%s, %s)" % (core.coq_str(x), "(Some %s)" % core.coq_str(got[x]) if x in got else "None") for x in q])
        items.append("(mk_case %s %s %s)" % (core.coq_str(d), core.coq_list(["(%s, %s)" % (core.coq_str(a), core.coq_str(b)) for a, b in t.items()]), impl))
        meta.append({"shape": nm, "default": d, "table": t, "queried": q, "default_of": got, "did_not_return": hang})
    codes = core.coq_eval(ctx, "c09d_%d" % os.getpid(), PRE_D, items, "check", min_per_shard=20)
    bad = [m for m, c in zip(meta, codes) if c == 3]
    dis = [m for m, c in zip(meta, codes) if c == 2]
    if bad:
        bad.sort(key=lambda m: (not m["did_not_return"], len(m["table"])))
        core.violation(ctx, "defaults_hang" if bad[0]["did_not_return"] else "defaults_spec", {
            "failing_input": bad[0], "count": len(bad),
            "explanation": "DefaultedLocales::default_of / compute on this table " + ("did not return within 5 s (HANG)" if bad[0]["did_not_return"] else
                           "returned a locale that is neither the end of the chain nor (when the chain loops) the default locale")})
    elif dis:
        core.violation(ctx, "correspondence", {"broken": "correspondence Parser/Defaults.v (default_of) vs DefaultedLocales::default_of",
                                               "first_disagreeing_input": dis[0], "disagreements": len(dis)}, no_input=True)
    return {"tables": len(tabs), "not_run_after_repeated_hangs": not_run, "locales_queried": sum(len(m["queried"]) for m in meta), "hangs": sum(m["did_not_return"] for m in meta),
            "spec_failures": len(bad), "disagreements": len(dis), "shapes": sorted(set(m["shape"].split("/")[0] for m in meta))[:40]}


def _pipeline(ctx, macro, build, root):
    WATCHDOG[0] = WATCHDOG_S["quick" if ctx.quick else "thorough"]
    defaults_cov = defaults_correspondence(ctx, macro)
    named = pipeline_gen.named_cases(ctx.rng)
    projs = named + [pipeline_gen.random_case(ctx.rng) for _ in range(700 if ctx.quick else 8000)]
    results = run_projects(root, macro, build, projs, "p")
    counts, fails = {}, []
    for p, st in zip(projs, results):
        for stage, (cls, a, _) in st.items():
            k = "%s:%s%s" % (stage, cls, (":" + a) if cls == "err" else "")
            counts[k] = counts.get(k, 0) + 1
        for f in failures_of(st, p["files"]):
            fails.append((p, f))
    known = {f.get("id"): f for f in core.load_known("C09") if f.get("status") == "known"}
    by_class, unknown = {}, []
    for p, (kind, stage, cid, msg) in fails:
        if kind == "panic" and cid is not None:
            by_class.setdefault(cid, []).append((p, stage, msg))
        else:
            unknown.append((p, kind, stage, msg))
    known_hit, reported = {}, []
    for cid, lst in sorted(by_class.items()):
        if cid in known:
            known_hit[cid] = len(lst)
            core.known_finding(ctx, known[cid], known[cid].get("line", cid))
        else:
            unknown.append((min((x[0] for x in lst), key=pipeline_gen.size), "panic", lst[0][1], lst[0][2]))
    if unknown:
        unknown.sort(key=lambda u: pipeline_gen.size(u[0]))
        # one report per distinct (kind, class or message head), smallest project first, shrunk
        seen = set()
        for p, kind, stage, msg in unknown:
            cid = classify_panic(msg, p["files"]) if kind == "panic" else None
            key = (kind, cid or msg[:60])
            if key in seen or len(seen) >= 8:
                continue
            seen.add(key)

            def still(q, kind=kind, stage=stage, cid=cid, msg=msg):
                st = run_projects(root, macro, build, [q], "shr", watchdog=4 if kind == "hang" else None)[0]
                for k2, s2, c2, m2 in failures_of(st, q["files"]):
                    if k2 == kind and s2 == stage and (c2 == cid if cid else m2[:40] == msg[:40]):
                        return True
                return False
            small = pipeline_gen.shrink(p, still, limit=12 if kind == "hang" else 150 if ctx.quick else 400)
            reported.append({"kind": kind, "stage": {"P": "parse_locales", "G": "code generator", "B": "TranslationsInfos::parse_at_dir",
                                                     "T": "get_translations/write_to_dir", "I": "get_icu_keys", "L": "get_locales_langids",
                                                     "D": "DefaultedLocales::compute/default_of on every key",
                                                     "X": "the stage named in the message did not return / the process died"}[stage],
                             "class": cid, "message": msg, "config": small["cargo"].split("[package.metadata.leptos-i18n]")[-1].strip(),
                             "files": small["files"], "generated_as": p["cls"]})
        core.violation(ctx, "pipeline_hang" if reported[0]["kind"] == "hang" else "pipeline_panic", {
            "failing_input": reported[0], "more": reported[1:],
            "explanation": ("HANG: a stage of the loading pipeline did not return within the watchdog's %d s on this project (the "
                            "property forbids unbounded loops); " % WATCHDOG[0] if reported[0]["kind"] == "hang" else "") +
                           "a stage of the loading pipeline did not end with Ok or a descriptive Err on this project "
                           "(panic caught by catch_unwind / process crash / hang / error text without any location)",
            "count": len(unknown)})
    # stack-depth probes in child processes
    depth = {}
    for kind in DEPTH_KINDS:
        for exe, name in ((macro, "macro"), (build, "build")):
            rc = depth_probe(exe, root, kind, DEPTH_PLAUSIBLE)
            depth["%s/%s/%d" % (name, kind, DEPTH_PLAUSIBLE)] = rc
            if rc != 0:
                core.violation(ctx, "pipeline_stack", {
                    "failing_input": {"kind": kind, "elements_in_one_value": DEPTH_PLAUSIBLE, "side": name, "exit_status": rc},
                    "explanation": "loading a project whose single value holds %d %s ended abnormally in a child process "
                                   "(stack overflow aborts)" % (DEPTH_PLAUSIBLE, kind)})
            if not ctx.quick and rc == 0:
                lo, hi = DEPTH_PLAUSIBLE, 40000
                if depth_probe(exe, root, kind, hi) == 0:
                    depth["%s/%s/threshold" % (name, kind)] = ">%d" % hi
                else:
                    while hi - lo > max(50, lo // 20):
                        mid = (lo + hi) // 2
                        if depth_probe(exe, root, kind, mid) == 0:
                            lo = mid
                        else:
                            hi = mid
                    depth["%s/%s/threshold" % (name, kind)] = "ok at %d, abnormal exit at %d (value of about %d bytes)" % (
                        lo, hi, len(next(iter(pipeline_gen.depth_project(kind, hi)["files"].values()))))
    stage_runs = sum(len(st) for st in results)
    samples = []
    for i in (0, 5, 8, len(named) + 1, len(named) + 2):
        if i < len(projs):
            samples.append({"class": projs[i]["cls"], "files": {k: (v or "")[:200] for k, v in projs[i]["files"].items()},
                            "stages": {k: list(v[:2]) for k, v in results[i].items()}})
    cls_hist = {}
    for p in projs:
        c = p["cls"].split(":")[0]
        cls_hist[c] = cls_hist.get(c, 0) + 1
    return {
        "level": "correspondence + fault enumeration (no Coq model of these stages, except DefaultedLocales: Props/C09c.v)",
        "watchdog_seconds_per_project": WATCHDOG[0],
        "defaulted_locales_correspondence": defaults_cov,
        "projects": len(projs), "named_fault_cases": len(named), "stage_runs": stage_runs,
        "distinct_projects": len(set(json.dumps(p["files"], sort_keys=True) + p["cargo"] for p in projs)),
        "stages": "P parse_locales(false) | D DefaultedLocales::compute + default_of on every key | G load_locales() code generator | B TranslationsInfos::parse_at_dir | T get_translations().write_to_dir "
                  "| I get_icu_keys | L get_locales_langids/get_locales/get_namespaces",
        "counts_per_stage_and_class": dict(sorted(counts.items())),
        "fault_classes_generated": cls_hist,
        "panics_by_known_class": {k: len(v) for k, v in by_class.items()}, "known_findings_hit": known_hit,
        "unclassified_failures": len([u for u in unknown]), "reported": reported[:3],
        "depth_probes_child_process_8MiB_stack": depth, "samples": samples,
    }
