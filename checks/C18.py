"""C18 — formatters apply the declared options for the locale being rendered.
Theorems: coq/theories/Props/C18.v over the models Parser/Formatter.v (selection of formatter and options from
`{{ var, name(arg: value; ...) }}` / t*_format! arguments) and Runtime/FormatCache.v (the (locale, options) cache).
Correspondence: harness h_fmt
  parse/direct  ParsedValue::new and Formatter::from_name_and_args on generated formatter texts -> Coq `check`
  rt            td_string!/td_format_string! and the __private::format_* entry points against direct ICU4X calls
  ops           random (locale, formatter, options, value) sequences, one thread vs 8 racing threads, fresh process each
ICU4X output is an oracle (never modelled); real thread schedules are sampled, not enumerated (partial)."""
import json
import os
import re

from vlib import core

THEOREMS = ["C18_options", "C18_unknown_names_error", "C18_parse", "C18_variable", "C18_ws_insensitive", "C18_outer_ws",
            "C18_cache_transparent", "C18_cache_transparent_keys", "C18_cache_schedule_independent", "C18_spec", "C18_spec_var",
            "C18_old_refuted", "C18_accessor_current_locale", "C18_defaulted_uses_requested_locale", "C18_rebind_refuted",
            "C18_provider_global", "C18_provider_thread_local_refuted"]
PROPS = "theories/Props/C18.v"
REGISTRY = {
    "level": "proof",
    "technique": "Coq proof over Gallina models of formatter selection and of the formatter cache + differential "
                 "correspondence (coqc vm_compute vs compiled parser; runtime output vs direct ICU4X calls in the same binary; "
                 "single-threaded vs 8 racing threads)",
    "text": "Theorems C18_options / C18_parse / C18_ws_insensitive (Props/C18.v): for every formatter name and argument list "
            "the selected formatter and options equal the documented table (first accepted value, else default; unknown names are "
            "errors), for every amount of white space around every token. C18_cache_transparent: for every schedule of atomic "
            "get-or-insert steps by any number of threads every call returns make(locale, options). Tied to /repo by running "
            "ParsedValue::new / Formatter::from_name_and_args on generated texts (Coq spec evaluated on the answers), by comparing "
            "td_string!/td_format_string!/format_* outputs with direct ICU4X calls for en/fr/ar/ja, and by racing 8 threads on "
            "first use of the cache. Partial: ICU4X output is an oracle; thread schedules are sampled.",
    "design_ref": "DESIGN.md §5 C18",
    "note": "Trusted: Coq kernel + vm_compute; hand-written models Parser/Formatter.v and Runtime/FormatCache.v (tied by the "
            "correspondence runs); ICU4X 1.5 compiled data as formatting oracle; std::sync::RwLock for the atomicity of with_mut; "
            "Python generator; Rust harness h_fmt. No axioms.",
    "engine": "coq",
    "packages": [("h_fmt",), ("h_fmt_prov",), ("h_ctx",)],
}
PRE = ("From Coq Require Import List NArith Bool.\nImport ListNotations.\n"
       "From LI Require Import Base.StrOps Parser.Formatter Parser.FormatterCheck.\nOpen Scope N_scope.\n")

WS = [9, 10, 11, 12, 13, 32, 133, 160, 5760] + list(range(8192, 8203)) + [8232, 8233, 8239, 8287, 12288]
NOT_WS = [0x200b, 0x180e, 0x2060, 0xfeff]          # look like white space, are not White_Space
FORBIDDEN_CH = set("{}<>$")                          # would change how ParsedValue::new splits the value

# the documented table (docs/book/src/declare/08_formatters.md) as data for the generator
OPTIONS = {
    "grouping_strategy": ["auto", "never", "always", "min2"],
    "date_length": ["full", "long", "medium", "short"],
    "time_length": ["full", "long", "medium", "short"],
    "list_type": ["and", "or", "unit"],
    "list_style": ["wide", "short", "narrow"],
    "width": ["short", "narrow"],
    "currency_code": ["USD", "EUR", "JPY", "usd", "E", "XYZ"],
}
FORMATTERS = {
    "number": ["grouping_strategy"],
    "currency": ["width", "currency_code"],
    "date": ["date_length"],
    "time": ["time_length"],
    "datetime": ["date_length", "time_length"],
    "list": ["list_type", "list_style"],
}
BAD_NAMES = ["", "Date", "DATE", "dates", "dat", "num", "numbers", "number2", "list_", "da te", "dåte", "date​",
             "​date", "date)", "date:", "date;", "none", "datetime2", "date_time", "currency_code", "time﻿", "n"]
BAD_ARGS = ["", "list_length", "Date_length", "DATE_LENGTH", "date-length", "date_length2", "date length", "length", "style",
            "date_length​", "code", "currency", "grouping", "type", "date_length)", "(date_length"]
BAD_VALUES = ["", "Short", "SHORT", "shor", "shortt", "sh ort", "short:extra", "sh(ort)", "short)", "1", "true", "none", "default",
              "médium", "short​", "EURO", "€", "Eé", "U S", "U\u0000D", "eur", "12", "a,b"]
JUNK = ["", " ", "date_length", "short", "x=y", "date_length short", "　", "a,b", "(", ")", "()", "date_length=short"]
TAILS = ["", "", "", "", " ", "x", " trailing", "(", " ( ", ",", ";", ":", "date", "　;a:b"]
VARS = ["v", "count", "date_var", "x1", "_a"]


def ws(rng, p=0.5, mx=2):
    if rng.random() > p:
        return ""
    return "".join(chr(rng.choice(WS)) for _ in range(rng.randint(1, mx)))


def ok_text(s):
    return not (set(s) & FORBIDDEN_CH)


class Tok:
    def __init__(self, t, l="", r=""):
        self.l, self.t, self.r = l, t, r

    def s(self):
        return self.l + self.t + self.r

    def coq(self):
        return "(%s, %s, %s)" % (core.coq_str(self.l), core.coq_str(self.t), core.coq_str(self.r))


class FText:
    """source description of a formatter text: name token, optional (items, tail); items are ('p', Tok, Tok) | ('j', str)"""

    def __init__(self, name, items=None, tail=""):
        self.name, self.items, self.tail = name, items, tail

    def s(self):
        out = self.name.s()
        if self.items is not None:
            parts = [(i[1].s() + ":" + i[2].s()) if i[0] == "p" else i[1] for i in self.items]
            out += "(" + ";".join(parts) + ")" + self.tail
        return out

    def coq(self):
        if self.items is None:
            a = "None"
        else:
            its = ["(Pair %s %s)" % (i[1].coq(), i[2].coq()) if i[0] == "p" else "(Junk %s)" % core.coq_str(i[1])
                   for i in self.items]
            a = "(Some (%s, %s))" % (core.coq_list(its), core.coq_str(self.tail))
        return "(mk_ftext %s %s)" % (self.name.coq(), a)

    def summary(self):
        return {"name": self.name.t, "args": None if self.items is None else
                [[i[1].t, i[2].t] if i[0] == "p" else {"junk": i[1]} for i in self.items], "tail": self.tail}


def pad_all(rng, ft, p, mx=2):
    ft.name.l, ft.name.r = ws(rng, p, mx), ws(rng, p, mx)
    for i in ft.items or []:
        if i[0] == "p":
            for t in (i[1], i[2]):
                t.l, t.r = ws(rng, p, mx), ws(rng, p, mx)
    return ft


def systematic(rng):
    """all names x all option combinations (each option omitted or one of its values) x white-space layouts"""
    out = []
    for name, opts in FORMATTERS.items():
        combos = [[]]
        for o in opts:
            vals = OPTIONS[o] if o != "currency_code" else ["USD", "EUR", "JPY"]
            combos = [c + ([(o, v)] if v is not None else []) for c in combos for v in [None] + vals]
        for c in combos:
            for layout in range(4):
                cc = list(c)
                if layout == 3:
                    cc.reverse()
                items = [("p", Tok(a), Tok(v)) for a, v in cc]
                if not cc and layout in (0, 3):
                    ft = FText(Tok(name))                      # no parentheses at all
                else:
                    ft = FText(Tok(name), items)
                if layout == 1:
                    ft.name.l = " "
                    for i in items:
                        i[2].l = " "
                    for i in items[1:]:
                        i[1].l = " "
                elif layout >= 2:
                    pad_all(rng, ft, 0.8, 3)
                out.append((Tok("v", " " if layout == 1 else "", " " if layout == 2 else ""), ft))
    return out


def rand_tok(rng, pool, forbid):
    for _ in range(20):
        t = rng.choice(pool)
        if not any(c in t for c in forbid) and t == t.strip() and ok_text(t) and (not t or (ord(t[0]) not in WS and ord(t[-1]) not in WS)):
            return t
    return "x"


def gen_ftext(rng):
    r = rng.random()
    if r < 0.8:
        name = rng.choice(list(FORMATTERS))
    else:
        name = rand_tok(rng, BAD_NAMES, "(")
    items = None
    tail = ""
    if rng.random() < 0.8:
        items = []
        rel = FORMATTERS.get(name, ["date_length"])
        for _ in range(rng.choice([0, 1, 1, 2, 2, 3, 4])):
            k = rng.random()
            if k < 0.12:
                j = rng.choice(JUNK)
                if ok_text(j) and ":" not in j and ";" not in j:
                    items.append(("j", ws(rng, 0.3) + j + ws(rng, 0.3)))
                continue
            if k < 0.65:
                a = rng.choice(rel)
            elif k < 0.8:
                a = rng.choice(list(OPTIONS))
            else:
                a = rand_tok(rng, BAD_ARGS, ":;")
            q = rng.random()
            if q < 0.6 and a in OPTIONS:
                v = rng.choice(OPTIONS[a])
            elif q < 0.75:
                v = rng.choice(OPTIONS[rng.choice(list(OPTIONS))])
            else:
                v = rand_tok(rng, BAD_VALUES, ";")
            items.append(("p", Tok(a), Tok(v)))
        tail = rng.choice(TAILS)
        if ")" in tail or not ok_text(tail):
            tail = ""
    ft = FText(Tok(name), items, tail)
    return pad_all(rng, ft, rng.choice([0.0, 0.3, 0.6, 1.0]), rng.choice([1, 2, 3]))


def mutate(rng, s):
    s = list(s)
    for _ in range(rng.choice([1, 1, 2, 3])):
        k = rng.random()
        pos = rng.randint(0, len(s))
        if k < 0.3 and s:
            del s[min(pos, len(s) - 1)]
        elif k < 0.7:
            s.insert(pos, rng.choice(list("():;,  ") + [chr(rng.choice(WS)), chr(rng.choice(NOT_WS)), "é"]))
        elif k < 0.85 and s:
            i = min(pos, len(s) - 1)
            s.insert(i, s[i])
        elif len(s) >= 2:
            i = min(pos, len(s) - 2)
            s[i], s[i + 1] = s[i + 1], s[i]
    return "".join(s)


FMT_RE = re.compile(r"^(N|n\d|d\d|t\d|D\d_\d|l\d_\d|c\d_[\d,]*)$")
G = ["GAuto", "GNever", "GAlways", "GMin2"]
DL = ["DFull", "DLong", "DMedium", "DShort"]
TL = ["TFull", "TLong", "TMedium", "TShort"]
LT = ["LAnd", "LOr", "LUnit"]
LS = ["SWide", "SShort", "SNarrow"]
CW = ["WShort", "WNarrow"]


def cps_list(s):
    return "[" + "; ".join(x for x in s.split(",") if x) + "]"


def coq_fmt(f):
    if not FMT_RE.match(f):
        raise core.Infra("unparsable formatter %r from h_fmt" % f)
    if f == "N":
        return "FNone"
    k, rest = f[0], f[1:]
    if k == "n":
        return "(FNumber %s)" % G[int(rest)]
    if k == "d":
        return "(FDate %s)" % DL[int(rest)]
    if k == "t":
        return "(FTime %s)" % TL[int(rest)]
    if k == "D":
        a, b = rest.split("_")
        return "(FDateTime %s %s)" % (DL[int(a)], TL[int(b)])
    if k == "l":
        a, b = rest.split("_")
        return "(FList %s %s)" % (LT[int(a)], LS[int(b)])
    a, b = rest.split("_", 1)
    return "(FCurrency %s %s)" % (CW[int(a)], cps_list(b))


def coq_ires(line):
    p = line.split(" ")
    if p[0] == "V" and len(p) == 3:
        return "(IRes (VVar %s %s))" % (cps_list(p[1]), coq_fmt(p[2]))
    if p[0] == "E2":
        return "(IRes (VUnknown %s))" % cps_list(p[1] if len(p) > 1 else "")
    if p[0] == "E4" and len(p) == 2:
        return "(IRes (VDisabled %s))" % coq_fmt(p[1])
    return "IOther"


def coq_sel(line):
    p = line.split(" ")
    if p[0] == "S":
        return "(SelOk %s)" % coq_fmt(p[1])
    if p[0] == "D":
        return "(SelDisabled %s)" % coq_fmt(p[1])
    if p[0] == "NONE":
        return "SelUnknown"
    return None


def cps(s):
    return ",".join(str(ord(c)) for c in s)


def run_harness(exe, mode, lines, timeout=600):
    rc, out, err = core.sh([exe, mode], input="".join(l + "\n" for l in lines), timeout=timeout)
    res = out.splitlines()
    if rc != 0 or len(res) != len(lines):
        raise core.Infra("h_fmt %s: rc=%s, %d lines for %d cases; %s" % (mode, rc, len(res), len(lines), err[-400:]))
    return res


def parser_level(ctx, exe):
    """returns dict with items for coq_eval, meta, counters"""
    rng = ctx.rng
    n_rand, n_raw, n_direct = (1500, 700, 600) if ctx.quick else (12000, 6000, 4000)
    texts = systematic(rng)
    # regression corpus: the book's own examples and earlier observations
    corpus = [
        FText(Tok("list", " "), [("p", Tok("list_type"), Tok("and", " ")), ("p", Tok("list_style", " "), Tok("short", " "))]),
        FText(Tok("datetime", " "), [("p", Tok("date_length"), Tok("short", " ")), ("p", Tok("time_length", " "), Tok("full", " "))]),
        FText(Tok("number", " "), [("p", Tok("grouping_strategy"), Tok("bad", " ")), ("p", Tok("grouping_strategy", " "), Tok("never", " "))]),
        FText(Tok("currency", " "), [("p", Tok("currency_code"), Tok("", " "))]),
        FText(Tok("currency", " "), [("p", Tok("currency_code"), Tok("EURO", " "))]),
        FText(Tok("date", " "), [("p", Tok("date_length"), Tok("short", " "))], " xx"),
        FText(Tok("date", "　", " "), [("p", Tok("date_length", " ", "\n"), Tok("full", "\t", " "))]),
    ]
    texts = [(Tok("v", " ", " "), c) for c in corpus] + texts
    for _ in range(n_rand):
        texts.append((Tok(rng.choice(VARS), ws(rng, 0.7), ws(rng, 0.5)), gen_ftext(rng)))
    cases = []   # (kind, coq src, sent, meta)
    for var, ft in texts:
        sent = var.s() + "," + ft.s()
        if not ok_text(sent):
            continue
        cases.append(("text", "(SrcText %s %s)" % (var.coq(), ft.coq()), sent, None, {"var": var.t, **ft.summary()}))
    for _ in range(n_raw):
        base = gen_ftext(rng).s()
        fmt = mutate(rng, base) if rng.random() < 0.85 else base
        if not ok_text(fmt):
            continue
        l, r = ws(rng, 0.9, 3), ws(rng, 0.9, 3)
        cases.append(("raw", "(SrcRaw %s %s %s)" % (core.coq_str(fmt), core.coq_str(l), core.coq_str(r)),
                      " v," + fmt, " v," + l + fmt + r, {"fmt": fmt, "pad": [cps(l), cps(r)]}))
    lines = []
    for c in cases:
        lines.append(cps("{{" + c[2] + "}}"))
        if c[0] == "raw":
            lines.append(cps("{{" + c[3] + "}}"))
    res = run_harness(exe, "parse", lines)
    items, meta = [], []
    i = 0
    for c in cases:
        o1 = res[i]
        i += 1
        o2 = None
        if c[0] == "raw":
            o2 = res[i]
            i += 1
        items.append("(mk_case %s %s %s %s)" % (c[1], core.coq_str(c[2]), coq_ires(o1), coq_ires(o2) if o2 is not None else "IOther"))
        m = {"kind": c[0], "value": "{{" + c[2] + "}}", "source": c[4], "impl": o1}
        if o2 is not None:
            m["impl_padded"] = o2
        meta.append(m)
    # direct calls of Formatter::from_name_and_args (what t*_format! does with its identifiers)
    dlines, dsrc = [], []
    names = list(FORMATTERS) + BAD_NAMES
    for k in range(n_direct):
        name = rng.choice(list(FORMATTERS)) if rng.random() < 0.8 else rng.choice(names)
        if rng.random() < 0.15:
            args = None
        else:
            args = []
            for _ in range(rng.choice([0, 1, 1, 2, 3])):
                a = rng.choice(FORMATTERS.get(name, ["date_length"])) if rng.random() < 0.7 else rng.choice(list(OPTIONS) + BAD_ARGS)
                v = rng.choice(OPTIONS[a]) if (a in OPTIONS and rng.random() < 0.7) else rng.choice(BAD_VALUES + ["short", "full", "and"])
                if rng.random() < 0.05:
                    v = " " + v                        # no trimming on this path: not an accepted value
                args.append((a, v))
        dsrc.append((name, args))
        dlines.append(cps(name) + "|" + ("-" if args is None else "|".join(cps(a) + "=" + cps(v) for a, v in args)))
    dres = run_harness(exe, "direct", dlines)
    for (name, args), o in zip(dsrc, dres):
        items.append(direct_item(name, args, o))
        meta.append({"kind": "direct", "name": name, "args": args, "impl": o})
    return items, meta


def direct_item(name, args, o):
    s = coq_sel(o)
    a = "None" if args is None else "(Some %s)" % core.coq_list(["(%s, %s)" % (core.coq_str(x), core.coq_str(y)) for x, y in args])
    if s is None:
        return "(mk_case (SrcDirect %s %s SelUnknown) [] IOther IOther)" % (core.coq_str("number"), a)  # PANIC: forces code 3
    return "(mk_case (SrcDirect %s %s %s) [] IOther IOther)" % (core.coq_str(name), a, s)


def dec(s):
    return "".join(chr(int(x)) for x in s.split(",") if x)


def html_text(s):
    """text content of what td!(..).to_html() printed: markers removed, entities decoded"""
    s = re.sub(r"<!--.*?-->|<!>", "", s)
    return s.replace("&lt;", "<").replace("&gt;", ">").replace("&quot;", '"').replace("&#x27;", "'").replace("&amp;", "&")


def tokens_to_direct(tokens):
    """`number ( grouping_strategy : never ; )` (stringify! of the macro's formatter tokens) -> (name, args|None)"""
    t = re.sub(r"\s+", "", tokens)
    if "(" not in t:
        return t, None
    name, rest = t.split("(", 1)
    rest = rest.rsplit(")", 1)[0]
    args = []
    for part in rest.split(";"):
        if part:
            a, v = part.split(":", 1)
            args.append((a, v))
    return name, args


def runtime_level(ctx, exe):
    """generated code / t*_format! output against direct ICU4X with the parser's options.  Returns
    (findings, stats, extra parser-level cases)"""
    rc, out, err = core.sh([exe, "rt"], timeout=300)
    if rc != 0:
        raise core.Infra("h_fmt rt failed: rc=%s %s" % (rc, err[-400:]))
    K, T, I, F, A = {}, [], {}, [], []
    pools, numvals = {}, {}
    XD, JD = [], {}
    for l in out.splitlines():
        p = l.split(" ")
        if p[0] == "X":
            XD.append((p[1], p[2], p[3], p[4], dec(p[5]) if len(p) > 5 else ""))
        elif p[0] == "J":
            JD[(p[1], p[2], p[3], p[4])] = dec(p[5]) if len(p) > 5 else ""
        elif p[0] == "P":
            pools[p[1]] = int(p[2])
        elif p[0] == "N":
            numvals[p[1]] = dec(p[2])
        elif p[0] == "K":
            K[p[1]] = (dec(p[2]), p[3])
        elif p[0] == "T":
            T.append((p[1], p[2], p[3], p[4], dec(p[5]) if len(p) > 5 else ""))
        elif p[0] == "A":
            A.append((p[1], p[2], p[3], p[4], dec(p[5]) if len(p) > 5 else ""))
        elif p[0] == "I":
            I[(p[1], p[2], p[3])] = dec(p[4]) if len(p) > 4 else ""
        elif p[0] == "F":
            F.append((dec(p[1]), p[2], p[3], p[4], dec(p[5]) if len(p) > 5 else ""))
    if not K or not T or not I or not F or set(pools) != set("ncdtDl"):
        raise core.Infra("h_fmt rt printed no results")

    def value_of(code, vi):
        return numvals.get(str(vi)) if code and code[0] in "nc" else None
    findings = []   # (class, record)
    n_cmp = 0
    byfmt = {}      # (fmt code, locale, value id) -> direct ICU output, for the macro calls
    for k, (text, code) in K.items():
        for (kk, ln, vi), o in I.items():
            if kk == k:
                byfmt[(code, ln, vi)] = o

    def same(flavour, got, exp):
        if flavour == "h" and got != "PANIC":
            g = html_text(got)
            # leptos renders an empty dynamic text node as one space between its `<!>` markers
            g2 = html_text(got.replace("<!> <!>", "<!><!>"))
            return g == exp or g2 == exp or (exp == "" and g.strip() == "")
        return got == exp

    for k, ln, vi, fl, got in T:
        exp = I.get((k, ln, vi))
        n_cmp += 1
        if exp is None:
            raise core.Infra("no oracle line for %s %s %s" % (k, ln, vi))
        rec = {"level": "generated code", "key_text": K[k][0], "parser_formatter": K[k][1], "locale": ln, "value_id": vi,
               "flavour": {"s": "td_string!", "d": "td_display!", "h": "td!(..).to_html()", "S": "td_string! fed a DateTime",
                           "V": "td_string! fed a Vec<String>"}[fl], "observed": got, "icu4x_direct": exp}
        if value_of(K[k][1], vi):
            rec["value"] = value_of(K[k][1], vi)
        if exp == "PANIC":
            findings.append(("C18-time-zone-lengths" if got == "PANIC" else "spec", rec))
        elif not same(fl, got, exp):
            findings.append(("spec", rec))
    for k, ln, vi, fl, got in A:
        exp = I.get((k, ln, vi))
        n_cmp += 1
        if exp is not None and not same(fl, got, exp):
            findings.append(("C18-cache-poisoned" if got == "PANIC" else "spec", {
                "level": "generated code, after a key whose options ICU4X refuses", "key_text": K[k][0], "locale": ln,
                "value_id": vi, "observed": got, "icu4x_direct": exp,
                "history": "td_string!(%s, t_full, ..) = {{ v, time(time_length: full) }} panicked earlier in this process" % ln}))
    # defaulted keys: the template of the locale the key falls back to, formatted for the requested locale
    marks = {"EN": "en", "FR": "fr", "CA": "fr-CA", "AR": "ar", "JA": "ja"}
    n_dflt = n_fell_back = 0
    for k, req, vi, fl, got in XD:
        n_dflt += 1
        text = html_text(got) if (fl == "h" and got != "PANIC") else got
        src = marks.get(text[:2]) if text[2:3] == "[" else None
        exp = JD.get((k, src, req, vi)) if src else None
        rec = {"level": "generated code, defaulted key (fixture harness/h_fmt/locales, fr-CA inherits fr)", "key": k,
               "requested_locale": req, "template_of_locale": src, "value_id": vi,
               "flavour": {"s": "td_string!", "d": "td_display!", "h": "td!(..).to_html()"}[fl], "observed": got,
               "icu4x_direct_for_requested_locale": exp,
               "explanation": "a formatter in a key the requested locale does not define must format for the requested locale "
                              "(the locale being rendered) with the options of the template that is shown"}
        if k[0] in "nc" and numvals.get(str(vi)):
            rec["value"] = numvals[str(vi)]
        if src is None or exp is None:
            findings.append(("spec", rec))
            continue
        if src != req:
            n_fell_back += 1
        if not same(fl, got, exp):
            findings.append(("spec", rec))
    if not XD or n_fell_back < len(XD) // 4:
        raise core.Infra("the defaulted-key fixture of h_fmt no longer exercises defaulting (%d of %d)" % (n_fell_back, len(XD)))
    n_cmp += n_dflt
    direct_cases = []
    fseen = {}
    for tokens, ln, vi, fl, got in F:
        fseen.setdefault(tokens, []).append((ln, vi, fl, got))
    return findings, {"rt_comparisons": n_cmp, "rt_keys": len(K), "value_pools": pools, "numeric_inputs": numvals,
                      "defaulted_key_comparisons": n_dflt, "defaulted_key_comparisons_that_fell_back": n_fell_back}, K, fseen, byfmt


def macro_level(exe, fseen, byfmt, numvals=None):
    """td_format_string!/td_format_display!: the formatter is what from_name_and_args selects for the identifiers"""
    toks = sorted(fseen)
    lines, src = [], []
    for t in toks:
        name, args = tokens_to_direct(t)
        src.append((name, args))
        lines.append(cps(name) + "|" + ("-" if args is None else "|".join(cps(a) + "=" + cps(v) for a, v in args)))
    res = run_harness(exe, "direct", lines)
    findings, n = [], 0
    extra = []
    for t, (name, args), o in zip(toks, src, res):
        extra.append((name, args, o))
        code = o[2:] if o.startswith("S ") else None
        for ln, vi, fl, got in fseen[t]:
            n += 1
            exp = byfmt.get((code, ln, vi))
            rec = {"level": "t*_format! macro", "formatter_tokens": t, "selected_formatter": o, "locale": ln, "value_id": vi,
                   "flavour": {"s": "td_format_string!", "d": "td_format_display!"}[fl], "observed": got, "icu4x_direct": exp}
            if numvals and code and code[0] in "nc":
                rec["value"] = numvals.get(str(vi))
            if exp is None:
                # no key with exactly this formatter: only the time-zone lengths are expected here
                exp = "PANIC" if re.search(r"time_length:\s*(full|long)", t) else None
                rec["icu4x_direct"] = exp
            if exp is None:
                raise core.Infra("no oracle for macro tokens %r (%s)" % (t, o))
            if exp == "PANIC":
                findings.append(("C18-time-zone-lengths" if got == "PANIC" else "spec", rec))
            elif got != exp:
                findings.append(("spec", rec))
    return findings, n, extra


def ops_level(ctx, exe, K, pools, numvals=None, provider_build=False):
    """random operation sequences on the process-wide cache: one thread vs 8 threads racing on first use.
    provider_build: the h_fmt_prov binary (no icu_compiled_data; a custom provider installed once on the main thread):
    the 8 workers never installed a provider themselves, every one of them must format like the main thread"""
    rng = ctx.rng
    codes = sorted({c for _, c in K.values() if c not in ("?", "N")})
    tz = [c for c in codes if re.match(r"^(t[01]|D\d_[01])$", c)]
    ok_codes = [c for c in codes if c not in tz]
    nvals = pools
    locales = ["en", "fr", "ar", "ja"]
    rounds = (6 if ctx.quick else 30) if not provider_build else (3 if ctx.quick else 10)
    nops = 400 if ctx.quick else 1200
    findings, stats = [], {"ops_rounds": 0, "ops_calls": 0, "ops_first_use_races": 0}

    def gen(with_tz):
        ops = []
        # blocks of 8 calls with one and the same (locale, options): dealt round-robin they are the first call of each thread
        for _ in range(6):
            c, ln = rng.choice(ok_codes), rng.choice(locales)
            ops += [(c, ln, rng.randrange(nvals[c[0]])) for _ in range(8)]
        while len(ops) < nops:
            if rng.random() < 0.25:
                c, ln = rng.choice(ok_codes), rng.choice(locales)
                ops += [(c, ln, rng.randrange(nvals[c[0]])) for _ in range(8)]
            else:
                c = rng.choice(ok_codes)
                ops.append((c, rng.choice(locales), rng.randrange(nvals[c[0]])))
        if with_tz and tz:
            for _ in range(3):
                c = rng.choice(tz)
                ops.insert(rng.randrange(8, len(ops) // 2), (c, rng.choice(locales), 0))
        return ops

    def run_ops(mode, ops):
        rc, out, err = core.sh([exe, "ops", mode], input="".join("%s %s %d\n" % o for o in ops), timeout=300)
        res = out.splitlines()
        if rc != 0 or len(res) != len(ops):
            raise core.Infra("h_fmt ops %s: rc=%s %d lines for %d ops %s" % (mode, rc, len(res), len(ops), err[-300:]))
        return [tuple(dec(x) for x in l.split("|")) for l in res]

    for r in range(rounds):
        with_tz = r % 3 == 2 and not provider_build
        ops = gen(with_tz)
        seq = run_ops("seq", ops)
        par = run_ops("par", ops)
        stats["ops_rounds"] += 1
        stats["ops_calls"] += 2 * len(ops)
        stats["ops_first_use_races"] += 6
        poisoned_by = None
        has_tz = any(o[0] in tz for o in ops)
        for i, (op, (ls, ds), (lp, dp)) in enumerate(zip(ops, seq, par)):
            rec = {"level": "operation sequence", "round": r, "index": i, "op": {"formatter": op[0], "locale": op[1], "value_id": op[2]},
                   "one_thread": ls, "eight_threads": lp, "icu4x_direct": ds}
            if provider_build:
                rec["level"] = ("operation sequence, build without icu_compiled_data: data provider installed once on the main "
                                "thread with set_icu_data_provider (harness h_fmt_prov)")
                rec["minimal_sequence"] = ["%s %s %d" % op]
                rec["replay_with"] = "h_fmt_prov"
                if lp == "PANIC" and ls == ds:
                    rec["explanation"] = ("a worker thread that did not install the provider itself panicked where the main "
                                          "thread formats: the provider (and the cache) must be process-wide state")
            if numvals and op[0][0] in "nc":
                rec["op"]["value"] = numvals.get(str(op[2]))
            if ds == "PANIC":
                if poisoned_by is None:
                    poisoned_by = op
                findings.append(("C18-time-zone-lengths" if ls == "PANIC" and lp == "PANIC" else "spec", rec))
                continue
            if ls == ds and lp == ds:
                continue
            if (ls == "PANIC" and poisoned_by is not None) or (ls == ds and lp == "PANIC" and has_tz):
                if poisoned_by is None:      # 8 threads: the refused call ran earlier in real time, later in input order
                    poisoned_by = next(o for o in ops if o[0] in tz)
                rec["history"] = "an earlier call (%s %s) asked for options ICU4X refuses and panicked" % poisoned_by[:2]
                rec["minimal_sequence"] = ["%s %s %d" % poisoned_by, "%s %s %d" % op]
                findings.append(("C18-cache-poisoned", rec))
            else:
                findings.append(("spec", rec))
    return findings, stats


BOOK = os.path.join(core.REPO, "docs/book/src/declare/08_formatters.md")
BOOK_SECTIONS = {"Number": "number", "Currency (experimental)": "currency", "Currency": "currency", "Date": "date", "Time": "time",
                 "DateTime": "datetime", "List": "list"}


def doc_level(exe):
    """every `name(arg: value; ...)` example of the book must use option names and values the parser acts upon"""
    try:
        md = open(BOOK, encoding="utf-8").read()
    except OSError:
        return [], {"book_examples": 0, "book": "not found"}
    findings, n = [], 0
    examples = re.findall(r'"(\{\{[^"{}]*,[^"{}]*\}\})"', md)
    lines = [cps(e) for e in examples]
    res = run_harness(exe, "parse", lines) if lines else []
    for e, o in zip(examples, res):
        m = re.match(r"\{\{\s*\w+\s*,\s*(\w+)\s*(?:\((.*)\))?\s*\}\}", e)
        if not m or m.group(1) not in FORMATTERS:
            continue                                    # the generic `{{ var, formatter(arg_name: value; ...) }}` lines
        n += 1
        name, args = m.group(1), m.group(2)
        for part in (args or "").split(";"):
            if ":" not in part:
                continue
            a, v = [x.strip() for x in part.split(":", 1)]
            if a not in FORMATTERS[name] or (a != "currency_code" and v not in OPTIONS[a]):
                findings.append(("C18-book-list-style" if (name, a) == ("list", "list_length") else "spec", {
                    "level": "documentation example (docs/book/src/declare/08_formatters.md)", "value": e, "impl": o,
                    "explanation": "the documented example uses `%s: %s`, which the parser does not recognise for `%s` "
                                   "(options it looks for: %s); the argument is silently ignored and the default is used"
                                   % (a, v, name, ", ".join(FORMATTERS[name]))}))
    # option names listed in each "### Arguments" section
    for title, body in re.findall(r"^## (.+?)\n(.*?)(?=^## |\Z)", md, re.S | re.M):
        name = BOOK_SECTIONS.get(title.strip())
        if not name or "### Arguments" not in body:
            continue
        argpart = body.split("### Arguments", 1)[1].split("### Example", 1)[0]
        named = set(re.findall(r"`([a-z]+(?:_[a-z]+)*)`", argpart))
        allopts = set(OPTIONS) | {"list_length"}
        for a in sorted(x for x in named if x in allopts or x.endswith(("_length", "_style", "_type", "_strategy", "_code"))):
            if a not in FORMATTERS[name]:
                findings.append(("C18-book-list-style" if (name, a) == ("list", "list_length") else "spec", {
                    "level": "documentation (Arguments section of `%s`)" % title.strip(), "value": "{{ v, %s(%s: ...) }}" % (name, a),
                    "explanation": "the book documents an option `%s` for `%s`; the parser only looks for: %s"
                                   % (a, name, ", ".join(FORMATTERS[name]))}))
    return findings, {"book_examples": n}


def size_key(m):
    return (0 if "minimal_sequence" in m else 1 if ("impl" in m or "observed" in m or "one_thread" in m) else 2,
            len(json.dumps(m, ensure_ascii=False)))


EXPLAIN = {
    "spec": "the property is false on the implementation's answer: the selected formatter/options differ from the documented "
            "table, white space around the text changed the result, or the printed text differs from ICU4X formatting of the "
            "value with the declared options for the locale",
    "C18-time-zone-lengths": "the documented option values `time_length: full` and `time_length: long` (the book's own example is "
            "`{{ time_var, time(time_length: full) }}`) cannot be applied: ICU4X 1.5 refuses to build a Time/DateTime formatter "
            "with a time-zone field for a zone-less input (UnsupportedField(TimeZone(LowerZ))) and get_time_formatter/"
            "get_datetime_formatter `expect` the result, so every use panics at run time. Not repaired here: it needs a decision "
            "(reject these lengths when the translations are loaded, or accept zoned inputs)",
    "C18-cache-poisoned": "the result depends on which formatters ran before: after one call whose options ICU4X refuses, the "
            "panic inside StaticLock::with_mut has poisoned the RwLock of the formatter cache and every later formatting call "
            "of the process panics (mutex.write().unwrap()), whatever the formatter, locale or thread. Repair: "
            "/verif/fixes/C18-poisoned-formatter-cache.diff",
    "C18-book-list-style": "the book documents the option `list_length` for the list formatter (text and example), the parser "
            "only looks for `list_style`; the documented example is parsed with the default style. Repair: "
            "/verif/fixes/C18-book-list-style.diff",
}


def run(ctx):
    from checks import isolate
    isolate.enter(ctx)
    bindir = core.cargo_build("h_fmt")
    ok, problems = core.coq_audit(ctx, PROPS, THEOREMS)
    exe = os.environ.get("C18_EXE") or os.path.join(bindir, "h_fmt")
    items, meta = parser_level(ctx, exe)
    rt_find, rt_stats, K, fseen, byfmt = runtime_level(ctx, exe)
    mac_find, mac_n, extra = macro_level(exe, fseen, byfmt, rt_stats["numeric_inputs"])
    for name, args, o in extra:
        items.append(direct_item(name, args, o))
        meta.append({"kind": "direct", "name": name, "args": args, "impl": o, "from": "t*_format! tokens of the harness"})
    ops_find, ops_stats = ops_level(ctx, exe, K, rt_stats["value_pools"], rt_stats["numeric_inputs"])
    exe_prov = os.environ.get("C18_EXE_PROV") or os.path.join(core.cargo_build("h_fmt_prov"), "h_fmt_prov")
    prov_find, prov_stats = ops_level(ctx, exe_prov, K, rt_stats["value_pools"], rt_stats["numeric_inputs"], provider_build=True)
    ops_find += prov_find
    ops_stats = dict(ops_stats, **{"custom_provider_" + k: v for k, v in prov_stats.items()})
    ops_stats["ops_calls"] += prov_stats["ops_calls"]
    doc_find, doc_stats = doc_level(exe)
    codes = core.coq_eval(ctx, "c18", PRE, items, "check")
    bad_spec = [m for m, c in zip(meta, codes) if c == 3]
    disagree = [m for m, c in zip(meta, codes) if c == 2]
    skipped = [m for m, c in zip(meta, codes) if c == 1]
    inconsistent = [m for m, c in zip(meta, codes) if c == 4]
    if inconsistent:
        raise core.Infra("generator produced a case the Coq side rejects: %r" % inconsistent[0])
    panics = [m for m in meta if m["impl"] == "PANIC" or m.get("impl_padded") == "PANIC"]
    # documentation-level observations are recorded in the evidence only: they compare the book with a table kept in this
    # file, so a harmless change of the book (or a new documented option) must not raise an alarm about the code
    findings = [("spec", dict(m, level="parser")) for m in bad_spec] + rt_find + mac_find + ops_find
    groups = {}
    for cls, rec in findings:
        groups.setdefault(cls, []).append(rec)
    known = {f.get("id"): f for f in core.load_known("C18") if f.get("status") == "known"}
    reported = False
    for cls in sorted(groups):
        recs = sorted(groups[cls], key=size_key)
        if cls in known:
            core.known_finding(ctx, known[cls], "%s: %s" % (cls, known[cls].get("line", EXPLAIN.get(cls, ""))[:200]))
            continue
        reported = True
        core.violation(ctx, cls, {"class": cls, "failing_input": recs[0], "explanation": EXPLAIN.get(cls, EXPLAIN["spec"]),
                                  "more": recs[1:4], "count": len(recs)})
    if not reported:
        if panics:
            core.violation(ctx, "panic", {"failing_input": panics[0], "explanation": "formatter parsing panicked"})
        elif disagree or not ok:
            core.violation(ctx, "correspondence", {
                "broken": ("theorem/audit: " + "; ".join(problems)) if not ok else
                          "correspondence Parser/Formatter.v (parse_variable / from_name_and_args) vs leptos_i18n_parser",
                "first_disagreeing_input": (sorted(disagree, key=size_key) or [None])[0], "disagreements": len(disagree)},
                no_input=True)
    # t*_format! accessors follow the locale of their context over operation histories (shared machinery of C16)
    from checks import acc_common
    acc_evidence = acc_common.run_family(ctx, "format")
    hist = {}
    for m in meta:
        k = m["kind"]
        if k == "text":
            k += ":" + (m["source"]["name"] if m["source"]["name"] in FORMATTERS else "<unknown>")
        hist[k] = hist.get(k, 0) + 1
    hist["runtime:key x locale x value x flavour"] = rt_stats["rt_comparisons"]
    hist["runtime:t*_format! x locale x value x flavour"] = mac_n
    hist["runtime:cache operations (seq + par)"] = ops_stats["ops_calls"]
    nontrivial = set()
    for m in meta:
        if m["kind"] == "text" and m["source"]["args"]:
            nontrivial.add(m["value"])
        elif m["kind"] == "raw":
            nontrivial.add(m["value"])
        elif m["kind"] == "direct" and m["args"]:
            nontrivial.add(json.dumps([m["name"], m["args"]]))
    n_runtime = rt_stats["rt_comparisons"] + mac_n + ops_stats["ops_calls"]
    doc_notes = [rec for _cls, rec in doc_find][:5]
    core.write_evidence(ctx, {
        "documentation_notes": doc_notes,
        "evaluations": len(meta) + n_runtime, "distinct_nontrivial": len(nontrivial) + len(byfmt),
        "rule": "parser level (Coq check on every case): systematic = every formatter x every combination of its options (omitted "
                "or each value) x 4 white-space layouts; random = grammar-derived texts (names, option names/values from the "
                "documented table plus near misses, junk elements, tails, duplicates) with random White_Space padding around "
                "every token; raw = mutated texts, each run bare and padded; direct = Formatter::from_name_and_args on (name, "
                "args). Runtime level: %d keys of a declare_locales! module x en/fr/ar/ja x sample values (numbers as the Rust "
                "value of every type IntoFixedDecimal accepts: u8..u128/usize/i8..i128/isize at MIN/MAX/0/+-1, f32 and f64 at +-0.0, "
                "subnormals, 2^24+-1, 2^53+-1, whole floats up to 2^64, 1e15..1e23, 0.1+0.2, 1e-7, extremes, FixedDecimal; the oracle "
                "converts them the documented way: From for integers, try_from_f64(v, Floating) for floats; dates incl. epoch, leap days, "
                "years -1/0/1/9999, as Date and as DateTime; times incl. midnight, 23:59:59, 23:59:60, nanoseconds; lists of length 0..6 "
                "with empty strings, as Vec<&str> and Vec<String>) x "
                "td_string!/td_display!/td!; a load_locales! fixture (en default, fr, fr-CA inherits fr, ar, ja) whose formatter keys of "
                "every family are absent / null / inherited in some locales, each read for every locale and compared with the "
                "shown template's literal parts around a direct ICU4X call for the REQUESTED locale; every option combination through td_format_string!/td_format_display!, each "
                "compared with a direct ICU4X call using the options the parser selected; %d rounds of %d random cache "
                "operations executed by one thread and by 8 threads started together (6+ blocks of 8 first uses of one key per "
                "round), fresh process each; the same with the second build h_fmt_prov (leptos_i18n without icu_compiled_data, a custom "
                "data provider installed once on the main thread, the 8 workers never install one). non-trivial = has arguments / mutated / distinct (formatter, locale, value)"
                % (rt_stats["rt_keys"], ops_stats["ops_rounds"], ops_stats["ops_calls"] // max(1, 2 * ops_stats["ops_rounds"])),
        "samples": meta[:2] + meta[300:302] + [m for m in meta if m["kind"] == "raw"][:2] + [m for m in meta if m["kind"] == "direct"][:2],
        "traces_validated_against_impl": len(meta) + n_runtime,
        "parser_cases": len(meta), "runtime_comparisons": n_runtime,
        "disagreements": len(disagree), "spec_failures_on_impl": len(bad_spec), "skipped_unmodelled": len(skipped),
        "findings_by_class": {k: len(v) for k, v in groups.items()},
        "input_distribution": hist, "audit_problems": problems, "accessor_locale": acc_evidence, **rt_stats, **ops_stats, **doc_stats,
    }, assumptions=[
        "ICU4X formatting output is an oracle (never modelled): the library's output is compared with direct ICU4X calls",
        "thread schedules of the formatter cache are sampled (8 threads released by a barrier), not enumerated; atomicity of "
        "with_mut rests on std::sync::RwLock",
        "partial: the Coq theorems cover selection of formatter/options and the cache discipline, not ICU4X itself"])


def replay(ctx, path):
    from checks import isolate
    isolate.enter(ctx)
    """re-run the stored failing input on the implementation (and on the model where it is a parser-level input)"""
    obj = json.load(open(path))
    from checks import acc_common
    if acc_common.is_mine(obj):
        return acc_common.replay(ctx, path)
    rec = obj.get("failing_input") or obj.get("first_disagreeing_input") or {}
    print(json.dumps(obj, indent=1, ensure_ascii=False)[:4000])
    bindir = core.cargo_build("h_fmt")
    exe = os.environ.get("C18_EXE") or os.path.join(bindir, "h_fmt")
    if rec.get("replay_with") == "h_fmt_prov":
        exe = os.environ.get("C18_EXE_PROV") or os.path.join(core.cargo_build("h_fmt_prov"), "h_fmt_prov")
    level = rec.get("level", "")
    if "minimal_sequence" in rec or level.startswith("operation sequence"):
        seq = rec.get("minimal_sequence") or ["%s %s %s" % (rec["op"]["formatter"], rec["op"]["locale"], rec["op"]["value_id"])]
        for mode in ("seq", "par"):
            rc, out, err = core.sh([exe, "ops", mode], input="".join(x + "\n" for x in seq), timeout=120)
            for op, l in zip(seq, out.splitlines()):
                lib, direct = [dec(x) for x in l.split("|")]
                print("replay ops %s: %-24s library=%r icu4x_direct=%r %s" % (mode, op, lib, direct, "OK" if lib == direct else "DIFFERENT"))
        return 0
    value = rec.get("value") or rec.get("key_text")
    if value:
        o = run_harness(exe, "parse", [cps(value)])[0]
        print("replay parse: %r -> %s" % (value, o))
        if value.startswith("{{") and value.endswith("}}"):
            pre = PRE + "Definition inner_ := %s.\n" % core.coq_str(value[2:-2])
            print("model parse_variable:", core.coq_show(ctx, pre, "parse_variable all_features inner_"))
    if level.startswith("generated code") or level.startswith("t*_format!"):
        rc, out, err = core.sh([exe, "rt"], timeout=300)
        want = rec.get("key_text")
        keys = [l.split(" ")[1] for l in out.splitlines() if l.startswith("K ") and dec(l.split(" ")[2]) == want]
        for l in out.splitlines():
            p = l.split(" ")
            if p[0] in ("T", "I", "A") and p[1] in keys and p[2] == rec.get("locale") and p[3] == str(rec.get("value_id")):
                print("replay rt:", p[0], p[1], p[2], p[3], p[4] if p[0] != "I" else "", repr(dec(p[-1])))
    if rec.get("kind") == "direct":
        args = rec.get("args")
        line = cps(rec["name"]) + "|" + ("-" if args is None else "|".join(cps(a) + "=" + cps(v) for a, v in args))
        print("replay direct:", run_harness(exe, "direct", [line])[0])
    return 0
