"""Generator of value strings for the string-level parser checks (C01, C09): source ASTs of the
documented grammar printed with whitespace variants (mostly-valid stream) and grammar-aware
mutations / token soups (malformed stream).  Everything derives from the rng passed in."""
from vlib import core

WS = [" ", "  ", "\t", "\n", " ", "　", " ", "\u0085", "\r\n", "  "]
# the 25 White_Space code points Rust's str::trim removes
WSCHARS = [chr(c) for c in list(range(9, 14)) + [32, 133, 160, 5760] + list(range(8192, 8203)) + [8232, 8233, 8239, 8287, 12288]]
NAMES = ["b", "i", "a", "span", "count", "x1", "foo_bar", "a-b", "B", "link", "strong", "em", "n", "user_name", "_x", "t"]
BAD_NAMES = ["type", "if", "_", "1a", "a b", "é", "a.b", "", "self", "fn"]
TEXTS = ["hello", "a b", " ", "x > y", "é", "日本語", "😀", "}", ">", "/", ")", "(", ",", ".", ":", "-", "a/b", "　", "\n",
         "l'été", "\"q\"", "\\", "&amp;", "100%", "t(", "#", "@", "=", "‍", " "]
SPECIAL = ["<", ">", "/", "{", "}", "{{", "}}", "</", "$t(", "$", "(", ")", ",", ".", ":", " ", "　", "é", "😀", "<b>", "</b>",
           "{{x}}", "$t(a)", "\"", "\\", "<b", "b>", "{}", "{\"a\":1}"]

LEN = ["full", "long", "medium", "short"]
FORMATTERS = {
    # name -> list of (arg name, values table, default index) ; constructor template
    "date": ([("date_length", LEN, 2)], "(FDate %d)"),
    "time": ([("time_length", LEN, 3)], "(FTime %d)"),
    "datetime": ([("date_length", LEN, 2), ("time_length", LEN, 3)], "(FDateTime %d %d)"),
    "number": ([("grouping_strategy", ["auto", "never", "always", "min2"], 0)], "(FNumber %d)"),
    "list": ([("list_type", ["and", "or", "unit"], 2), ("list_style", ["wide", "short", "narrow"], 0)], "(FList %d %d)"),
    "currency": ([("width", ["short", "narrow"], 0)], None),
}


def w(rng, p=0.4):
    return rng.choice(WS) if rng.random() < p else ""


def gen_formatter(rng):
    """(text after the comma, Coq fmt term of its documented meaning)"""
    name = rng.choice(list(FORMATTERS))
    opts, tmpl = FORMATTERS[name]
    chosen = []
    parts = []
    for (an, vals, dflt) in opts:
        r = rng.random()
        if r < 0.45:
            chosen.append(dflt)       # omitted -> default
        else:
            # unrecognised values / other arguments first: they must be skipped
            if rng.random() < 0.3:
                parts.append("%s%s%s:%s%s" % (w(rng), an, w(rng), w(rng), rng.choice(["bogus", "", "FULL", "lon g"])))
            if rng.random() < 0.2:
                parts.append("%sother%s:%sfull" % (w(rng), w(rng), w(rng)))
            i = rng.randrange(len(vals))
            chosen.append(i)
            parts.append("%s%s%s:%s%s%s" % (w(rng), an, w(rng), w(rng), vals[i], w(rng)))
            if rng.random() < 0.2:   # a later value for the same argument loses
                parts.append("%s:%s" % (an, rng.choice(vals)))
    code = "USD"
    if name == "currency":
        if rng.random() < 0.6:
            code = rng.choice(["EUR", "usd", "JPY", "x", "ab"])
            if rng.random() < 0.3:
                parts.append("currency_code: toolong")
            parts.append("%scurrency_code%s:%s%s%s" % (w(rng), w(rng), w(rng), code, w(rng)))
        rng.shuffle(parts) if len(parts) == 1 else None
        term = "(FCurrency %d %s)" % (chosen[0], core.coq_str(code))
    else:
        term = tmpl % tuple(chosen)
    if parts:
        text = "%s%s%s(%s)%s" % (w(rng), name, w(rng), ";".join(parts), w(rng))
    else:
        text = "%s%s%s" % (w(rng), name, rng.choice(["", "", "()", "( )"]) + w(rng))
    return text, term


def gen_items(rng, depth=0, maxn=4):
    items = []
    for _ in range(rng.randint(0, maxn)):
        r = rng.random()
        if r < 0.4:
            items.append(("T", rng.choice(TEXTS) if rng.random() < 0.8 else rng.choice(TEXTS) + rng.choice(TEXTS)))
        elif r < 0.7:
            fm = None
            if rng.random() < 0.3:
                text, term = gen_formatter(rng)
                t = text.rstrip("".join(WSCHARS))
                fm = (t, text[len(t):], term)
            items.append(("V", w(rng), rng.choice(NAMES), w(rng), fm))
        elif depth < 4:
            n = rng.choice(NAMES[:6]) if rng.random() < 0.7 else rng.choice(NAMES)
            kids = gen_items(rng, depth + 1, 3)
            items.append(("C", w(rng, 0.3), n, w(rng, 0.3), kids, w(rng, 0.3), w(rng, 0.3), w(rng, 0.3)))
    return items


def print_items(items):
    out = []
    for it in items:
        if it[0] == "T":
            out.append(it[1])
        elif it[0] == "V":
            _, w1, n, w2, fm = it
            out.append("{{" + w1 + n + w2 + (("," + fm[0] + fm[1]) if fm else "") + "}}")
        else:
            _, w1, n, w2, kids, a, b, c = it
            out.append("<" + w1 + n + w2 + ">" + print_items(kids) + "<" + a + "/" + b + n + c + ">")
    return "".join(out)


def coq_items(items):
    out = []
    for it in items:
        if it[0] == "T":
            out.append("SText %s" % core.coq_str(it[1]))
        elif it[0] == "V":
            _, w1, n, w2, fm = it
            f = "(Some (%s, %s, %s))" % (core.coq_str(fm[0]), core.coq_str(fm[1]), fm[2]) if fm else "None"
            out.append("SVar %s %s %s %s" % (core.coq_str(w1), core.coq_str(n), core.coq_str(w2), f))
        else:
            _, w1, n, w2, kids, a, b, c = it
            out.append("SComp %s %s %s %s %s %s %s" % (core.coq_str(w1), core.coq_str(n), core.coq_str(w2), coq_items(kids),
                                                      core.coq_str(a), core.coq_str(b), core.coq_str(c)))
    return "[" + "; ".join(out) + "]"


def count_nodes(items):
    n = 0
    for it in items:
        n += 1
        if it[0] == "C":
            n += count_nodes(it[4])
    return n


def gen_foreign(rng):
    path = ".".join(rng.choice(NAMES) for _ in range(rng.randint(1, 3)))
    if rng.random() < 0.3:
        path = rng.choice(NAMES) + ":" + path
    args = rng.choice(["", "", "," + w(rng) + "{}" + w(rng), ", {  }", ',{"count": 3}', ', {"a": "x {{ y }}", "b": true, " c ": -4}',
                       ',{"a":"<b>z</b>"}', ',{"a": "$t(k)"}', ',{"n": 1.5}', ',{"a": null}', ',{"a": [1]}', ",{} x", ",", ",{", ",}", ",é",
                       ",{é}", ',{"a":1,}', ',{"a" 1}', ',{"s":"\\n\\"q\\""}', ',{"s":"\\u00e9"}', ',{"a":1,"a":2}', ',{"k":01}', ',{"k":-0}',
                       ',{"k":18446744073709551616}', ',{"k":-9223372036854775808}', ',{"x":{"y":1}}'])
    return "$t(" + w(rng) + path + w(rng) + args + ")"


def mutate(rng, s):
    s = list(s)
    for _ in range(rng.randint(1, 3)):
        op = rng.random()
        if op < 0.35 and s:
            del s[rng.randrange(len(s))]
        elif op < 0.8:
            s.insert(rng.randint(0, len(s)), rng.choice(list("<>/{}$t(),.: 　é😀\"")))
        elif s:
            i = rng.randrange(len(s))
            s[i:i] = s[i:i + rng.randint(1, 4)]
    return "".join(s)


CORPUS = [
    # regression inputs (defects found earlier, unit tests of the repository)
    "a <b>x</b > c", "a <b>x</b　> c", "$t(a,", "$t(a,é)", "$t(a,x)", "<b><b>x</b></b>", "<b>a</b><b>c</b>",
    "before <p>middle</p> after", "<p>test<h3>this is a h3</h3>not closing p", "before {{ var }} after",
    "<p>test<h3>this is a h3</h3></p>", "<p>test <h3>this is a h3 closing p</p>", "{{", "}}", "<", ">", "</>", "<>", "< >x< / >",
    "{{ x, }}", "{{ , date }}", "{{ x, date( }}", "{{ x, nope }}", "$t()", "$t(a.b)", "$t(ns:a.b, {\"count\": 3})", "$t(", "$t(a",
    "<b>$t(k)</b>", "a <b>x $t(k, {\"v\": \"<i>z</i>\"}) y</b> c", "$t(k, {\"v\": \"<b>z</b>\"}) <b>w</b>", "<b>x</b> $t(k) <b>$t(j)</b>",
    "{{ type }}", "<if>x</if>", "<a-b>x</a-b>", "{{a}}<b>{{c}}</b>{{d}}", "<b>x</b><b>y</b></b>", "</b><b>x</b>",
]


def gen_cases(rng, n_valid, n_mal):
    """list of (string, source items or None, kind)"""
    cases = [(s, None, "corpus") for s in CORPUS]
    for _ in range(n_valid):
        items = gen_items(rng)
        cases.append((print_items(items), items, "valid"))
    for _ in range(n_mal):
        r = rng.random()
        if r < 0.35:
            s = mutate(rng, print_items(gen_items(rng)))
            k = "mutated"
        elif r < 0.6:
            s = "".join(rng.choice(SPECIAL + TEXTS) for _ in range(rng.randint(1, 7)))
            k = "soup"
        elif r < 0.8:
            its = gen_items(rng, maxn=2)
            s = print_items(its[:1]) + gen_foreign(rng) + print_items(its[1:])
            k = "foreign"
        else:
            # invalid names / keywords in otherwise well-formed syntax
            n = rng.choice(BAD_NAMES)
            s = rng.choice(["{{%s}}" % n, "<%s>x</%s>" % (n, n), "a{{ %s , date }}b" % n, "$t(%s)" % n, "$t(a.%s)" % n])
            k = "badname"
        cases.append((s.replace("\x00", ""), None, k))
    return cases
