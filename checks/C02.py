"""C02 — every accessor flavour of a key denotes the same text (and the end-to-end observation of C01).
Theorems: coq/theories/Props/C02.v and Props/C01b.v over the model Codegen/Target.v.
Correspondence: generated probe crates (checks/probe_common.py) compiled with `leptos_i18n::load_locales!()`; for every
(key, locale, argument assignment) every flavour's output is compared, inside Coq, with the rendering of the SOURCE AST
of the translation and with the model pipeline parse -> reduce -> gen_view / gen_string -> eval."""
import json
import os

from vlib import core
from checks import parsegen
from checks import probe_common as pc

THEOREMS = ["C02_backends_agree", "C02_ssr_text", "C02_lit_wrapper", "C02_literals_agree", "C02_literals_instance", "C02_attrs_agree", "C02_scope_transparent", "C02_scope_chain",
            "C02_arm_select", "C02_defaulted_agree", "C02_defaulted_literal", "C02_effective_is_walk", "C02_defaulted_config", "C02_ranges_agree", "C02_plurals_agree",
            "C02_spec"]
THEOREMS_C01B = ["C01_codegen_view", "C01_codegen_string", "C01_tuple_order", "C01_tuple_order_eval", "C01_flatten_atoms",
                 "C01_tuple_width", "C01_either_exists", "C01_either_in_range", "C01_either_injective"]
PROPS = "theories/Props/C02.v"
PROPS_C01B = "theories/Props/C01b.v"
REGISTRY = {
    "level": "proof",
    "technique": "Coq proof over a Gallina model of the two code generators (target language + evaluators) + differential "
                 "correspondence against generated probe crates compiled with load_locales!()",
    "text": "Theorems C01_codegen_view/C01_codegen_string/C01_tuple_order/C01_tuple_width/C01_either_* (Props/C01b.v) and "
            "C02_backends_agree/C02_ranges_agree/C02_scope_transparent/C02_scope_chain/C02_arm_select/C02_spec (Props/C02.v) hold "
            "for every value, environment, tuple length, arm list, locale count and scoping depth (no bound). The model is tied to /repo by compiling generated projects "
            "and comparing, for every key x locale x argument assignment, td_string!/td_display!/td!/t!/tu!/t_string!/t_display!/"
            "tu_string!/tu_display!, the const accessor chain and the same through scope_locale!/scope_i18n!/use_i18n_scoped! for "
            "every scoping prefix (and chained), with the rendering of the translation's source AST.",
    "design_ref": "DESIGN.md §5 C02, §5 C01 (Codegen/Target.v), §4 H3",
    "note": "Trusted: Coq kernel + vm_compute; hand-written model Codegen/Target.v (tied by the correspondence run); rustc and "
            "the macro token plumbing of t!/td! (observed, not modelled beyond the call sequence); leptos' HTML serialisation "
            "(canonicaliser in probe_common.py; tachys writes an empty text node as one space - modelled by render_ssr); Python "
            "generator. No axioms (Print Assumptions: closed).",
    "engine": "coq",
    "packages": [],
}
PRE = ("From Coq Require Import List NArith ZArith.\nImport ListNotations.\n"
       "From LI Require Import Base.StrOps Parser.Parse Parser.Reduce Parser.Source Codegen.Target Codegen.TargetCheck.\n"
       "Open Scope N_scope.\n")


def z2(n):
    """numbers doubled, as Coq Z"""
    return "(%d)%%Z" % int(round(n * 2))


def coq_cond(c):
    if c[0] == "exact":
        return "RExact %s" % z2(c[1])
    _, lo, hi, incl = c
    return "RBounds %s %s" % ("None" if lo is None else "(Some %s)" % z2(lo),
                              "None" if hi is None else "(Some (%s, %s))" % (z2(hi), "true" if incl else "false"))


FORM_COQ = {"zero": "Plurals.Zero", "one": "Plurals.One", "two": "Plurals.Two", "few": "Plurals.Few", "many": "Plurals.Many"}
FORM_CODE = {"zero": 0, "one": 1, "two": 2, "few": 3, "many": 4, "other": 5}


def coq_src(value):
    if value[0] == "plural":
        pair = lambda items: "(%s, %s)" % (parsegen.coq_items(items), core.coq_str(parsegen.print_items(items)))
        forms = ["(%s, %s)" % (FORM_COQ[f], pair(items)) for f, items in value[2].items() if f != "other"]
        return "(SrcPlural %s %s %s)" % ("Plurals.Ordinal" if value[1] else "Plurals.Cardinal", core.coq_list(forms),
                                         pair(value[2]["other"]))
    if value[0] == "range":
        arms = ["(%s, (%s, %s))" % (core.coq_list([coq_cond(c) for c in conds]), parsegen.coq_items(items),
                                    core.coq_str(parsegen.print_items(items))) for items, conds in value[2]]
        return "(SrcRange %s %s)" % ("true" if value[1] == "f32" else "false", core.coq_list(arms))
    if value[0] == "lit":
        v = value[1]
        if isinstance(v, bool):
            return "(SrcLit (LBool %s))" % ("true" if v else "false")
        if isinstance(v, float):
            # the canonical printing of an f64 (Rust `{}`) is an oracle: computed by probe_common.rust_display
            return "(SrcLit (LFloat %s))" % core.coq_str(pc.rust_display(v))
        if v < 0:
            return "(SrcLit (LSigned (%d)%%Z))" % v
        return "(SrcLit (LUnsigned %d))" % v
    return "(SrcStr %s %s)" % (parsegen.coq_items(value[1]), core.coq_str(parsegen.print_items(value[1])))


def coq_tables(tag, project):
    """preamble definitions: the inherits table of the crate and, per key, what every defining locale wrote"""
    idx = {l: i for i, l in enumerate(project.locales)}
    out = ["Definition INH_%s : list (N * N) := %s." % (tag, core.coq_list(
        ["(%d, %d)" % (idx[k], idx[v]) for k, v in project.inherits.items()]))]
    for key in project.keys:
        rows = ["(%d, %s)" % (idx[l], coq_src(key.values[l])) for l in project.locales
                if key.values[l][0] not in ("absent", "null")]
        out.append("Definition K_%s_%d : list (N * src_value) := %s." % (tag, key.id, core.coq_list(rows)))
    return "\n".join(out) + "\n"


def coq_case(tag, project, key, loc, a, flavours, oracle):
    env = pc.env_of(key, a)
    lang = pc.LANGS.index(pc.lang_of(loc)) if pc.lang_of(loc) else 0
    icu = 6
    if key.plural:
        icu = FORM_CODE.get(oracle.get((loc, key.plural, pc.count_of(key, a))), 7)
    vs = core.coq_list(["(%s, %s)" % (core.coq_str("var_" + v), core.coq_str(env[v])) for v in sorted(env)])
    cs = core.coq_list(["(%s, (%s, %s))" % (core.coq_str("comp_" + c), core.coq_str(key.tags[c]), core.coq_list(
        ["(%s, %s)" % (core.coq_str(n), core.coq_str(v)) for n, v in key.attrs.get(c, [])])) for c in key.comps])
    so = [t for f, t in sorted(flavours.items()) if f.split(":")[-1] not in pc.VIEW_FLAVOURS]
    vo = [t for f, t in sorted(flavours.items()) if f.split(":")[-1] in pc.VIEW_FLAVOURS]
    # identical outputs are listed once: the case term stays small and every distinct answer is still judged
    so, vo = sorted(set(so)), sorted(set(vo))
    return "(mk_case K_%s_%d INH_%s %d %d %s %d %d %s %s %s %s)" % (
        tag, key.id, tag, len(project.locales), project.locales.index(loc),
        z2(pc.count_of(key, a)) if (key.range_type or key.plural) else "0%Z", lang, icu, vs, cs, core.coq_list([core.coq_str(x) for x in so]),
                                         core.coq_list([core.coq_str(x) for x in vo]))


def expected_flavours(key):
    n = len(key.path)
    fl = ["td_string", "td_display", "td", "td_short", "t", "tu", "t_string", "t_display", "tu_string", "tu_display"]
    if key.const:
        fl.append("const")
    for m in range(1, n):
        fl += ["scope_locale%d:td_string" % m, "scope_locale%d:td_display" % m, "scope_locale%d:td" % m,
               "scope_i18n%d:t_string" % m, "scope_i18n%d:t" % m, "use_i18n_scoped%d:t_string" % m, "use_i18n_scoped%d:tu" % m]
    if n > 2:
        fl += ["scope_locale_chain:td_string", "scope_locale_chain:td", "scope_i18n_chain:t_display", "scope_i18n_chain:t"]
    return fl


def source_text(v):
    if v[0] in ("absent", "null"):
        return v[0]
    if v[0] == "plural":
        return json.dumps({("ordinal_" if v[1] else "") + f: parsegen.print_items(i) for f, i in v[2].items()}, ensure_ascii=False)
    return v[1] if v[0] == "lit" else json.dumps(pc.range_json(v), ensure_ascii=False) if v[0] == "range" else parsegen.print_items(v[1])


def size_of(value):
    if value[0] in ("lit", "absent", "null"):
        return 1
    if value[0] == "range":
        return 5 + sum(size_of(("str", items)) for items, _ in value[2])
    if value[0] == "plural":
        return 5 + sum(size_of(("str", items)) for items in value[2].values())
    return 1 + parsegen.count_nodes(value[1]) + len(parsegen.print_items(value[1]))


def probe(ctx, tag, project, assignments=2):
    """build + run one probe crate; returns (preamble, items, meta, problems)"""
    from checks import isolate
    d = isolate.probe_dir(ctx, "probe_" + tag)
    os.makedirs(d, exist_ok=True)
    # one package name per crate of a run: cargo does not refresh target/debug/<name> for a crate it finds up to date, so
    # crates sharing a name could be handed each other's binary
    pname = isolate.probe_name(ctx, "h_probe_" + tag)
    pc.write_crate(d, project, assignments, name=pname)
    exe, log = pc.build_crate(d, name=pname)
    if exe is None:
        return "", [], [], [{"what": "generated probe crate does not compile", "crate": d, "log_tail": log[-2500:]}]
    res = pc.run_probe(exe)
    items, meta, problems = [], [], []
    pre = coq_tables(tag, project)
    oracle = res.get("__plural_oracle__", {})
    for key in project.keys:
        want = set(expected_flavours(key))
        for loc in project.locales:
            for a in range(key.assignments):
                fl = res.get((key.id, a, loc))
                if fl is None or set(fl) != want:
                    problems.append({"what": "probe output incomplete", "crate": tag, "key": ".".join(key.path), "locale": loc,
                                     "missing": sorted(want - set(fl or {}))[:5]})
                    continue
                if a > 0 and not key.vars and not key.range_type and not key.plural:
                    continue            # no argument: the second assignment is the same observation
                items.append(coq_case(tag, project, key, loc, a, fl, oracle))
                eff = pc.effective_locale(project, key, loc)
                v = key.values[eff]
                meta.append({"crate": tag, "key": ".".join(key.path), "locale": loc, "assignment": a,
                             "written_in_this_locale": key.values[loc][0] if key.values[loc][0] in ("absent", "null") else "defined",
                             "effective_locale": eff, "inherits": project.inherits,
                             "defined_in": [l for l in project.locales if key.values[l][0] not in ("absent", "null")],
                             "source": source_text(v), "source_kind": v[0],
                             "count": pc.count_of(key, a) if (key.range_type or key.plural) else None,
                             "plural": key.plural,
                             "icu_category": oracle.get((loc, key.plural, pc.count_of(key, a))) if key.plural else None,
                             "args": pc.env_of(key, a), "component_tags": key.tags, "component_attributes": key.attrs, "flavours": len(fl),
                             "outputs": {f: t for f, t in fl.items()} if len(set(fl.values())) > 1 else
                                        {"(all %d flavours)" % len(fl): next(iter(fl.values()))},
                             "size": size_of(v), "locales": len(project.locales),
                             "namespaces": bool(project.namespaces), "depth": len(key.path)})
    return pre, items, meta, problems


def shrink_candidates(items):
    out = []
    for i, it in enumerate(items):
        out.append(items[:i] + items[i + 1:])
        if it[0] == "C":
            out.append(items[:i] + it[4] + items[i + 1:])
            for sub in shrink_candidates(it[4])[:6]:
                out.append(items[:i] + [("C", "", it[2], "", sub, "", "", "")] + items[i + 1:])
        elif it[0] == "T" and len(it[1]) > 1:
            out.append(items[:i] + [("T", it[1][:1])] + items[i + 1:])
        elif it[0] == "V" and (it[1] or it[3]):
            out.append(items[:i] + [("V", "", it[2], "", None)] + items[i + 1:])
    seen, res = set(), []
    for c in out:
        s = parsegen.print_items(c)
        if s not in seen:
            seen.add(s)
            res.append(c)
    return res


def shrink(ctx, failing):
    """one more probe crate whose keys are smaller variants of the failing translation; the smallest that still fails wins"""
    if failing["source_kind"] != "str" or "items" not in failing:
        return failing
    cands = sorted(shrink_candidates(failing["items"]), key=lambda c: len(parsegen.print_items(c)))[:40]
    if not cands:
        return failing
    proj = pc.Project()
    proj.locales, proj.namespaces, proj.keys, proj.inherits, proj.group_null = ["en"], None, [], {}, set()
    for i, c in enumerate(cands):
        k = pc.PKey(i, ("k%d" % i,))
        k.values["en"] = ("str", c)
        k.finish(ctx.rng)
        proj.keys.append(k)
    pre, items, meta, problems = probe(ctx, "shrink", proj, 2)
    if not items:
        return failing
    for m, k in zip(meta, [proj.keys[int(m["key"][1:])] for m in meta]):
        m["items"] = k.values["en"][1]
    codes = core.coq_eval(ctx, "c02s", PRE + pre, items, "check", min_per_shard=10)
    bad = [m for m, c in zip(meta, codes) if c == 3]
    if not bad:
        return failing
    bad.sort(key=lambda m: m["size"])
    bad[0]["shrunk_from"] = failing["source"]
    return bad[0]


def run(ctx):
    from checks import isolate
    isolate.enter(ctx)
    ok, problems_audit = core.coq_audit(ctx, PROPS, THEOREMS)
    info = dict(ctx.coq_info)
    ok2, problems2 = core.coq_audit(ctx, PROPS_C01B, THEOREMS_C01B)
    problems_audit += problems2
    ok = ok and ok2
    # evidence reports both property files
    for k in ("theorems",):
        ctx.coq_info[k] = info.get(k, []) + ctx.coq_info.get(k, [])
    ctx.coq_info["assumptions"] = dict(info.get("assumptions", {}), **ctx.coq_info.get("assumptions", {}))
    ctx.coq_info["qed_in_closure"] = max(info.get("qed_in_closure", 0), ctx.coq_info.get("qed_in_closure", 0))
    ctx.coq_info["closure"] = sorted(set(info.get("closure", []) + ctx.coq_info.get("closure", [])))
    ctx.coq_info["built"] = bool(info.get("built")) and bool(ctx.coq_info.get("built"))
    okc, logc = core.coq_build(["theories/Codegen/TargetCheck.vo"])
    if not okc:
        raise core.Infra("TargetCheck.v does not build: " + logc[-600:])
    rng = ctx.rng
    # inherits shapes: chain of depth 2 (fr-BE -> fr-CA -> fr), fork (de-AT, de-CH -> de), child of a non-default parent,
    # cycle (ru-BY <-> ru-UA), explicit inheritance from the default (pt -> en), none (pt-PT: implicit default)
    # languages en/fr/ar/ru/pt/pt-PT: six different CLDR plural patterns (Runtime/CldrRules.v)
    plans = [("ns", dict(n_keys=36, locales=["en", "fr", "fr-CA", "fr-BE", "ar", "ar-EG", "ar-SA", "ru-BY", "ru-UA", "pt", "pt-PT"],
                         namespaces=["common", "home"], wide=True,
                         inherits={"fr-CA": "fr", "fr-BE": "fr-CA", "ar-EG": "ar", "ar-SA": "ar", "ru-BY": "ru-UA",
                                   "ru-UA": "ru-BY", "pt": "en"}))]
    if not ctx.quick:
        many = ["l%s" % chr(97 + i) for i in range(18)]
        plans += [("flat", dict(n_keys=90, locales=["en", "fr", "fr-CA"], namespaces=None, wide=True, inherits={"fr-CA": "fr"})),
                  ("many", dict(n_keys=14, locales=many, namespaces=None, wide=False,
                                inherits={"lc": "lb", "ld": "lc", "le": "le", "lf": "la", "lg": "lr", "lr": "lq"})),
                  ("one", dict(n_keys=40, locales=["ar"], namespaces=["only"], wide=True)),
                  ("five", dict(n_keys=40, locales=["ru", "fr", "en", "ar", "cy", "pl", "pt-PT"], namespaces=None, wide=False,
                                inherits={"fr": "en", "en": "fr", "ar": "cy"})),
                  ("nogaps", dict(n_keys=40, locales=["fr", "en", "ja"], namespaces=["common"], wide=True, gaps=False)),
                  ("nonlang", dict(n_keys=30, locales=["de", "es", "pt-BR", "it"], namespaces=None, wide=False,
                                   inherits={"pt-BR": "es"}))]
    items, meta, problems, projects, pre = [], [], [], {}, ""
    for tag, kw in plans:
        proj = pc.gen_project(rng, **kw)
        projects[tag] = proj
        pre2, i2, m2, p2 = probe(ctx, tag, proj)
        pre += pre2
        items += i2
        meta += m2
        problems += p2
    codes = core.coq_eval(ctx, "c02", PRE + pre, items, "check", min_per_shard=10)
    for m, c in zip(meta, codes):
        m["code"] = c
    bad = [m for m in meta if m["code"] == 3]
    disagree = [m for m in meta if m["code"] == 2]
    skipped = [m for m in meta if m["code"] == 1]
    if bad:
        bad.sort(key=lambda m: m["size"])
        first = bad[0]
        proj = projects[first["crate"]]
        key = [k for k in proj.keys if ".".join(k.path) == first["key"]][0]
        if first["source_kind"] == "str" and first["written_in_this_locale"] == "defined":
            first["items"] = key.values[first["locale"]][1]
        first = shrink(ctx, first)
        first.pop("items", None)
        first["explanation"] = ("some accessor flavour does not render what the translation source says (Coq: check = 3, "
                                "Codegen/TargetCheck.v): string-like flavours must equal render(source pieces), view flavours "
                                "its server-side serialisation; see `outputs` for the flavours that differ")
        core.violation(ctx, "spec", {"failing_input": first, "more": [dict(m, outputs=None) for m in bad[1:5]], "count": len(bad)})
    elif problems or disagree or not ok:
        core.violation(ctx, "correspondence", {
            "broken": ("theorem/audit: " + "; ".join(problems_audit)) if not ok else
                      "correspondence Codegen/Target.v vs the code generated by leptos_i18n_macro (probe crate)",
            "first_disagreeing_input": (disagree or problems or [None])[0], "disagreements": len(disagree),
            "harness_problems": problems[:5]}, no_input=True)
    hist = {}
    for m in meta:
        k = "crate=%s,%s,%s" % (m["crate"], m["source_kind"],
                                m["written_in_this_locale"] + ("" if m["effective_locale"] == m["locale"] else
                                                               "->default" if m["effective_locale"] == projects[m["crate"]].locales[0]
                                                               else "->inherited"))
        hist[k] = hist.get(k, 0) + 1
    nontrivial = {(m["source"], json.dumps(m["args"], sort_keys=True), m["locale"], m["key"]) for m in meta
                  if m["source_kind"] in ("range", "plural") or (m["source_kind"] == "str" and ("{{" in m["source"] or "<" in m["source"]))}
    core.write_evidence(ctx, {
        "evaluations": len(meta), "distinct_nontrivial": len(nontrivial),
        "flavour_outputs_compared": sum(m["flavours"] for m in meta),
        "rule": "one generated probe crate per plan (%s); every key x locale x 2 argument assignments; each case holds all flavours "
                "(10 direct/context flavours, the const chain when the key is a literal everywhere, 7 flavours per scoping prefix, "
                "4 chained-scope flavours); values: text with unicode/quotes/entities, variables, components nested to depth 3 incl. "
                "same-name, JSON numbers/booleans, empty strings, keys with 26..80 top-level pieces (tuple chunking), sub-keys to "
                "depth 3, namespaces; argument values include empty, '<', '&', quotes; non-trivial = an interpolated string; "
                "distinct by (source, arguments, locale, key)" % ", ".join(t for t, _ in plans),
        "samples": [m for m in meta if m["source_kind"] == "str" and "<" in m["source"]][:3] + meta[:2],
        "traces_validated_against_impl": len(meta),
        "disagreements": len(disagree), "spec_failures_on_impl": len(bad), "skipped_outside_model": len(skipped),
        "harness_problems": problems[:5], "input_distribution": hist, "audit_problems": problems_audit,
    }, assumptions=[
        "view flavours are observed through leptos' to_html(): hydration markers/comments removed and entities decoded as "
        "/repo/tests/common does; tachys serialises an empty text node as one space (render_ssr models exactly that)",
        "variable and component names are kept disjoint within a key: passing `a = ..` and `<a> = ..` together does not compile "
        "(see fixes/C08-var-comp-same-name)",
        "that t!/td!/... expand to the same builder calls is observed on the generated crates, not proved",
        "a locale may leave a key (or a whole sub-key group) absent or null; the expected text is then the source of the first "
        "locale of its `inherits` walk that defines the key, else the default's - recomputed in Coq from the configuration "
        "(Parser/Merge.first_defined), independently of DefaultedLocales; ranges with integer and f32 counts are "
        "included (which arm contains the count is recomputed independently in Coq from the written bounds); plural keys "
        "(cardinal and ordinal, form subsets containing `other`) are judged with the CLDR rules written out in Coq "
        "(Runtime/CldrRules.v, en/fr/ru/ar/pl/ja/cy/he) for the locale ASKED for applied to the forms of the effective locale "
        "(that is what both generated back-ends do), and icu_plurals' own category, printed by the probe, is cross-checked "
        "against them; integer counts only; no formatters or foreign keys in the probe values (C18/C06)"])


def replay(ctx, path):
    from checks import isolate
    isolate.enter(ctx)
    obj = json.load(open(path))
    print(json.dumps(obj, indent=1, ensure_ascii=False)[:8000])
    return 0
