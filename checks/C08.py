"""C08 — a key's required arguments are the union over all locales.
Theorems: coq/theories/Props/C08.v over the model Parser/Keys.v.
Correspondence: harness h_plurals (mode parse) runs the real parse pipeline on generated projects whose keys differ in kind
per locale and dumps InterpolOrLit of every key; spec_C08 (Coq) is evaluated on the dump.  Thorough tier: one positive and
one negative probe crate (`cargo check --message-format=json`) for the "does not compile" half (observed, not proved)."""
import json
import os
import shutil

from vlib import core

THEOREMS = ["C08_union", "C08_order", "C08_conflict", "C08_spec", "C08_gki_events", "C08_fields", "C08_chain_count_key",
            "C08_chain_rename_then_plain", "C08_range_closure_keys_union", "C08_closure_owns_count"]
PROPS = "theories/Props/C08.v"
REGISTRY = {
    "level": "proof",
    "technique": "Coq proof over a Gallina model of get_keys/get_keys_inner/InterpolationKeys + differential correspondence "
                 "(coqc vm_compute vs the compiled parser); compile probes (cargo check) for the rejection half",
    "text": "Theorems C08_union/C08_order/C08_conflict/C08_spec (Props/C08.v): for every value tree per locale the accumulated "
            "signature of a key is the union over locales of the variables, components and count variables occurring in it, "
            "independent of the order of the non-default locales; a count used with two different types is an error. Tied to "
            "/repo by dumping InterpolOrLit of every key of generated projects (kinds differing per locale) and evaluating "
            "spec_C08 on it.",
    "design_ref": "DESIGN.md §5 C08",
    "note": "Partial: 'supplying exactly that set compiles / omitting one does not' is rustc + typed-builder behaviour, observed "
            "with generated probe crates in the thorough tier only, not proved. Values are modelled after foreign-key "
            "substitution and reduce (those belong to C06/C01).",
    "engine": "coq",
    "packages": [("h_plurals",)],
}
PRE = ("From Coq Require Import List NArith.\nImport ListNotations.\n"
       "From LI Require Import Parser.Keys Parser.KeysCheck.\nOpen Scope N_scope.\n")

LOCALES = ["en", "fr", "ru", "ar", "pl", "ja", "cy", "he"]
RANGE_TYPES = ["I8", "I16", "I32", "I64", "U8", "U16", "U32", "U64", "F32", "F64"]
LIT = {"String": "LString", "Bool": "LBool", "Signed": "LSigned", "Unsigned": "LUnsigned", "Float": "LFloat"}
VARS = ["a", "b", "c", "n", "count"]
COMPS = ["b", "i", "a"]
WORDS = ["hello", "the", "item", "of", "x y", "."]


# ---------------------------------------------------------------- source ASTs

def gen_pieces(rng, depth=0, need_key=False):
    out = []
    for _ in range(rng.choice([1, 2, 3])):
        r = rng.random()
        if r < 0.4:
            out.append(("text", rng.choice(WORDS)))
        elif r < 0.8 or depth >= 2:
            out.append(("var", rng.choice(VARS), rng.choice([None, None, "number"])))
        else:
            out.append(("comp", rng.choice(COMPS), gen_pieces(rng, depth + 1)))
    if need_key and not any(p[0] != "text" for p in out):
        out.append(("var", rng.choice(VARS), None))
    return out


def pieces_json(ps):
    s = []
    for p in ps:
        if p[0] == "text":
            s.append(p[1])
        elif p[0] == "fk":
            s.append("$t(%s)" % p[1])
        elif p[0] == "fkc":
            s.append("$t(%s, {\"count\": \"{{ %s }}\"})" % (p[1], p[2]))
        elif p[0] == "var":
            s.append("{{ %s%s }}" % (p[1], ", " + p[2] if p[2] else ""))
        else:
            s.append("<%s>%s</%s>" % (p[1], pieces_json(p[2]), p[1]))
    return " ".join(s)


def gen_value(rng, count_kind, is_default, targets, fk_in_plural=False):
    """count_kind: None | ('range', jsontype) | 'plural' | 'free' — keeps the count type of a key consistent across locales"""
    r = rng.random()
    if not is_default and r < 0.08:
        return ("null",)
    if r < 0.22:
        return ("lit", rng.choice(["String", "String", "Bool", "Signed", "Unsigned", "Float"]))
    if r < 0.5:
        return ("str", gen_pieces(rng))
    if r < 0.6 and targets:
        return ("fk", rng.choice(targets))
    if count_kind is None:
        return ("str", gen_pieces(rng))
    if count_kind == "plural" or (count_kind == "free" and rng.random() < 0.5):
        if r < 0.7:
            return ("fkcount", rng.choice(["count", "count", "n"]) if count_kind == "free" else "count")
        forms = rng.sample(["zero", "one", "two", "few", "many"], rng.choice([1, 2, 3]))
        fd = {f: gen_pieces(rng) for f in forms + ["other"]}
        if fk_in_plural and targets and rng.random() < 0.4:
            # a foreign key inside a plural form (panicked at resolve_foreign_keys_1 before
            # fixes/C09-foreign-key-in-plural-form.diff: the registered path `key_one` no longer exists after merging)
            f = rng.choice(sorted(fd))
            fd[f] = [("fk", rng.choice(targets))] + fd[f]
        return ("plural", rng.choice(["cardinal", "ordinal"]), fd)
    ty = count_kind[1] if count_kind != "free" else rng.choice([None, "u64", "f32", "i64"])
    return ("ranges", ty, [gen_pieces(rng) for _ in range(rng.choice([1, 2]))] + [gen_pieces(rng)])


def gen_project(rng, conflict):
    nl = rng.choice([2, 3, 4, 8])
    locales = ["en"] + rng.sample(LOCALES[1:], nl - 1)
    keys = {}
    # foreign-key targets, identical shape in every locale: t0/t1 strings with at least one argument, pl0 a plural
    targets = ["t0", "t1"]
    for t in targets:
        keys[t] = {l: ("str", gen_pieces(rng, need_key=True)) for l in locales}
    keys["pl0"] = {l: ("plural", "cardinal", {"one": [("text", "one")], "other": [("var", "count", None), ("text", "items")]})
                   for l in locales}
    # targets of foreign keys WITH arguments: an interpolation, a range table and a plural, all using `{{ name }}`
    def with_name(ps):
        return ps + [("var", "name", rng.choice([None, None, "number"]))]
    keys["g0"] = {l: ("str", with_name(gen_pieces(rng)) + ([("var", "other", None)] if rng.random() < 0.5 else [])) for l in locales}
    keys["g1"] = {l: ("ranges", None, [with_name(gen_pieces(rng)), gen_pieces(rng), with_name([("text", "rest")])]) for l in locales}
    keys["g2"] = {l: ("plural", "cardinal", {"one": with_name([("text", "one")]), "other": with_name(gen_pieces(rng))}) for l in locales}
    nk = rng.choice([6, 10, 16])
    bad = rng.randrange(nk) if conflict else -1
    fk_in_plural = rng.random() < 0.15          # some projects use `$t(..)` inside plural forms
    for i in range(nk):
        ck = rng.choice([None, None, ("range", None), ("range", "u64"), ("range", "f32"), "plural"])
        arg_target = None
        if i != bad and rng.random() < 0.3:
            # a key that, in some locales, is `$t(target, {args})`; its count type follows the target
            arg_target = rng.choice(["g0", "g0", "g1", "g2"])
            ck = {"g0": None, "g1": ("range", None), "g2": "plural"}[arg_target]
        vals = {}
        n_args = 0
        for j, l in enumerate(locales):
            kind = ck
            if i == bad:
                kind = "free"
            if arg_target and (rng.random() < 0.5 or (j == len(locales) - 1 and n_args == 0)):
                vals[l] = ("fkargs", arg_target, gen_args(rng))
                n_args += 1
            else:
                vals[l] = gen_value(rng, kind, j == 0, targets, fk_in_plural)
        keys["k%d" % i] = vals
    # reference chains of length 2-3 over a plural (pl0) or a range table (g1): the count is renamed / selected / left
    # alone at the first hop, then reached again with no count, unrelated arguments, a literal count or a second rename
    for c in range(rng.choice([0, 1, 2, 3])):
        target = rng.choice(["pl0", "pl0", "g1"])
        h1, h2, h3 = "h1_%d" % c, "h2_%d" % c, "h3_%d" % c
        keys[h1] = {l: gen_hop1(rng, target) for l in locales}
        keys[h2] = {l: gen_hop(rng, h1, j == 0, True) for j, l in enumerate(locales)}
        if rng.random() < 0.5:
            keys[h3] = {l: gen_hop(rng, h2, j == 0, False) for j, l in enumerate(locales)}
    return locales, keys


def gen_hop1(rng, target):
    r = rng.random()
    if r < 0.55:
        return ("ref", target, {"count": ("var", rng.choice(["n", "m"]))}, None)
    if r < 0.7:
        return ("ref", target, {}, None)
    if r < 0.85:
        return ("ref", target, {"count": ("lit", rng.choice([0, 1, 2, 5]))}, None)
    return ("str", gen_pieces(rng))


def gen_hop(rng, target, is_default, allow_count):
    r = rng.random()
    if r < 0.1:
        return ("str", gen_pieces(rng))
    if r < 0.15 and not is_default:
        return ("null",)
    a = rng.random()
    if a < 0.4:
        args = {}
    elif a < 0.65 or not allow_count:
        args = {"unrelated": ("pieces", gen_arg_pieces(rng, rng.choice(["text", "comp_var", "var"])))}
    elif a < 0.82:
        args = {"count": ("lit", rng.choice([0, 1, 2, 5]))}
    else:
        args = {"count": ("var", rng.choice(["m", "q"]))}
    wrap = rng.choice([None, None, None, "comp", "comp", "text"])
    return ("ref", target, args, wrap)


def probe_compiles(ctx, locales, keys, sigs, tag, with_view):
    """cargo check of a positive probe crate restricted to `keys`; returns (ok, first messages)"""
    from checks import isolate
    d = os.path.join(isolate.probe_dir(ctx, tag), "bisect")
    write_project(d, locales, keys, name=isolate.probe_name(ctx, tag + "_bisect"))
    os.makedirs(os.path.join(d, "src"), exist_ok=True)
    with open(os.path.join(d, "Cargo.toml"), "a") as fh:
        fh.write('\n[workspace]\n\n[dependencies]\nleptos = { version = "0.7.7", features = ["ssr"] }\n'
                 'leptos_i18n = { path = "/repo/leptos_i18n", features = ["ssr", "interpolate_display", "json_files", '
                 '"cookie", "plurals", "format_nums"] }\n')
    shutil.copy(os.path.join(core.HARNESS, "Cargo.lock"), os.path.join(d, "Cargo.lock"))
    lines = ["#![allow(dead_code, unused, deprecated)]", "leptos_i18n::load_locales!();", "use i18n::*;",
             "use leptos_i18n::td_string;", "use leptos::prelude::*;", "fn main() {}"]
    for name in sorted(keys):
        sig = sigs[name] if "lit" not in sigs[name] else {"vars": [], "comps": []}
        lines.append("fn p_%s() -> String { td_string!(Locale::en, %s%s).to_string() }" % (name, name, arg_tokens(sig)))
        if with_view:
            lines.append("fn v_%s() -> impl leptos::IntoView { leptos_i18n::td!(Locale::en, %s%s) }" % (name, name, arg_tokens_view(sig)))
    with open(os.path.join(d, "src", "main.rs"), "w") as fh:
        fh.write("\n".join(lines) + "\n")
    rc, out, err = core.sh(["cargo", "check", "--offline", "--message-format=json"], cwd=d, timeout=1500,
                           env={"CARGO_TARGET_DIR": os.path.join(core.CACHE, "target_probe"), "RUSTFLAGS": "--cap-lints warn"})
    msgs = []
    for l in out.splitlines():
        try:
            m = json.loads(l)
        except ValueError:
            continue
        if m.get("reason") == "compiler-message" and m["message"].get("level") == "error":
            msgs.append(((m["message"].get("code") or {}).get("code"), m["message"].get("message")))
    return rc == 0, msgs[:4]


def bisect_probe(ctx, locales, keys, sigs, tag, with_view, first_errors):
    units = key_units(keys)
    culprit = units
    while len(culprit) > 1:
        half = culprit[:len(culprit) // 2]
        sub = {k: keys[k] for u in half for k in u}
        ok, _ = probe_compiles(ctx, locales, sub, sigs, tag, with_view)
        if not ok:
            culprit = half
            continue
        rest = culprit[len(culprit) // 2:]
        sub = {k: keys[k] for u in rest for k in u}
        ok, _ = probe_compiles(ctx, locales, sub, sigs, tag, with_view)
        if ok:
            break                       # only fails in combination: report the whole remaining set
        culprit = rest
    names = sorted(k for u in culprit for k in u)
    # inside the group: drop every key nothing else refers to, as long as the rest still fails
    for k in list(names):
        rest = [x for x in names if x != k]
        if not rest or any(k in key_refs(v) for x in rest for v in keys[x].values()):
            continue
        ok, _ = probe_compiles(ctx, locales, {x: keys[x] for x in rest}, sigs, tag, with_view)
        if not ok:
            names = rest
    ok, msgs = probe_compiles(ctx, locales, {k: keys[k] for k in names}, sigs, tag, with_view)
    return {"keys_that_do_not_compile": names, "rustc": msgs or first_errors,
            "values": {k: {l: keys[k][l] for l in locales} for k in names},
            "required_arguments": {k: sigs[k] for k in names},
            "what": "the module generated by load_locales!() does not compile although every call supplies exactly the required "
                    "arguments (key group found by re-generating the crate with half of the key groups)"}


def gen_closure_project(rng):
    """keys for the clause "supplying exactly the required set compiles": a range table (integer and float types) or a plural
    is embedded through `$t(..)` (count renamed or not) in a value that uses the same variables / components before or after
    the reference; the branches that use them come before or after literal-only branches"""
    locales = ["en", "fr", "ja"]
    V = [[("var", "who", None), ("text", "has nothing")],
         [("comp", "b", [("var", "who", None)])],
         [("comp", "b", [("text", "bold")]), ("var", "who", None)],
         [("text", "for"), ("var", "who", None), ("text", "and"), ("var", "whom", None)]]
    L = [("text", "plenty")]
    C = [("var", "count", None), ("text", "items")]
    keys = {}
    nst = 6
    for i in range(nst):
        kind = ["ranges", "ranges", "ranges", "plural", "ranges", "plural"][i]
        ty = [None, "u8", "f32", None, rng.choice(["u64", "i64", "i16"]), None][i]
        st = "st%d" % i
        keys[st] = {}
        for l in locales:
            if l != "en" and rng.random() < 0.25:
                keys[st][l] = ("str", [("text", "none"), ("var", "who", None)] if rng.random() < 0.5 else [("text", "none")])
                continue
            v1, v2 = rng.choice(V), rng.choice(V)
            order = rng.choice([[v1, L], [L, v1], [v1, v2, L], [v1, L, v2], [L, v1, L], [C, v1, L], [v1, C], [L, L, v1], [v1, L, L]])
            if kind == "ranges":
                keys[st][l] = ("ranges", ty, [list(b) for b in order])
            else:
                forms = {}
                for f, b in zip(["one", "two"], order[:-1]):
                    forms[f] = list(b)
                forms["other"] = list(order[-1])
                keys[st][l] = ("plural", "cardinal", forms)
        for j in range(rng.choice([2, 3])):
            vals = {}
            for l in locales:
                who, b_again = ("var", "who", None), ("comp", "b", [("text", "again"), ("var", "who", None)])
                t = rng.choice([
                    [("fk", st), ("text", "(asked by"), who, ("text", ")")],
                    [who, ("text", ":"), ("fk", st)],
                    [("comp", "b", [("fk", st)]), b_again],
                    [("fkc", st, "n"), ("text", "and"), who],
                    [who, ("fkc", st, "n"), b_again],
                    [("fk", st), ("var", "whom", None), who],
                    [("text", "nothing to say")],
                ])
                vals[l] = ("str", t)
            keys["o%d_%d" % (i, j)] = vals
    return locales, keys


ARG_COMPS = ["z1", "z2"]       # names that occur nowhere else: an argument is their only source
ARG_VARS = ["w1", "w2"]


def gen_arg_pieces(rng, shape):
    txt = ("text", rng.choice(WORDS))
    var = ("var", rng.choice(ARG_VARS), rng.choice([None, "number"]))
    c1, c2 = ARG_COMPS if rng.random() < 0.5 else ARG_COMPS[::-1]
    return {
        "text": [txt],
        "var": [var],
        "comp": [("comp", c1, [txt])],                                   # component only: `<z1>World</z1>`
        "nested": [("comp", c1, [("comp", c2, [txt])])],
        "comp_var": [("comp", c1, [var]), txt],
        "mixed": [txt, var, ("comp", c2, [txt])],
        "fk": [("fk", rng.choice(["t0", "t1"]))],                        # nested `$t(..)` in the argument
        "comp_fk": [("comp", c1, [("fk", "t0")])],
    }[shape]


def gen_args(rng):
    args = {}
    names = ["name"] + (["other"] if rng.random() < 0.4 else []) + (["nobody"] if rng.random() < 0.15 else [])
    for nm in names:
        r = rng.random()
        if r < 0.75:
            args[nm] = ("pieces", gen_arg_pieces(rng, rng.choice(["text", "var", "comp", "comp", "nested", "comp_var", "mixed", "fk",
                                                                   "comp_fk"])))
        else:
            args[nm] = rng.choice([("num", 5), ("num", -3), ("num", 1.5), ("bool", True)])
    return args


def value_json(name, v, out):
    k = v[0]
    if k == "null":
        out[name] = None
    elif k == "lit":
        out[name] = {"String": "plain text", "Bool": True, "Signed": -3, "Unsigned": 5, "Float": 1.5}[v[1]]
    elif k == "str":
        out[name] = pieces_json(v[1])
    elif k == "fk":
        out[name] = "$t(%s)" % v[1]
    elif k == "fkcount":
        out[name] = "$t(pl0, {\"count\": \"{{ %s }}\"})" % v[1]
    elif k == "ref":
        args = {nm: ("{{ %s }}" % a[1] if a[0] == "var" else a[1] if a[0] == "lit" else pieces_json(a[1])) for nm, a in v[2].items()}
        t = "$t(%s%s)" % (v[1], ", " + json.dumps(args) if args else "")
        out[name] = {"comp": "<b>%s</b>" % t, "text": "see %s" % t, None: t}[v[3]]
    elif k == "fkargs":
        out[name] = "$t(%s, %s)" % (v[1], json.dumps({nm: (pieces_json(a[1]) if a[0] == "pieces" else a[1]) for nm, a in v[2].items()}))
    elif k == "plural":
        for f, ps in v[2].items():
            out[name + ("_ordinal" if v[1] == "ordinal" else "") + "_" + f] = pieces_json(ps)
    elif k == "ranges":
        arr = [v[1]] if v[1] else []
        zero = 0.0 if v[1] == "f32" else 0
        for i, b in enumerate(v[2][:-1]):
            arr.append([pieces_json(b), zero + i])
        arr.append([pieces_json(v[2][-1]), "_"])
        out[name] = arr


def write_project(d, locales, keys, name="p"):
    shutil.rmtree(d, ignore_errors=True)
    os.makedirs(os.path.join(d, "locales"))
    with open(os.path.join(d, "Cargo.toml"), "w") as fh:
        fh.write('[package]\nname = "%s"\nversion = "0.1.0"\nedition = "2021"\n\n[package.metadata.leptos-i18n]\n'
                 'default = "%s"\nlocales = [%s]\n' % (name, locales[0], ", ".join('"%s"' % l for l in locales)))
    for l in locales:
        out = {}
        for name, vals in keys.items():
            value_json(name, vals[l], out)
        with open(os.path.join(d, "locales", l + ".json"), "w") as fh:
            json.dump(out, fh, ensure_ascii=False)


# ---------------------------------------------------------------- Coq terms

class Interner:
    def __init__(self):
        self.t = {}

    def __call__(self, s):
        if s not in self.t:
            self.t[s] = len(self.t) + 1
        return self.t[s]


def fmt_id(f):
    return 0 if f in (None, "None") else 1 if str(f).lower().startswith("number") else 2


def pv_pieces(ps, intern, rename=None, locale_vals=None):
    items = []
    for p in ps:
        if p[0] == "text":
            items.append("(PLit LString)")
        elif p[0] == "lit":
            items.append("(PLit %s)" % LIT[p[1]])      # a number / bool argument substituted for a variable
        elif p[0] in ("fk", "fkc"):
            # `$t(target)` / `$t(target, {"count": "{{ n }}"})` inside a longer string
            items.append("(PForeign %s)" % target_pv(locale_vals[p[1]], intern, locale_vals, p[2] if p[0] == "fkc" else None))
        elif p[0] == "var":
            nm = p[1]
            if rename and nm == "count":
                nm = rename
            items.append("(PVar %d %d)" % (intern("var_" + nm), fmt_id(p[2])))
        else:
            items.append("(PComp %d %s)" % (intern("comp_" + p[1]), pv_pieces(p[2], intern, rename, locale_vals)))
    # reduce: adjacent literals are joined, a bloc of one element is that element
    red = []
    for it in items:
        if it.startswith("(PLit ") and red and red[-1].startswith("(PLit "):
            red[-1] = "(PLit LString)"                   # Literal::join always yields a string
            continue
        red.append(it)
    if not red:
        return "(PLit LString)"
    if len(red) == 1:
        return red[0]
    return "(PBloc %s)" % core.coq_list(red)


def target_pv(tv, intern, locale_vals, rename=None):
    """value of a referenced key (interpolation, range table or plural), its count renamed to `rename` if given"""
    ck = intern("var_" + (rename or "count"))
    if tv[0] == "ranges":
        return "(PRanges %d %d %s)" % (range_ty(tv[1]), ck, core.coq_list([pv_pieces(b, intern, rename, locale_vals) for b in tv[2]]))
    if tv[0] == "plural":
        forms = [f for f in ["zero", "one", "two", "few", "many"] if f in tv[2]]
        return "(PPlural %d %s %s)" % (ck, core.coq_list([pv_pieces(tv[2][f], intern, rename, locale_vals) for f in forms]),
                                       pv_pieces(tv[2]["other"], intern, rename, locale_vals))
    if tv[0] == "lit":
        return "(PLit %s)" % LIT[tv[1]]
    return pv_pieces(tv[1], intern, rename, locale_vals)


def range_ty(t):
    return RANGE_TYPES.index((t or "i32").upper())


def pv_value(v, locale_vals, intern):
    k = v[0]
    if k == "null":
        return "PDefault"
    if k == "lit":
        return "(PLit %s)" % LIT[v[1]]
    if k == "str":
        return pv_pieces(v[1], intern, None, locale_vals)
    if k == "fk":
        return "(PForeign %s)" % pv_pieces(locale_vals[v[1]][1], intern)
    if k == "fkargs":
        tv = locale_vals[v[1]]
        args = v[2]

        def subst(ps):
            """ParsedValue::populate: every variable named like an argument is replaced by the argument's value"""
            out = []
            for p in ps:
                if p[0] == "var" and p[1] in args:
                    a = args[p[1]]
                    if a[0] == "pieces":
                        out.extend(a[1])
                    elif a[0] == "bool":
                        out.append(("lit", "Bool"))
                    else:
                        out.append(("lit", "Float" if isinstance(a[1], float) else "Signed" if a[1] < 0 else "Unsigned"))
                elif p[0] == "comp":
                    out.append(("comp", p[1], subst(p[2])))
                else:
                    out.append(p)
            return out
        if tv[0] == "str":
            # `reduce` replaces a resolved foreign key by its value: when every variable was substituted by text or a
            # number the value is a plain literal and takes the literal branch of `merge`
            return pv_pieces(subst(tv[1]), intern, None, locale_vals)
        if tv[0] == "ranges":
            return "(PForeign (PRanges %d %d %s))" % (range_ty(tv[1]), intern("var_count"),
                                                      core.coq_list([pv_pieces(subst(b), intern, None, locale_vals) for b in tv[2]]))
        forms = [f for f in ["zero", "one", "two", "few", "many"] if f in tv[2]]
        return "(PForeign (PPlural %d %s %s))" % (intern("var_count"),
                                                  core.coq_list([pv_pieces(subst(tv[2][f]), intern, None, locale_vals) for f in forms]),
                                                  pv_pieces(subst(tv[2]["other"]), intern, None, locale_vals))
    if k == "fkcount":
        pl = locale_vals["pl0"]
        forms = [f for f in ["zero", "one", "two", "few", "many"] if f in pl[2]]
        return "(PForeign (PPlural %d %s %s))" % (intern("var_" + v[1]),
                                                 core.coq_list([pv_pieces(pl[2][f], intern, v[1]) for f in forms]),
                                                 pv_pieces(pl[2]["other"], intern, v[1]))
    if k == "plural":
        forms = [f for f in ["zero", "one", "two", "few", "many"] if f in v[2]]
        return "(PPlural %d %s %s)" % (intern("var_count"),
                                       core.coq_list([pv_pieces(v[2][f], intern, None, locale_vals) for f in forms]),
                                       pv_pieces(v[2]["other"], intern, None, locale_vals))
    if k == "ranges":
        return "(PRanges %d %d %s)" % (range_ty(v[1]), intern("var_count"), core.coq_list([pv_pieces(b, intern) for b in v[2]]))
    raise ValueError(k)


ICU = {}        # (locale, count) -> cardinal CLDR category, filled by run() from `h_plurals rt` (oracle)


def target_locale(key, loc, keys, dflt):
    """a reference to a key that is an explicit default (`null`) in this locale takes the default locale's value,
    resolved in the default locale (resolve_foreign_key_inner; no `inherits` in the generated projects)"""
    return dflt if keys[key][loc][0] == "null" else loc


def chain_node(key, loc, keys, dflt):
    """the plural / range node a literal count would hit in the resolved value of `key`: ('plural', non-other forms) |
    ('ranges', number of branches) | None"""
    v = keys[key][loc]
    if v[0] == "plural":
        return ("plural", [f for f in ["zero", "one", "two", "few", "many"] if f in v[2]])
    if v[0] == "ranges":
        return ("ranges", len(v[2]))
    if v[0] == "ref":
        if "count" in v[2] and v[2]["count"][0] == "lit":
            return None
        return chain_node(v[1], target_locale(v[1], loc, keys, dflt), keys, dflt)
    return None


def src_term(key, loc, keys, intern, dflt):
    """Coq `src` description of the value of `key` in `loc`: references carry the description of their target"""
    v = keys[key][loc]
    if v[0] != "ref":
        return "(SVal %s)" % pv_value(v, {k: keys[k][loc] for k in keys}, intern)
    args = []
    for nm, a in v[2].items():
        if a[0] == "var":
            t = "(SaVal (SVal (PVar %d 0)))" % intern("var_" + a[1])
        elif a[0] == "lit":
            tl = target_locale(v[1], loc, keys, dflt)
            node = chain_node(v[1], tl, keys, dflt)
            choice = 0
            if node and node[0] == "plural":
                cat = ICU[(tl, a[1])]
                choice = node[1].index(cat) if cat in node[1] else len(node[1])
            elif node:
                choice = min(a[1], node[1] - 1)
            t = "(SaCountLit %d LUnsigned)" % choice
        else:
            t = "(SaVal (SVal %s))" % pv_pieces(a[1], intern, None, {k: keys[k][loc] for k in keys})
        args.append("(%d, %s)" % (intern("var_" + nm), t))
    inner = "(SRef %s %s)" % (src_term(v[1], target_locale(v[1], loc, keys, dflt), keys, intern, dflt), core.coq_list(args))
    if v[3] == "comp":
        return "(SComp %d %s)" % (intern("comp_b"), inner)
    if v[3] == "text":
        return "(SBloc [SVal (PLit LString); %s])" % inner
    return inner


def chain_of(key, loc, keys, dflt=None):
    """the reference chain of a key in a locale, for reports"""
    out = []
    while True:
        v = keys[key][loc]
        out.append({"key": key, "locale": loc, "value": list(v)})
        if v[0] != "ref":
            return out
        key = v[1]
        if dflt and keys[key][loc][0] == "null":
            loc = dflt


def coq_impl(val, intern):
    if "lit" in val:
        return "(KOk (ILit %s))" % LIT[val["lit"]]
    comps = core.coq_list([str(intern(c)) for c in val["comps"]])
    vs = []
    for name, fmts, rc in val["vars"]:
        rcs = "None" if rc is None else "(Some RPlural)" if rc == "Plural" else "(Some (RRange %d))" % RANGE_TYPES.index(rc)
        vs.append("(%d, mk_vi %s %s)" % (intern(name), core.coq_list([str(fmt_id(f)) for f in fmts]), rcs))
    return "(KOk (IInterpol (mk_ik %s %s)))" % (comps, core.coq_list(vs))


def coq_err(e):
    if e["kind"] == "RangeAndPluralsMix":
        return "(KErr EMix)"
    if e["kind"] == "RangeTypeMissmatch":
        return "(KErr (EMismatch %d %d))" % (RANGE_TYPES.index(e["type1"]), RANGE_TYPES.index(e["type2"]))
    if e["kind"] == "SubKeyMissmatch":
        return "(KErr ESubkeys)"
    return None


# ---------------------------------------------------------------- compile probes (thorough tier)

def arg_tokens(sig, omit=None, extra=None):
    args = []
    for name, fmts, rc in sig["vars"]:
        if name == omit:
            continue
        n = name[len("var_"):]
        if rc is not None and rc != "Plural":
            args.append("%s = 1%s" % (n, {"F32": ".0f32", "F64": ".0f64"}.get(rc, rc.lower())))
        elif rc == "Plural" or any(str(f).startswith("Number") for f in fmts):
            args.append("%s = 1u64" % n)
        else:
            args.append('%s = "v"' % n)
    for c in sig["comps"]:
        if c == omit:
            continue
        args.append('<%s> = "span"' % c[len("comp_"):])
    if extra:
        args.append(extra)
    return "".join(", " + a for a in args)


def arg_tokens_view(sig):
    """the same arguments for the view output (`td!`): counts are closures, components are elements"""
    args = []
    for name, fmts, rc in sig["vars"]:
        n = name[len("var_"):]
        if rc is not None and rc != "Plural":
            args.append("%s = move || 1%s" % (n, {"F32": ".0f32", "F64": ".0f64"}.get(rc, rc.lower())))
        elif rc == "Plural":
            args.append("%s = move || 1u64" % n)
        elif any(str(f).startswith("Number") for f in fmts):
            args.append("%s = move || 1u64" % n)
        else:
            args.append('%s = "v"' % n)
    for c in sig["comps"]:
        args.append("<%s> = <span />" % c[len("comp_"):])
    return "".join(", " + a for a in args)


def key_refs(v):
    """keys a value refers to"""
    out = set()

    def walk(x):
        if isinstance(x, (list, tuple)):
            if len(x) >= 2 and x[0] in ("fk", "fkc", "fkargs", "ref") and isinstance(x[1], str):
                out.add(x[1])
            if len(x) >= 1 and x[0] == "fkcount":
                out.add("pl0")
            for y in x:
                walk(y)
        elif isinstance(x, dict):
            for y in x.values():
                walk(y)
    walk(v)
    return out


def key_units(keys):
    """groups of keys connected by references: a project restricted to a union of units is still well formed"""
    parent = {k: k for k in keys}

    def find(k):
        while parent[k] != k:
            parent[k] = parent[parent[k]]
            k = parent[k]
        return k
    for k, vals in keys.items():
        for v in vals.values():
            for r in key_refs(v):
                if r in parent:
                    parent[find(k)] = find(r)
    units = {}
    for k in keys:
        units.setdefault(find(k), []).append(k)
    return list(units.values())


def run_probes(ctx, locales, keys, sigs, tag="probe", with_view=False, negative=True):
    """positive crate: every key with exactly its required arguments must type-check; negative crate: every single omission and
    one unknown argument per key, each in its own function, must each be rejected"""
    res = {"positive_calls": 0, "positive_errors": [], "negative_calls": 0, "negative_accepted": []}
    from checks import isolate
    root = isolate.probe_dir(ctx, tag)
    for flavour in (("pos", "neg") if negative else ("pos",)):
        d = os.path.join(root, flavour)
        # distinct names: both share one target directory (and seed/tier: so do concurrent runs)
        write_project(d, locales, keys, name=isolate.probe_name(ctx, tag + "_" + flavour))
        os.makedirs(os.path.join(d, "src"), exist_ok=True)
        with open(os.path.join(d, "Cargo.toml"), "a") as fh:
            fh.write('\n[workspace]\n\n[dependencies]\nleptos = { version = "0.7.7", features = ["ssr"] }\n'
                     'leptos_i18n = { path = "/repo/leptos_i18n", features = ["ssr", "interpolate_display", "json_files", '
                     '"cookie", "plurals", "format_nums"] }\n')
        shutil.copy(os.path.join(core.HARNESS, "Cargo.lock"), os.path.join(d, "Cargo.lock"))
        lines = ["#![allow(dead_code, unused, deprecated)]", "leptos_i18n::load_locales!();", "use i18n::*;",
                 "use leptos_i18n::td_string;", "use leptos::prelude::*;", "fn main() {}"]
        expect = {}
        for name, sig in sorted(sigs.items()):
            if "lit" in sig:
                sig = {"vars": [], "comps": []}
            if flavour == "pos":
                lines.append("fn p_%s() -> String { td_string!(Locale::en, %s%s).to_string() }" % (name, name, arg_tokens(sig)))
                expect[len(lines)] = (name, "all required arguments")
                if with_view:
                    lines.append("fn v_%s() -> impl leptos::IntoView { leptos_i18n::td!(Locale::en, %s%s) }"
                                 % (name, name, arg_tokens_view(sig)))
                    expect[len(lines)] = (name, "all required arguments, view output")
            else:
                for om in [v[0] for v in sig["vars"]] + list(sig["comps"]):
                    lines.append("fn n_%s_%s() -> String { td_string!(Locale::en, %s%s).to_string() }"
                                 % (name, om, name, arg_tokens(sig, omit=om)))
                    expect[len(lines)] = (name, "omitted " + om)
                lines.append("fn u_%s() -> String { td_string!(Locale::en, %s%s).to_string() }"
                             % (name, name, arg_tokens(sig, extra='zz_unknown = "v"')))
                expect[len(lines)] = (name, "unknown argument zz_unknown")
        if flavour == "neg":
            lines.append("fn u_key() -> String { td_string!(Locale::en, zz_no_such_key).to_string() }")
            expect[len(lines)] = ("zz_no_such_key", "unknown key")
        with open(os.path.join(d, "src", "main.rs"), "w") as fh:
            fh.write("\n".join(lines) + "\n")
        rc, out, err = core.sh(["cargo", "check", "--offline", "--message-format=json", "--keep-going"], cwd=d, timeout=1500,
                               env={"CARGO_TARGET_DIR": os.path.join(core.CACHE, "target_probe"), "RUSTFLAGS": "--cap-lints warn"})
        err_lines = set()
        err_msgs = {}
        other_errors = []
        for l in out.splitlines():
            try:
                m = json.loads(l)
            except ValueError:
                continue
            if m.get("reason") != "compiler-message" or m["message"].get("level") != "error":
                continue
            hit = False
            for s in m["message"].get("spans", []):
                # the primary span may lie inside leptos_i18n's macro_rules: follow the expansion chain to the call line
                e = s
                while e:
                    if e.get("file_name", "").endswith("main.rs") and e["line_start"] > 6:
                        err_lines.add(e["line_start"])
                        err_msgs.setdefault(e["line_start"], ((m["message"].get("code") or {}).get("code"),
                                                              m["message"].get("message")))
                        hit = True
                    e = (e.get("expansion") or {}).get("span")
            if not hit:
                other_errors.append(m["message"].get("message"))
        if flavour == "pos":
            res["positive_calls"] = len(expect)
            res["positive_errors"] = [{"line": ln, "call": lines[ln - 1], "what": expect[ln], "rustc": err_msgs.get(ln)}
                                      for ln in sorted(err_lines) if ln in expect]
            if rc != 0 and not res["positive_errors"]:
                # the generated module itself does not compile (the errors lie inside load_locales!()): find the keys by
                # re-generating the crate with half of the key groups
                res["positive_errors"].append(bisect_probe(ctx, locales, keys, sigs, tag, with_view,
                                                           (other_errors or [err[-600:]])[:3]))
        else:
            res["negative_calls"] = len(expect)
            res["negative_accepted"] = [{"line": ln, "call": lines[ln - 1], "what": w} for ln, w in sorted(expect.items())
                                        if ln not in err_lines]
            if rc == 0:
                res["negative_accepted"].append({"cargo_check_succeeded": True})
    return res


# ---------------------------------------------------------------- run

def run(ctx):
    from checks import isolate
    isolate.enter(ctx)
    bindir = core.cargo_build("h_plurals")
    ok, problems = core.coq_audit(ctx, PROPS, THEOREMS)
    exe = os.path.join(bindir, "h_plurals")
    rng = ctx.rng
    rc, out, err = core.sh([exe, "rt"], timeout=600)
    if rc != 0:
        raise core.Infra("h_plurals rt failed: " + err[-300:])
    ns_line = next(l for l in out.split("\n") if l.startswith("N "))
    ints = [int(x) for x in ns_line[2:].split(",")]
    for l in out.split("\n"):
        if l.startswith("T ") and l.split(" ")[2] == "c":
            _, loc, _, body = l.split(" ", 3)
            tbl = body.split("|")[0].split(",")
            for n_, c_ in zip(ints[:31], tbl[:31]):
                ICU[(loc, n_)] = c_
    n = 60 if ctx.quick else 1500
    projects = []
    # corpus first: the documented conflicts
    corpus = [
        (["en", "fr"], {"k0": {"en": ("ranges", None, [[("text", "a")], [("text", "b")]]),
                               "fr": ("ranges", "u64", [[("text", "a")], [("text", "b")]])}}),
        (["en", "fr"], {"k0": {"en": ("ranges", None, [[("text", "a")], [("text", "b")]]),
                               "fr": ("plural", "cardinal", {"one": [("text", "a")], "other": [("text", "b")]})}}),
        (["en", "fr", "ja"], {"k0": {"en": ("lit", "String"), "fr": ("str", [("var", "a", None)]),
                                     "ja": ("str", [("comp", "b", [("var", "count", "number")])])}}),
        (["en", "fr", "ja"], {"k0": {"en": ("lit", "String"), "fr": ("lit", "Bool"), "ja": ("null",)}}),
        # a component that only exists in a foreign-key argument, in one locale
        (["en", "fr", "de"], {"greet": {l: ("str", [("text", "Hello"), ("var", "name", None)]) for l in ["en", "fr", "de"]},
                              "welcome": {"en": ("fkargs", "greet", {"name": ("pieces", [("comp", "b", [("text", "World")])])}),
                                          "fr": ("str", [("text", "Bienvenue")]),
                                          "de": ("str", [("comp", "i", [("var", "who", None)])])}}),
        # `$t(..)` inside plural forms (also a lone `_other`, merged by the second pass)
        (["en", "ja"], {"t0": {"en": ("str", [("text", "hello"), ("var", "name", None)]), "ja": ("str", [("var", "name", None)])},
                        "k0": {"en": ("plural", "cardinal", {"one": [("fk", "t0"), ("text", "item")], "other": [("var", "count", None)]}),
                               "ja": ("plural", "cardinal", {"other": [("fk", "t0"), ("var", "count", None)]})}}),
    ]
    projects.extend(corpus)
    closure_start = len(projects)
    for i in range(1 if ctx.quick else 3):
        projects.append(gen_closure_project(rng))
    closure_end = len(projects)
    for i in range(n):
        projects.append(gen_project(rng, conflict=rng.random() < 0.3))
    root = os.path.join(ctx.work, "proj_%d" % os.getpid())
    shutil.rmtree(root, ignore_errors=True)
    dirs = []
    for i, (locales, keys) in enumerate(projects):
        d = os.path.join(root, "p%d" % i)
        write_project(d, locales, keys)
        dirs.append(d)
    rc, out, err = core.sh([exe, "parse"], input="".join(d + "\n" for d in dirs), timeout=900)
    lines = out.splitlines()
    if rc != 0 or len(lines) != len(dirs):
        raise core.Infra("h_plurals parse: %d lines for %d projects; %s" % (len(lines), len(dirs), err[-400:]))
    items, meta, shape, panics, unattributed = [], [], [], [], []
    citems, cmeta = [], []
    intern = Interner()
    outcomes = {"ok": 0, "RangeAndPluralsMix": 0, "RangeTypeMissmatch": 0, "other_err": 0, "PANIC": 0}
    probe_candidate = None
    closure_candidates = []
    for pi, ((locales, keys), line) in enumerate(zip(projects, lines)):
        obj = json.loads(line)
        pipe = obj.get("pipeline")
        if pipe is None:
            shape.append({"project": pi, "load": obj})
            continue
        if pipe == "PANIC":
            outcomes["PANIC"] += 1
            panics.append({"project": pi, "locales": locales, "keys": {k: {l: v for l, v in vals.items()} for k, vals in keys.items()}})
            continue
        impl_by_key, err_key, err_term = {}, None, None
        if "ok" in pipe:
            outcomes["ok"] += 1
            for name, v in pipe["ok"]["keys"]:
                if "value" in v:
                    impl_by_key[name] = v["value"]
            if set(impl_by_key) != set(keys):
                shape.append({"project": pi, "keys_generated": sorted(keys), "keys_parsed": sorted(impl_by_key),
                              "warnings": obj.get("warnings")})
                continue
            if closure_start <= pi < closure_end:
                closure_candidates.append((locales, keys, impl_by_key))
            elif probe_candidate is None and len(locales) >= 3 and len(keys) >= 9:
                probe_candidate = (locales, keys, impl_by_key)
        else:
            e = pipe["err"]
            outcomes[e["kind"] if e["kind"] in outcomes else "other_err"] += 1
            err_term = coq_err(e)
            err_key = e.get("path", [None])[0] if e.get("path") else None
            if err_term is None or err_key not in keys:
                unattributed.append({"project": pi, "error": e})
                continue
        for name, vals in keys.items():
            by_loc = {l: {k: keys[k][l] for k in keys} for l in locales}
            is_chain = any(vals[l][0] == "ref" for l in locales)
            cid = intern("var_count")
            pvs = [("(resolve %d %s)" % (cid, src_term(name, l, keys, intern, locales[0]))) if vals[l][0] == "ref"
                   else pv_value(vals[l], by_loc[l], intern) for l in locales]
            if is_chain and "ok" in pipe:
                # the count keys of the final value of every locale (h_plurals' final-value dump)
                for l, pvt in zip(locales, pvs):
                    fin = next((x for x in pipe["ok"]["final"] if x["name"] == l), None)
                    cnt = dict((k, c) for k, c in fin["counts"]).get(name, []) if fin else []
                    citems.append("(%s, %s)" % (pvt, core.coq_list([
                        "(%d, %s)" % (intern(ck), "RPlural" if kind == "Plural" else "(RRange %d)" % RANGE_TYPES.index(kind))
                        for ck, kind in cnt])))
                    cmeta.append({"project": pi, "key": name, "locale": l, "locales": locales,
                                  "chain": chain_of(name, l, keys, locales[0]), "final_value_count_keys": cnt})
            if "ok" in pipe:
                impl = "(Some %s)" % coq_impl(impl_by_key[name], intern)
            elif name == err_key:
                impl = "(Some %s)" % err_term
            else:
                impl = "None"
            items.append("(mk_case %s %s %s)" % (pvs[0], core.coq_list(pvs[1:]), impl))
            meta.append({"project": pi, "key": name, "locales": locales, "values": {l: vals[l] for l in locales},
                         "impl": impl_by_key.get(name) if "ok" in pipe else (pipe["err"] if name == err_key else None)})
    codes = core.coq_eval(ctx, "c08_%d" % os.getpid(), PRE, items, "check")
    ccodes = core.coq_eval(ctx, "c08c_%d" % os.getpid(), PRE, citems, "check_counts") if citems else []
    bad_counts = [m for m, c in zip(cmeta, ccodes) if c != 0]
    bad_spec = [m for m, c in zip(meta, codes) if c == 3]
    disagree = [m for m, c in zip(meta, codes) if c == 2]
    skipped = sum(1 for c in codes if c == 1)
    probes = None
    if not ctx.quick and probe_candidate is not None:
        probes = run_probes(ctx, *probe_candidate)
    # every tier: the projects built for "exactly the required set compiles" (string and view outputs)
    for ci, cand in enumerate(closure_candidates):
        cp = run_probes(ctx, *cand, tag="closure%d" % ci, with_view=True, negative=(ci == 0 and not ctx.quick))
        if probes is None:
            probes = cp
        else:
            for k2 in ("positive_calls", "negative_calls"):
                probes[k2] += cp[k2]
            probes["positive_errors"] += cp["positive_errors"]
            probes["negative_accepted"] += cp["negative_accepted"]
    if closure_end - closure_start != len(closure_candidates):
        unattributed.append({"closure_project_did_not_load": closure_end - closure_start - len(closure_candidates)})
    if bad_counts:
        bad_counts.sort(key=lambda m: len(json.dumps(m["chain"])))
        core.violation(ctx, "chain_count_key", {
            "failing_input": bad_counts[0], "more": bad_counts[1:3], "count": len(bad_counts),
            "explanation": "the Ranges / Plurals nodes of the final value of this key do not switch on the count variable the "
                           "reference chain leaves them with (kept without a `count` argument, renamed by a variable, gone after a "
                           "literal): check_counts (Coq) on h_plurals' final-value dump"})
    if bad_spec:
        bad_spec.sort(key=lambda m: len(json.dumps(m["values"])))
        bad_spec[0]["explanation"] = ("spec_C08 (Coq, Parser/Keys.v) is false on the InterpolOrLit the real parser computed: the "
                                      "required variables/components/count type are not the union over the locales")
        core.violation(ctx, "spec", {"failing_input": bad_spec[0], "more": bad_spec[1:4], "count": len(bad_spec)})
    elif probes and (probes["positive_errors"] or probes["negative_accepted"]):
        core.violation(ctx, "compile_probe", {"failing_input": (probes["positive_errors"] or probes["negative_accepted"])[0],
                                              "positive_errors": probes["positive_errors"][:5],
                                              "negative_accepted": probes["negative_accepted"][:5],
                                              "explanation": "a call with exactly the required arguments was rejected, or a call "
                                                             "omitting one / naming an unknown argument or key was accepted"})
    elif panics:
        panics.sort(key=lambda m: len(json.dumps(m["keys"])))
        core.violation(ctx, "panic", {"failing_input": panics[0], "count": len(panics),
                                      "explanation": "the parse pipeline panicked on a generated project (a `$t(..)` inside a plural form "
                                                     "panics at resolve_foreign_keys_1 before fixes/C09-foreign-key-in-plural-form.diff)"})
    elif disagree or shape or unattributed or not ok:
        core.violation(ctx, "correspondence", {
            "broken": ("theorem/audit: " + "; ".join(problems)) if not ok else
                      "correspondence Parser/Keys.v (key_signature) vs get_keys/merge of leptos_i18n_parser",
            "first_disagreeing_input": (disagree or shape or unattributed or [None])[0], "disagreements": len(disagree),
            "shape_problems": len(shape), "unattributed_errors": unattributed[:3]}, no_input=True)
    hist = {}
    nontrivial = set()
    for m, it in zip(meta, items):
        kinds = sorted({v[0] for v in m["values"].values()})
        key = "+".join(kinds)
        hist[key] = hist.get(key, 0) + 1
        if len(kinds) >= 2:
            nontrivial.add(it)
    core.write_evidence(ctx, {
        "evaluations": len(items), "distinct_nontrivial": len(nontrivial),
        "rule": "random projects (2-8 locales, 9-19 keys); per key and locale a random kind among literal (5 types), interpolated "
                "string (variables with/without formatter, nested components), range table (i32/u64/f32/i64), plural group, "
                "foreign key to an interpolated key, foreign key to a plural renaming its count, foreign key with arguments "
                "(text / variable / component / nested components / nested $t / numbers / bools, the components and variables of "
                "the arguments occur nowhere else) to an interpolation, a range table or a plural, null; one key of 30% of the "
                "projects mixes count types freely (conflicts); corpus first; non-trivial = kinds differ between locales, "
                "distinct by Coq case term",
        "samples": [dict(m, code=c) for m, c in list(zip(meta, codes))[:2] + list(zip(meta, codes))[40:43]],
        "projects": len(projects), "project_outcomes": outcomes,
        "traces_validated_against_impl": sum(1 for m in meta if m["impl"] is not None),
        "unobserved_keys_of_failed_projects": sum(1 for m in meta if m["impl"] is None),
        "disagreements": len(disagree), "spec_failures_on_impl": len(bad_spec), "skipped_outside_domain": skipped,
        "chain_final_values_checked": len(citems), "chain_count_key_failures": len(bad_counts),
        "shape_problems": shape[:3], "compile_probes": probes if probes is not None else "none",
        "input_distribution": hist, "audit_problems": problems,
    }, assumptions=[
        "values are modelled after foreign-key substitution and reduce; the generator computes that form itself",
        "the rejection of calls with missing/unknown arguments is rustc + typed-builder behaviour: observed by cargo check on "
        "generated probe crates (thorough tier), not proved",
        "key names and formatters are interned; formatter identity beyond None/Number is not exercised"])
    shutil.rmtree(root, ignore_errors=True)


def _retuple(v):
    """JSON lists back to the generator's tuples"""
    if isinstance(v, list):
        return tuple(_retuple(x) for x in v)
    if isinstance(v, dict):
        return {k: _retuple(x) for k, x in v.items()}
    return v


def _pieces(v):
    return [tuple([p[0], p[1]] + ([_pieces(p[2])] if p[0] == "comp" else list(p[2:]))) for p in v]   # text / var / comp / fk


def _value(v):
    v = list(v)
    if v[0] == "str":
        return ("str", _pieces(v[1]))
    if v[0] == "plural":
        return ("plural", v[1], {f: _pieces(ps) for f, ps in v[2].items()})
    if v[0] == "ranges":
        return ("ranges", v[1], [_pieces(b) for b in v[2]])
    return tuple(v)


def replay(ctx, path):
    from checks import isolate
    isolate.enter(ctx)
    """re-runs the stored key on the implementation (harness) and on the model (coqc) and prints both with the verdict"""
    obj = json.load(open(path))
    fi = obj.get("failing_input") or {}
    print(json.dumps({k: v for k, v in obj.items() if k != "more"}, indent=1)[:6000])
    if "keys_that_do_not_compile" in fi:                      # compile probe: the generated module does not build
        exe = os.path.join(core.cargo_build("h_plurals"), "h_plurals")
        locales = list(next(iter(fi["values"].values())).keys())
        keys = {k: {l: _value(v) for l, v in vals.items()} for k, vals in fi["values"].items()}
        d = os.path.join(ctx.work, "replay_%d" % os.getpid())
        write_project(d, locales, keys)
        rc, out, err = core.sh([exe, "parse"], input=d + "\n", timeout=120)
        pipe = json.loads(out.splitlines()[0])["pipeline"]
        if not isinstance(pipe, dict) or "ok" not in pipe:
            print("IMPLEMENTATION parse pipeline:", json.dumps(pipe)[:800])
            return 1
        sigs = {n: v["value"] for n, v in pipe["ok"]["keys"] if "value" in v}
        print("required arguments (parse_locales):", json.dumps(sigs))
        ok_, msgs = probe_compiles(ctx, locales, keys, sigs, "replay", True)
        print("IMPLEMENTATION cargo check of the crate calling every key with exactly these arguments (td_string! and td!):",
              "compiles" if ok_ else "does NOT compile: %s" % json.dumps(msgs))
        print("VERDICT", "holds now" if ok_ else "still violated")
        return 0 if ok_ else 1
    if "keys" in fi and "locales" in fi:                      # a whole project (pipeline panic)
        exe = os.path.join(core.cargo_build("h_plurals"), "h_plurals")
        keys = {k: {l: _value(v) for l, v in vals.items()} for k, vals in fi["keys"].items()}
        d = os.path.join(ctx.work, "replay_%d" % os.getpid())
        write_project(d, fi["locales"], keys)
        rc, out, err = core.sh([exe, "parse"], input=d + "\n", timeout=120)
        pipe = json.loads(out.splitlines()[0])["pipeline"]
        print("IMPLEMENTATION parse pipeline:", json.dumps(pipe)[:1500])
        print("VERDICT", "still panics" if pipe == "PANIC" else "no panic now")
        return 1 if pipe == "PANIC" else 0
    if "values" not in fi:
        return 0
    exe = os.path.join(core.cargo_build("h_plurals"), "h_plurals")
    locales = fi["locales"]
    vals = {l: _value(fi["values"][l]) for l in locales}
    if any(v[0] in ("fk", "fkcount", "fkargs", "ref") for v in vals.values()):
        print("the stored value refers to other keys of its project (foreign key); re-run ./check C08 --seed %d instead" % ctx.seed)
        return 0
    keys = {"k0": vals}
    d = os.path.join(ctx.work, "replay_%d" % os.getpid())
    write_project(d, locales, keys)
    rc, out, err = core.sh([exe, "parse"], input=d + "\n", timeout=120)
    o = json.loads(out.splitlines()[0])
    pipe = o["pipeline"]
    print("IMPLEMENTATION:", json.dumps(pipe))
    intern = Interner()
    by_loc = {l: {"k0": vals[l]} for l in locales}
    pvs = [pv_value(vals[l], by_loc[l], intern) for l in locales]
    if isinstance(pipe, dict) and "ok" in pipe:
        impl = "(Some %s)" % coq_impl(pipe["ok"]["keys"][0][1]["value"], intern)
    elif isinstance(pipe, dict) and coq_err(pipe["err"]):
        impl = "(Some %s)" % coq_err(pipe["err"])
    else:
        impl = "None"
    print("interned names:", intern.t)
    print("MODEL key_signature:", core.coq_show(ctx, PRE, "key_signature %s %s" % (pvs[0], core.coq_list(pvs[1:]))))
    code = core.coq_eval(ctx, "replay_%d" % os.getpid(), PRE, ["(mk_case %s %s %s)" % (pvs[0], core.coq_list(pvs[1:]), impl)], "check", min_per_shard=1)[0]
    print("VERDICT code %d (0 agree+spec, 1 outside domain, 2 differs from model, 3 spec_C08 false on the implementation's output)" % code)
    return 1 if code in (2, 3) else 0
