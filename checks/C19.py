"""C19 — configuration is validated and normalised as documented.
Theorems: coq/theories/Props/C19.v over the model Parser/Cfg.v.
Correspondence: harness h_merge (mode cfg; builds json / yaml / json5) runs parse_locales_raw on generated
Cargo.toml files and directory layouts and prints Ok/Err kind, the ConfigFile fields and the tracked files;
Parser/CfgCheck.v evaluates spec_C19 on that output."""
import json
import os
import re
import shutil

from checks import cov_cfg
from checks import merge_common as mc
from checks import pairwise
from vlib import core

THEOREMS = ["C19_normal_form", "C19_fields", "C19_reject_iff", "C19_paths", "C19_not_found", "C19_spec", "C19_section_text", "C19_prefix_irrelevant",
            "C19_crlf_prefix", "C19_mention_old_refuted", "C19_old_refuted"]
PROPS = "theories/Props/C19.v"
REGISTRY = {
    "level": "proof",
    "technique": "Coq proof over a Gallina model of CfgFileVisitor::visit_map / ConfigFile::new / find_file + differential "
                 "correspondence (coqc vm_compute vs leptos_i18n_parser::parse_locales_raw on generated manifests and layouts)",
    "text": "Theorems C19_normal_form/C19_reject_iff/C19_paths/C19_spec (Props/C19.v) over Parser/Cfg.v: an accepted "
            "configuration has the default first, no duplicates and keeps every listed locale; a configuration is rejected "
            "iff a required field is missing, a locale or namespace is duplicated, `inherits` names an unknown locale (the "
            "default counts as known) or makes the default inherit; the tracked files are dir/locales-dir/locale[/ns].ext "
            "with the first existing extension of the format. Tied to /repo by running parse_locales_raw on generated "
            "Cargo.toml files (surrounding manifest content, unknown fields, field order, padded names) and layouts for the "
            "json, yaml and json5 builds and evaluating spec_C19 on the real output.",
    "design_ref": "DESIGN.md §5 C19",
    "note": "Partial by design: the toml crate, the textual section split and type errors are exercised, not modelled; names "
            "containing '.' or '/' and absolute locales-dir are outside the model (counted as skipped). Trusted: Coq kernel + "
            "vm_compute, hand-written model Parser/Cfg.v, Python generator, Rust harness h_merge. No axioms.",
    "engine": "coq",
    "packages": [("h_merge", ("json",), "target_merge_json"), ("h_merge", ("yaml",), "target_merge_yaml"),
                 ("h_merge", ("json5",), "target_merge_json5")],
}
PRE = ("From Coq Require Import List NArith Bool.\nImport ListNotations.\n"
       "From LI Require Import Base.StrOps Parser.Cfg Parser.CfgCheck.\nOpen Scope N_scope.\n")
FMT = {"json": (0, ["json"]), "yaml": (1, ["yaml", "yml"]), "json5": (2, ["json5"])}
LOCS = ["en", "fr", "de", "it", "fr-CA", "pt-BR"]
NSS = ["common", "home", "admin", "a_b"]
BEFORE = ["", '[dependencies]\nleptos = "0.7"\nserde = { version = "1", features = ["derive"] }\n',
          '[features]\ndefault = ["hydrate"]\nhydrate = []\n',
          '[package.metadata.other]\ndefault = "zz"\nlocales = ["zz", "zz"]\n',
          '# default = "xx"\n[lib]\ncrate-type = ["cdylib", "rlib"]\n']
AFTER = ["", '\n[dependencies]\nleptos = "0.7"\n', '\n[features]\ndefault = ["ssr"]\nssr = []\n',
         '\n[package.metadata.leptos]\noutput-name = "x"\nlocales = "no"\n', '\n[profile.release]\nopt-level = "z"\n',
         '\n[[bin]]\nname = "x"\npath = "src/main.rs"\n']
UNKNOWN = ['fallback = "en"', 'verbose = true', 'extra = { a = 1, default = "zz" }', 'locales_dir = "nope"', 'Default = "zz"']


def pad(rng, s):
    c = rng.random()
    if c < 0.06:
        return " " + s
    if c < 0.12:
        return s + " "
    if c < 0.14:
        return "\t" + s + " "
    return s


def gen_cfg(rng, force=None):
    n = rng.choice([1, 2, 2, 3, 3, 4])
    names = rng.sample(LOCS, n)
    default = names[0]
    listed = list(names)
    rng.shuffle(listed)
    c = rng.random()
    if c < 0.3:
        listed.remove(default)                      # the default need not be listed
    elif c < 0.4 and listed:
        listed.insert(rng.randrange(len(listed) + 1), rng.choice(listed))     # a duplicate
    elif c < 0.45:
        listed.append(default)
    listed = [pad(rng, x) for x in listed]
    nss = None
    if rng.random() < 0.4:
        nss = rng.sample(NSS, rng.choice([1, 2, 3]))
        if rng.random() < 0.15:
            nss.append(rng.choice(nss))
        nss = [pad(rng, x) for x in nss]
    inh = None
    if rng.random() < 0.55:
        inh = []
        pool = names + (["xx"] if rng.random() < 0.2 else [])
        for k in rng.sample(pool, min(len(pool), rng.choice([1, 1, 2, 3]))):
            if k == default and rng.random() < 0.7:
                continue
            inh.append((k, rng.choice(pool)))
    cfg = {"default": pad(rng, default), "locales": listed, "namespaces": nss,
           "locales_dir": rng.choice([None, None, "locales", "i18n", "./loc", "a/b", "loc/", "l.d"]),
           "uri": rng.choice([None, None, None, "i18n/{locale}.json", "/t/{namespace}/{locale}"]),
           "inherits": inh, "missing": None, "malformed": None,
           "before": rng.choice(BEFORE), "after": rng.choice(AFTER),
           "unknown": rng.sample(UNKNOWN, rng.choice([0, 0, 1, 2])), "order": rng.random(),
           "inherits_as_table": rng.random() < 0.08}
    c = rng.random()
    if c < 0.05:
        cfg["missing"] = "default"
    elif c < 0.10:
        cfg["missing"] = "locales"
    elif c < 0.17:
        cfg["malformed"] = rng.choice(["type_locales", "type_default", "no_section", "syntax", "type_inherits", "dup_key"])
    cfg["text"] = gen_text(rng)
    if cfg["text"]["head"] not in ("std", "many"):
        cfg["before"] = ""
    if force:
        cfg.update(force)
    return cfg


def tstr(s):
    return json.dumps(s, ensure_ascii=False)


def render(cfg):
    fields = []
    if cfg["missing"] != "default":
        fields.append("default = 1" if cfg["malformed"] == "type_default" else "default = %s" % tstr(cfg["default"]))
    if cfg["missing"] != "locales":
        fields.append('locales = "en"' if cfg["malformed"] == "type_locales" else
                      "locales = [%s]" % ", ".join(tstr(x) for x in cfg["locales"]))
    if cfg["namespaces"] is not None:
        fields.append("namespaces = [%s]" % ", ".join(tstr(x) for x in cfg["namespaces"]))
    if cfg["locales_dir"] is not None:
        fields.append("locales-dir = %s" % tstr(cfg["locales_dir"]))
    if cfg["uri"] is not None:
        fields.append("translations-path = %s" % tstr(cfg["uri"]))
    table = ""
    if cfg["malformed"] == "type_inherits":
        fields.append('inherits = ["fr"]')
    elif cfg["inherits"] is not None:
        if cfg["inherits_as_table"]:
            table = "\n[package.metadata.leptos-i18n.inherits]\n" + "".join("%s = %s\n" % (tstr(k), tstr(v)) for k, v in cfg["inherits"])
        else:
            fields.append("inherits = { %s }" % ", ".join("%s = %s" % (tstr(k), tstr(v)) for k, v in cfg["inherits"]))
    fields += cfg["unknown"]
    if cfg["malformed"] == "dup_key":
        fields.append('default = "en"')
    # deterministic pseudo-shuffle of the field order
    k = int(cfg["order"] * 1000)
    fields = sorted(fields, key=lambda f: hash_str(f, k))
    if cfg["malformed"] == "syntax":
        fields.insert(len(fields) // 2, "this is = = not toml")
    tx = dict(TEXT_DEFAULT, **(cfg.get("text") or {}))
    pkg = '[package]\nname = "probe"\nversion = "0.1.0"\nedition = "2021"\n'
    head = {"none": "", "one": "# manifest of the probe\n", "two": '[package]\nname = "probe"\n',
            "std": pkg + "\n" + cfg["before"] + "\n",
            "many": pkg + "".join("# line %d of a long preamble\n" % i for i in range(45)) + "\n" + cfg["before"] + "\n"}[tx["head"]]
    if tx["eol"] == "lone_cr" and head:
        head += "# a comment with a lone carriage\rreturn in it\n"
    if tx["mention"] == "comment":
        head += "# the translations are configured in [package.metadata.leptos-i18n] below\n"
    elif tx["mention"] == "comment_end":
        head += "# the translations are configured in [package.metadata.leptos-i18n]\n"
    elif tx["mention"] == "string":
        head = head.replace('[package]\n', '[package]\ndescription = "see [package.metadata.leptos-i18n]"\n', 1)
    name = "[package.metadata.leptos_i18n]" if cfg["malformed"] == "no_section" else "[package.metadata.leptos-i18n]"
    hdr = ("  " if tx["indent"] else "") + name + {"none": "", "spaces": "   ", "tab": "\t", "comment": " # i18n"}[tx["trail"]]
    text = head + hdr + "\n" + "\n".join(fields) + "\n" + ("" if cfg["malformed"] == "no_section" else table) + cfg["after"]
    if tx["eol"] == "crlf":
        text = text.replace("\n", "\r\n")
    elif tx["eol"] == "mixed":
        parts = text.split("\n")
        text = "".join(ln + ("\r\n" if i % 2 == 0 else "\n") for i, ln in enumerate(parts[:-1])) + parts[-1]
    if not tx["final_nl"]:
        text = text.rstrip("\r\n")
    if tx["bom"]:
        text = "\ufeff" + text
    return text


TEXT_DEFAULT = {"eol": "lf", "head": "std", "final_nl": True, "bom": False, "trail": "none", "indent": False, "mention": "none"}


def gen_text(rng):
    """the textual variations around the section (they do not change the table it denotes)"""
    def pick(pairs):
        r, acc = rng.random(), 0.0
        for v, w in pairs:
            acc += w
            if r < acc:
                return v
        return pairs[-1][0]
    tx = {"eol": pick([("lf", .55), ("crlf", .25), ("mixed", .12), ("lone_cr", .08)]),
          "head": pick([("std", .5), ("none", .1), ("one", .1), ("two", .15), ("many", .15)]),
          "final_nl": rng.random() >= 0.15, "bom": rng.random() < 0.1,
          "trail": pick([("none", .55), ("spaces", .15), ("tab", .15), ("comment", .15)]),
          "indent": rng.random() < 0.1,
          "mention": pick([("none", .82), ("comment", .06), ("comment_end", .06), ("string", .06)])}
    if tx["eol"] == "lone_cr" and tx["head"] == "none":
        tx["eol"] = "lf"
    # a mention is a line (or a string of the [package] table) before the header
    if tx["mention"] != "none" and (tx["head"] == "none" or (tx["mention"] == "string" and tx["head"] == "one")):
        tx["mention"] = "none"
    return tx


def hash_str(s, k):
    import hashlib
    return hashlib.sha256((str(k) + s).encode()).hexdigest()


def layout(rng, cfg, fmt):
    """relative paths of the files to create; mostly complete, sometimes one missing / alternative extension"""
    exts = FMT[fmt][1]
    d = cfg["locales_dir"] if cfg["locales_dir"] is not None else "locales"
    locs = []
    for x in [cfg["default"]] + cfg["locales"]:
        x = x.strip()
        if x not in locs:
            locs.append(x)
    for k, v in (cfg["inherits"] or []):
        for x in (k, v):
            if x.strip() not in locs and rng.random() < 0.5:
                locs.append(x.strip())
    files = []
    stems = []
    if cfg["namespaces"] is None:
        stems = [os.path.join(d, l) for l in locs]
    else:
        seen = []
        for ns in cfg["namespaces"]:
            if ns.strip() not in seen:
                seen.append(ns.strip())
        stems = [os.path.join(d, l, ns) for ns in seen for l in locs]
    drop = rng.randrange(len(stems)) if stems and rng.random() < 0.12 else None
    for i, s in enumerate(stems):
        if i == drop:
            if rng.random() < 0.5:
                files.append(s + ".txt")     # only a file with a foreign extension
            continue
        c = rng.random()
        if len(exts) > 1 and c < 0.3:
            files.append(s + "." + exts[1])
        elif len(exts) > 1 and c < 0.45:
            files += [s + "." + e for e in exts]
        else:
            files.append(s + "." + exts[0])
    return files


def write_case(root, cfg, files):
    if os.path.exists(root):
        shutil.rmtree(root)
    os.makedirs(root)
    with open(os.path.join(root, "Cargo.toml"), "w", newline="", encoding="utf-8") as fh:
        fh.write(render(cfg))
    out = []
    for f in files:
        p = os.path.normpath(os.path.join(root, f))
        os.makedirs(os.path.dirname(p), exist_ok=True)
        with open(p, "w") as fh:
            fh.write("{}\n")
        out.append(os.path.join(root, f))    # the path as the parser builds it (not normalised)
    return out


def materialise(cfg, files, d):
    """an absolute locales-dir is generated as a placeholder below the case directory"""
    if cfg["locales_dir"] is None or not cfg["locales_dir"].startswith(cov_cfg.ABS):
        return cfg, files
    cfg = dict(cfg, locales_dir=cfg["locales_dir"].replace(cov_cfg.ABS, d))
    return cfg, [f.replace(cov_cfg.ABS, d) for f in files]


def S(s):
    return core.coq_str(s)


def coq_raw(cfg):
    def ol(x):
        return "None" if x is None else "(Some %s)" % core.coq_list([S(y) for y in x])

    def os_(x):
        return "None" if x is None else "(Some %s)" % S(x)
    inh = "None" if cfg["inherits"] is None else "(Some %s)" % core.coq_list(["(%s, %s)" % (S(k), S(v)) for k, v in cfg["inherits"]])
    return "(mk_raw %s %s %s %s %s %s)" % (
        os_(None if cfg["missing"] == "default" else cfg["default"]),
        ol(None if cfg["missing"] == "locales" else cfg["locales"]),
        ol(cfg["namespaces"]), os_(cfg["locales_dir"]), os_(cfg["uri"]), inh)


def coq_impl(line, malformed):
    """total: an answer that cannot be read is POther (no spec accepts it)"""
    try:
        return coq_impl_inner(line, malformed)
    except (ValueError, IndexError, KeyError, TypeError) as e:
        return "POther", "unreadable:" + repr(e)[:60]


def coq_impl_inner(line, malformed):
    u = mc.unesc
    if line == "PANIC":
        return "POther", "panic"
    if line == "HANG":
        return "POther", "hang"
    p = line.split("|")
    if p[0] == "OK":
        nss = "None" if p[3] == "-" else "(Some %s)" % core.coq_list([S(u(x)) for x in p[3][1:-1].split("&") if x != ""])
        uri = "None" if p[5] == "-" else "(Some %s)" % S(u(p[5][1:-1]))
        ext = core.coq_list(["(%s, %s)" % tuple(S(u(y)) for y in x.split(">")) for x in p[6].split("&") if x])
        cfg = "(mk_config %s %s %s %s %s %s)" % (S(u(p[1])), core.coq_list([S(u(x)) for x in p[2].split("&")]), nss,
                                               S(u(p[4])), uri, ext)
        return "(POk %s %s)" % (cfg, core.coq_list([S(u(x)) for x in p[7].split("&") if x])), "ok"
    kind, detail = p[1], u(p[2])
    if kind in ("ConfigFileDeser", "ConfigNotPresent"):
        if malformed:
            return "PDeser", "deser"
        m = re.match(r'unknown locale "(.*)"$', detail)
        if m:
            return "(PErr (EUnknownLocale %s))" % S(m.group(1)), "unknown_locale"
        if detail.startswith("default locale can't inherit"):
            return "(PErr EDefaultInherits)", "default_inherits"
        m = re.match(r"missing field `(default|locales)`", detail)
        if m:
            return "(PErr (EMissingField %d))" % (0 if m.group(1) == "default" else 1), "missing_field"
        return "PDeser", "deser:" + detail[:60]
    if kind == "DuplicateLocalesInConfig":
        return "(PErr (EDupLocales %s))" % core.coq_list([S(u(x)) for x in p[2].split("+")]), "dup_locales"
    if kind == "DuplicateNamespacesInConfig":
        return "(PErr (EDupNamespaces %s))" % core.coq_list([S(u(x)) for x in p[2].split("+")]), "dup_namespaces"
    if kind == "LocaleFileNotFound":
        return "(PErr (ENotFound %s))" % core.coq_list([S(u(x)) for x in p[2].split("&")]), "not_found"
    return "POther", "other:" + kind


def corpus():
    base = {"namespaces": None, "locales_dir": None, "uri": None, "missing": None, "malformed": None, "before": "", "after": "",
            "unknown": [], "order": 0.5, "inherits_as_table": False}
    out = []
    # DESIGN §9: inherits from the default while the default is not listed
    out.append(dict(base, default="en", locales=["it"], inherits=[("it", "en")]))
    out.append(dict(base, default="en", locales=["fr", "it"], inherits=[("it", "fr"), ("fr", "en")]))
    out.append(dict(base, default="en", locales=["en", "it"], inherits=[("it", "en")]))
    out.append(dict(base, default="en", locales=["it"], inherits=[("en", "it")]))      # default inherits, unlisted
    out.append(dict(base, default="en", locales=["it", "en", "fr"], inherits=None))
    out.append(dict(base, default="en", locales=["it", "fr", "de"], inherits=None))
    out.append(dict(base, default="en", locales=["en", "it", " en"], inherits=None))
    out.append(dict(base, default="en", locales=["en", "it"], inherits=[("it", "xx")]))
    out.append(dict(base, default="en", locales=["en", "it"], inherits=None, namespaces=["common", "home", "common"]))
    return out


def run(ctx):
    from checks import isolate
    isolate.enter(ctx)
    exes = {f: mc.build_variant(ctx, [f]) for f in ("json", "yaml", "json5")}
    ok, problems = core.coq_audit(ctx, PROPS, THEOREMS)
    rng = ctx.rng
    n = 700 if ctx.quick else 8000
    cases = [{"kind": "corpus", "fmt": "json", "cfg": c} for c in corpus()]
    for i in range(n):
        fmt = "json" if i % 2 == 0 else rng.choice(["yaml", "json5"])
        cases.append({"kind": "random", "fmt": fmt, "cfg": gen_cfg(rng)})
    # the header string mentioned before the section (comment / string of [package]) on otherwise plain manifests
    for mention in ("comment", "comment_end", "string"):
        for base in corpus()[4:6]:
            cases.append({"kind": "corpus", "fmt": "json", "cfg": dict(base, text=dict(TEXT_DEFAULT, mention=mention))})
    for c in cases:
        c["files"] = layout(rng, c["cfg"], c["fmt"])
    # pairwise coverage of the quantifier's dimensions; directed cases fill the empty feasible cells
    table = pairwise.Table(cov_cfg.DIMS, cov_cfg.infeasible)
    pairwise.add_all(table, [o for c in cases for o in cov_cfg.tags(c["cfg"], c["fmt"], c["files"])])
    gaps_before = ["%s=%s x %s=%s" % g for g in table.gaps()]
    directed = pairwise.greedy(table, rng, cov_cfg.draw, lambda sc: cov_cfg.build(rng, sc),
                               lambda c: cov_cfg.tags(c["cfg"], c["fmt"], c["files"]), max_tries=20000, max_keep=600)
    cases += [dict(c, kind="directed") for c in directed]
    pw = table.report()
    pw["zero_cells_before_directed_cases"] = gaps_before[:120]
    pw["zero_cells_before_directed_cases_count"] = len(gaps_before)
    pw["directed_cases"] = len(directed)
    root = os.path.join(ctx.work, "cfg")
    by_fmt = {}
    metas = []
    for i, c in enumerate(cases):
        d = os.path.join(root, "c%d" % i)
        cfg, rel = materialise(c["cfg"], c["files"], d)
        files = write_case(d, cfg, rel)
        m = {"kind": c["kind"], "fmt": c["fmt"], "cfg": cfg, "dir": d, "existing": files, "cargo_toml": render(cfg)}
        metas.append(m)
        by_fmt.setdefault(c["fmt"], []).append(m)
    for fmt, ms in by_fmt.items():
        lines = mc.run_harness(exes[fmt], [m["dir"] for m in ms], mode="cfg")
        for m, line in zip(ms, lines):
            m["line"] = line
    not_run = sum(1 for m in metas if m["line"] == "NOTRUN")
    metas = [m for m in metas if m["line"] != "NOTRUN"]
    items = []
    for m in metas:
        impl, tag = coq_impl(m["line"], m["cfg"]["malformed"] is not None)
        m["tag"] = tag
        items.append("(mk_case %d %s %s %s %s %s)" % (
            FMT[m["fmt"]][0], S(m["dir"]), core.coq_list([S(x) for x in m["existing"]]), coq_raw(m["cfg"]),
            "true" if m["cfg"]["malformed"] else "false", impl))
    codes = core.coq_eval(ctx, "c19", PRE, items, "check")
    shutil.rmtree(root, ignore_errors=True)
    # `inherits` spelled as the sub-table [package.metadata.leptos-i18n.inherits] is a separate class (see is_subtable)
    bad = [m for m, c in zip(metas, codes) if c == 3 and not is_subtable(m)]
    dis = [m for m, c in zip(metas, codes) if c == 2 and not is_subtable(m)]
    sub_bad = [m for m, c in zip(metas, codes) if c in (2, 3) and is_subtable(m)]
    skipped = [m for m, c in zip(metas, codes) if c == 1]
    known = [f for f in core.load_known("C19") if f.get("status") == "known"]

    def describe(m, n, more):
        return {"failing_input": {"cargo_toml": m["cargo_toml"], "format": m["fmt"],
                                  "files": [os.path.relpath(x, m["dir"]) for x in m["existing"]], "cfg": m["cfg"]},
                "impl_output": m["line"].replace(m["dir"], "<dir>"), "count": n,
                "more": [{"cargo_toml": x["cargo_toml"], "impl_output": x["line"].replace(x["dir"], "<dir>")} for x in more[1:4]],
                "explanation": "spec_C19 (Parser/CfgCheck.v) is false on the implementation's answer: a configuration the "
                               "documentation accepts was rejected (or vice versa), or the normalised ConfigFile / tracked "
                               "files are not the documented ones"}
    if bad:
        bad.sort(key=lambda m: (len(m["cargo_toml"]), len(m["existing"])))
        core.violation(ctx, "spec", describe(bad[0], len(bad), bad))
    elif dis or not ok:
        d0 = (dis or [None])[0]
        core.violation(ctx, "correspondence", {
            "broken": ("theorem/audit: " + "; ".join(problems)) if not ok else
                      "correspondence Parser/Cfg.v (load) vs leptos_i18n_parser::parse_locales_raw",
            "first_disagreeing_input": d0 and {"cargo_toml": d0["cargo_toml"], "format": d0["fmt"], "impl_output": d0["line"]},
            "disagreements": len(dis)}, no_input=True)
    if sub_bad:
        sub_bad.sort(key=lambda m: (len(m["cargo_toml"]), len(m["existing"])))
        hit = [f for f in known if f.get("id") == "C19-inherits-subtable"]
        if hit:
            core.known_finding(ctx, hit[0], hit[0].get("line", "C19-inherits-subtable"))
        else:
            obj = describe(sub_bad[0], len(sub_bad), sub_bad)
            obj["explanation"] = ("`inherits` written as the TOML sub-table [package.metadata.leptos-i18n.inherits] is silently "
                                  "dropped: ConfigFile::new cuts Cargo.toml textually at the section header, so the sub-table "
                                  "header is read as an unknown top-level table `package`; the inheritance (and its validation) "
                                  "is lost without any error")
            core.violation(ctx, "spec_subtable", obj)
    hist = {}
    for m in metas:
        key = "%s,%s,%s" % (m["kind"], m["fmt"], m["tag"].split(":")[0])
        hist[key] = hist.get(key, 0) + 1
    distinct = set()
    for m in metas:
        c = m["cfg"]
        if m["tag"] != "ok" or len(c["locales"]) >= 2:
            distinct.add((m["fmt"], c["default"], tuple(c["locales"]), tuple(c["namespaces"] or ()), tuple(c["inherits"] or ()),
                          c["locales_dir"], c["missing"], c["malformed"], m["tag"]))
    core.write_evidence(ctx, {
        "evaluations": len(metas), "distinct_nontrivial": len(distinct),
        "rule": "corpus (inherits from an unlisted default, default inherits, duplicates after trimming, unknown inherits value, "
                "duplicate namespaces) first; then random configurations: 1-4 locales in random order with the default "
                "listed / not listed / listed twice, padded names, 0-3 namespaces (+duplicates), inherits (inline or as a "
                "sub-table, unknown names, default as key), locales-dir / translations-path, unknown fields, shuffled field "
                "order, manifest content before/after the section, missing required field, malformed TOML / field types; "
                "layouts with one file missing or alternative extensions; builds json, yaml, json5. Non-trivial = rejected or "
                ">=2 listed locales; distinct by configuration and outcome",
        "directed_rule": "Then directed cases: every feasible pair of values of the quantifier's dimensions (evidence field `pairwise`) left empty by the above is filled by a case built for it (checks/cov_cfg.py); a value counts only when the configuration is not rejected before it is examined.",
        "samples": [{"cargo_toml": m["cargo_toml"], "format": m["fmt"], "impl": m["line"].replace(m["dir"], "<dir>")[:400]}
                    for m in metas[:2] + metas[-3:]],
        "traces_validated_against_impl": len(metas), "disagreements": len(dis), "spec_failures_on_impl": len(bad),
        "skipped_outside_model": len(skipped), "hangs": sum(1 for m in metas if m["tag"] == "hang"),
        "not_run_after_hangs": not_run, "inherits_subtable_cases_diverging": len(sub_bad),
        "inherits_subtable_cases": sum(1 for m in metas if is_subtable(m)),
        "input_distribution": hist, "audit_problems": problems, "pairwise": pw,
    }, assumptions=[
        "the toml crate and the textual section split are exercised through generated manifests, not modelled",
        "names contain no '.' or '/' (else the case is counted as skipped)"])


def is_subtable(m):
    """the configuration spells a non-empty `inherits` as a sub-table of the section (valid TOML for the same table)"""
    c = m["cfg"]
    return bool(c["inherits_as_table"] and c["inherits"] and c["malformed"] != "type_inherits")


def replay(ctx, path):
    from checks import isolate
    isolate.enter(ctx)
    obj = json.load(open(path))
    fi = obj.get("failing_input") or {}
    cfg = fi.get("cfg")
    if not cfg:
        print(json.dumps(obj, indent=1))
        return 0
    fmt = fi.get("format", "json")
    exe = mc.build_variant(ctx, [fmt])
    d = os.path.join(ctx.work, "cfg_replay")
    cfg["inherits"] = [tuple(x) for x in cfg["inherits"]] if cfg.get("inherits") is not None else None
    files = write_case(d, cfg, fi.get("files", []))
    line = mc.run_harness(exe, [d], mode="cfg")[0]
    impl, tag = coq_impl(line, cfg["malformed"] is not None)
    item = "(mk_case %d %s %s %s %s %s)" % (FMT[fmt][0], S(d), core.coq_list([S(x) for x in files]), coq_raw(cfg),
                                            "true" if cfg["malformed"] else "false", impl)
    code = core.coq_eval(ctx, "c19r", PRE, [item], "check")[0]
    print(render(cfg))
    print("files:", fi.get("files"))
    print("implementation:", line.replace(d, "<dir>"))
    print("check =", code, "(3 = spec violated, 2 = differs from model, 1 = outside model, 0 = ok)")
    shutil.rmtree(d, ignore_errors=True)
    if code == 3:
        print("VIOLATION property=C19 replay=%s" % path)
        return 1
    return 0
