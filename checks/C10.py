"""C10 — results depend only on translation content, not on key order, run or file format.
Theorems: coq/theories/Props/C10.v over the model Parser/Order.v (object members folded into the sorted key map; key order,
string tables and Missing/Surplus diagnostics are functions of the sorted maps).
Correspondence: harness h_order (three builds: json / yaml / json5) loads the same abstract project serialised in the three
formats and in several random key orders (permutation at every nesting level), every run in a fresh process, and prints a
canonical dump of BuildersKeys + warnings + final values + string tables, plus the token stream of the in-process code
generator. Dumps must be identical across orders and runs; across formats keys, diagnostics, values (numeric literal types
normalised) and string tables must be identical. The Coq predicate is evaluated on (order A, order B, both dumps)."""
import json
import os
import re
import shutil

from vlib import core

THEOREMS = ["C10_order", "C10_tree_order", "C10_observables", "C10_strings_order", "C10_deterministic", "C10_spec", "C10_old_refuted"]
PROPS = "theories/Props/C10.v"
REGISTRY = {
    "level": "proof",
    "technique": "Coq proof (fold of BTreeMap inserts is invariant under permutation of members with distinct keys, lifted through "
                 "nested subkeys; observables are functions of the sorted maps) + differential runs of the real parser and code "
                 "generator across key orders, file formats and fresh processes",
    "text": "C10_order/C10_tree_order: permuting the members of any object at any depth (distinct keys) yields the same sorted key "
            "tree; C10_observables/C10_strings_order: key listing, string tables and Missing/Surplus diagnostics are computed from "
            "the sorted trees only. Tie: the same generated project in JSON/JSON5/YAML, k key orders each, fresh processes: canonical "
            "dumps and generated token streams compared, Coq predicate evaluated on the dumps.",
    "design_ref": "DESIGN.md §5 C10",
    "note": "Trusted: Coq kernel + vm_compute; model Parser/Order.v; serde_json/serde_yaml/json5 front-ends are external (their "
            "agreement is observed, not proved); literal pieces of a value are read back from the implementation (value parsing is "
            "C01's domain). Numeric literal types are excluded across formats (DESIGN §10).",
    "engine": "coq",
    "packages": [("h_order", ("json",), "target_order_json"), ("h_order", ("yaml",), "target_order_yaml"),
                 ("h_order", ("json5",), "target_order_json5")],
}
PRE = ("From Coq Require Import List NArith Bool.\nImport ListNotations.\n"
       "From LI Require Import Base.StrOps.\nFrom LI Require Import Parser.Order.\nFrom LI Require Import Parser.OrderCheck.\n"
       "Open Scope N_scope.\n")
FORMATS = ["json", "yaml", "json5"]
EXT = {"json": "json", "yaml": "yaml", "json5": "json5"}

# ------------------------------------------------------------------ abstract projects

LOCALES = ["en", "fr", "de", "pt-BR", "ja"]
NAMESPACES = ["common", "home"]
KEYS = ["a", "b", "c", "d", "e", "g", "k_x", "sub", "title", "zz", "m1", "n_2", "B", "Z9", "yes", "null", "x", "inner", "deep",
        # names with the same Rust identifier (`-` becomes `_`) or differing by case: distinct keys, never two of them in one object
        "user-name", "user_name", "n-2", "a-b", "a_b", "User_name", "pt_BR"]


def ident_of(k):
    return k.strip().replace("-", "_")


def one_per_identifier(keys):
    """two members of ONE object with the same identifier are a (legitimate) code-generation clash: keep the first"""
    seen, out = set(), []
    for k in keys:
        if ident_of(k) not in seen:
            seen.add(ident_of(k))
            out.append(k)
    return out
WORDS = ["hello", "world", "Été", "日本語", "a: b", "# not a comment", "it's", 'say "hi"', "back\\slash", "  padded  ", "123", "true",
         "null", "~", "x😀y", "tab\there", "line\nbreak", "-", "[not a list]", "{curly}", "%", "&amp;", "é"]
VARS = ["name", "count", "n", "who", "user_name", "user-name"]
COMPS = ["b", "i", "em"]


# whitespace the grammar tolerates inside tags and interpolations (Rust `trim`: any Unicode White_Space)
WS = ["", "", "", " ", " ", "  ", "\t", "\u00a0", "\u3000"]
# strings that look like another type or like YAML/JSON5 syntax when they are written without quotes
LOOKALIKES = ["yes", "no", "on", "off", "y", "n", "012", "0x10", "0o17", "+1", "1e2", ".5", "5.", "1_000", "true", "True", "false", "null",
              "Null", "~", "NaN", ".inf", "Infinity", "-", "- a", "? a", "a: b", "a #b", "#a", "[a]", "{a}", "a, b", "'a'", "\"a\"", "|", ">",
              "!tag", "&a", "*a", "%a", "@a", "`a`", "", " ", "\t", "a\nb", "a\n\nb", "a\n  b", "trailing \n", "\\n", "\\u0041", "\u00e9\n"]


def w(rng):
    return rng.choice(WS)


def gen_var(rng, name):
    """an interpolation with the whitespace variants the grammar allows: `{{x}}`, `{{  x , number }}`, NBSP / U+3000 padding"""
    fmt = ""
    if rng.random() < 0.25:
        fmt = w(rng) + "," + w(rng) + rng.choice(["number", "number(grouping_strategy: never)", "date", "list(list_type: or)"]) + w(rng)
    return "{{" + w(rng) + name + w(rng) + fmt + "}}"


def gen_comp(rng, name, inner):
    """a component: `< b >`, `< /b>`, `</ b >`, `<b\\t>` ... and near-misses that are plain text or another component"""
    op = "<" + w(rng) + name + w(rng) + ">"
    cl = "<" + w(rng) + "/" + w(rng) + name + w(rng) + ">"
    r = rng.random()
    if r < 0.80:
        return op + inner + cl
    if r < 0.85:
        return op + inner + "</" + rng.choice(["c", name + "x", ""]) + ">"        # closing tag of something else
    if r < 0.90:
        return op + inner + op                                                     # never closed
    if r < 0.95:
        return "<" + name + "/>" + inner                                           # self closing spelling
    return inner + cl                                                              # closing tag alone


def gen_text(rng, with_count=False):
    r0 = rng.random()
    if r0 < 0.08:
        return rng.choice(LOOKALIKES)
    if r0 < 0.18:
        # the value is ONLY a component, spelled with a whitespace variant
        c = rng.choice(COMPS)
        return gen_comp(rng, c, rng.choice(WORDS[:8] + ["", gen_var(rng, "count" if with_count else rng.choice(VARS))]))
    parts = []
    for _ in range(rng.randint(1, 3)):
        r = rng.random()
        if r < 0.45:
            parts.append(rng.choice(WORDS))
        elif r < 0.5:
            parts.append(rng.choice(LOOKALIKES))
        elif r < 0.75:
            parts.append(gen_var(rng, "count" if with_count else rng.choice(VARS)))
        else:
            c = rng.choice(COMPS)
            inner = rng.choice(WORDS[:8]) if rng.random() < 0.8 else gen_comp(rng, rng.choice(COMPS), rng.choice(WORDS[:4]))
            parts.append(gen_comp(rng, c, inner))
    return rng.choice([" ", " ", "", "\n"]).join(parts)


INT_BOUNDS = {"i8": (-2 ** 7, 2 ** 7 - 1), "i16": (-2 ** 15, 2 ** 15 - 1), "i32": (-2 ** 31, 2 ** 31 - 1), "i64": (-2 ** 63, 2 ** 63 - 1),
              "u8": (0, 2 ** 8 - 1), "u16": (0, 2 ** 16 - 1), "u32": (0, 2 ** 32 - 1), "u64": (0, 2 ** 64 - 1), None: (-2 ** 31, 2 ** 31 - 1)}
# numeric counts every front-end must be able to hand over: json5 reads every integer as i64, so counts above i64::MAX (only
# possible for u64) are rejected by the json5 crate itself ("error parsing integer") on the unchanged tree and are left out
BOUNDARY_DROPPED = {"u64": {"values": [2 ** 64 - 2, 2 ** 64 - 1], "replaced_by": [2 ** 63 - 2, 2 ** 63 - 1],
                            "why": "the json5 crate parses every integer as i64: values above i64::MAX are a json5 syntax error, not a range error"}}


def boundary_values(typ):
    lo, hi = INT_BOUNDS[typ]
    vals = [lo, lo + 1, -1, 0, 1, hi - 1, hi]
    if typ == "u64":
        vals = [lo, lo + 1, 0, 1, 2 ** 63 - 2, 2 ** 63 - 1]
    return sorted(set(v for v in vals if lo <= v <= hi))


def boundary_range(rng):
    """an integer range whose numeric (unquoted) counts sit on the boundaries of its type: MIN, MIN+1, -1, 0, 1, MAX-1, MAX, as exact
    counts, as several counts of one branch, and next to a range string"""
    typ = rng.choice(list(INT_BOUNDS))
    vals = boundary_values(typ)
    seq = [typ] if typ else []
    picks = rng.sample(vals, min(len(vals), rng.randint(2, 3)))
    hi = INT_BOUNDS[typ][1] if typ != "u64" else 2 ** 63 - 1
    if rng.random() < 0.7 and hi not in picks:
        picks[-1] = hi
    for i, v in enumerate(picks):
        if i == 0 and len(picks) > 2 and rng.random() < 0.5:
            seq.append([gen_text(rng), v, picks[1]])            # several numeric counts in one branch
        elif rng.random() < 0.25:
            seq.append([gen_text(rng), v, "%d..=%d" % (min(vals), min(vals) + 1)])
        else:
            seq.append([gen_text(rng), v])
    seq.append([gen_text(rng, True)])
    return seq


def gen_leaf(rng):
    r = rng.random()
    if r < 0.62:
        return ("str", gen_text(rng))
    if r < 0.70:
        return ("int", rng.choice([0, 1, 5, 16, 42, -3, -17, 1000000, 255]))
    if r < 0.75:
        return ("float", rng.choice([59.89, -0.5, 0.5, 2.25, 1e3, 100.0, 5.0, 1.5e-7, 6.02e23]))
    if r < 0.80:
        return ("bool", rng.random() < 0.5)
    # ranges: a sequence (its own order is content, never permuted)
    if rng.random() < 0.4:
        return ("seq", boundary_range(rng))
    typ = rng.choice([None, None, "u32", "i64", "f32"])
    seq = [typ] if typ else []
    if typ == "f32":
        seq += [[gen_text(rng), "0.0"], [gen_text(rng), "..0.0"], [gen_text(rng, True)]]
    elif typ == "u32":
        seq += [[gen_text(rng), 0], [gen_text(rng), "1..5", 7], [gen_text(rng, True), "_"]]
    else:
        seq += [[gen_text(rng), 0], [gen_text(rng), 1], [gen_text(rng, True), "_"]]
    return ("seq", seq)


def gen_tree(rng, depth=0, nkeys=None, plurals=True):
    n = nkeys if nkeys is not None else rng.randint(2, 7 if depth == 0 else 4)
    keys = one_per_identifier(rng.sample(KEYS, min(n, len(KEYS))))
    out = []
    for k in keys:
        r = rng.random()
        if depth < 2 and r < 0.22:
            out.append((k, ("obj", gen_tree(rng, depth + 1, None, plurals))))
        elif plurals and r < 0.30 and not k.endswith("x"):
            # a plural group: cardinal or ordinal forms under one base key
            forms = rng.sample(["one", "two", "few", "many", "zero"], rng.randint(1, 2)) + ["other"]
            mid = "_ordinal" if rng.random() < 0.3 else ""
            for f in forms:
                out.append(("%s%s_%s" % (k, mid, f), ("str", gen_text(rng, True))))
        else:
            out.append((k, gen_leaf(rng)))
    return out


def derive_tree(rng, dflt, depth=0):
    """another locale: same shape with other texts, some keys absent, null, or surplus"""
    out = []
    for k, v in dflt:
        r = rng.random()
        if r < 0.12:
            continue
        if r < 0.22 and not PLURAL_KEY.search(k):      # (a null plural form makes the code generator panic: C09's domain)
            out.append((k, ("null",)))
        elif v[0] == "obj":
            out.append((k, ("obj", derive_tree(rng, v[1], depth + 1))))
        elif v[0] == "str":
            out.append((k, ("str", gen_text(rng, "count" in v[1]))))
        elif v[0] == "seq":
            out.append((k, v))
        else:
            nv = gen_leaf(rng)
            out.append((k, v if rng.random() < 0.6 or nv[0] == "seq" else nv))
    if rng.random() < 0.3:
        have = {k for k, _ in out} | {k for k, _ in dflt}
        extra = [k for k in KEYS if k not in have]
        if extra:
            k = rng.choice(extra)
            out.append((k, gen_leaf(rng) if rng.random() < 0.7 else ("obj", gen_tree(rng, 2, 2))))
    return out


PLURAL_KEY = re.compile(r"_(zero|one|two|few|many|other)$")
FAULTS = ["null_in_default", "shape_mismatch", "two_fallbacks", "unknown_formatter", "nested_ranges", "bad_key",
          "fk_cycle2", "fk_cycle3", "fk_self_next_to_chain", "fk_missing_twice", "fk_subkeys_twice", "fk_cycle2", "fk_missing_twice"]


def fk_fault_members(f, ref):
    """ONE logical fault that involves several keys; ref(name) spells the foreign-key path of a sibling"""
    t = lambda n, pre="": ("str", "%s$t(%s)" % (pre, ref(n)))        # noqa: E731
    if f == "fk_cycle2":
        return [("fka", t("fkb")), ("fkb", t("fka", "x "))]
    if f == "fk_cycle3":
        return [("fka", t("fkb")), ("fkb", t("fkc")), ("fkc", t("fka", "<b>y</b> "))]
    if f == "fk_self_next_to_chain":
        return [("fks", t("fks")), ("fk1", t("fk2")), ("fk2", t("fk3")), ("fk3", ("str", "end")), ("fk0", t("fk1"))]
    if f == "fk_missing_twice":
        return [("fkm1", t("fknope")), ("fkm2", t("fknope", "again ")), ("fkm0", ("str", "{{ v }} " + "$t(%s)" % ref("fknope")))]
    return [("fkg", ("obj", [("x", ("str", "inside"))])), ("fkr1", t("fkg")), ("fkr2", t("fkg", "again ")), ("fkr0", t("fkg"))]


def inject_fault(rng, proj):
    f = rng.choice(FAULTS)
    unit = rng.choice(proj["units"])
    proj["fault"] = f
    if f == "null_in_default":
        t = unit["trees"][0]
        i = rng.randrange(len(t))
        t[i] = (t[i][0], ("null",))
    elif f == "shape_mismatch" and len(unit["trees"]) > 1:
        t0, t1 = unit["trees"][0], unit["trees"][1]
        k, v = rng.choice(t0)
        t1[:] = [(kk, vv) for kk, vv in t1 if kk != k]
        t1.append((k, ("obj", gen_tree(rng, 2, 2)) if v[0] != "obj" else ("str", "flat")))
    elif f == "two_fallbacks":
        t = rng.choice(unit["trees"])
        t.append(("fb", ("seq", [["a", 0], ["b", "_"], ["c", "_"]])))
    elif f == "unknown_formatter":
        t = rng.choice(unit["trees"])
        t.append(("uf", ("str", "x {{ v, nosuchformatter }} y")))
    elif f == "nested_ranges":
        t = rng.choice(unit["trees"])
        t.append(("nr", ("seq", [[[["x", 0], ["y"]], 0], ["z"]])))
    elif f == "bad_key":
        t = rng.choice(unit["trees"])
        t.append(("1 bad key", ("str", "v")))
    elif f.startswith("fk_"):
        # top level or inside a subkey group; in one locale or (the same fault) in every locale
        nested = rng.random() < 0.4
        ns = (unit["ns"] + ":") if unit["ns"] else ""
        grp = "fkgrp"
        ref = (lambda n: "%s%s.%s" % (ns, grp, n)) if nested else (lambda n: ns + n)
        members = fk_fault_members(f, ref)
        where = list(range(len(unit["trees"]))) if rng.random() < 0.4 else [rng.randrange(len(unit["trees"]))]
        for li in where:
            t = unit["trees"][li]
            if nested:
                t.append((grp, ("obj", list(members))))
            else:
                t.extend(members)


def gen_project(rng):
    nloc = rng.choice([1, 2, 2, 3, 4])
    locales = rng.sample(LOCALES, nloc)
    use_ns = rng.random() < 0.3
    plurals = rng.random() < 0.3
    units = []
    for ns in (rng.sample(NAMESPACES, rng.randint(1, 2)) if use_ns else [None]):
        d = gen_tree(rng, 0, None, plurals)
        units.append({"ns": ns, "trees": [d] + [derive_tree(rng, d) for _ in locales[1:]]})
    for u in units:
        if rng.random() < 0.3:
            # the same identifier spelled `user-name` in one object and `user_name` in another (also as a variable name)
            a, b = rng.choice([("user-name", "user_name"), ("a-b", "a_b"), ("n-2", "n_2")])
            g1 = [(a, ("str", "first {{ %s }}" % rng.choice([b, "x"]))), ("user0", ("str", "u0")), ("zz", ("int", 1))]
            g2 = [(b, ("str", "second")), ("aa", ("str", "{{ %s }} and <b>%s</b>" % (a, b)))]
            for li, t in enumerate(u["trees"]):
                if li == 0 or rng.random() < 0.8:
                    t.append(("profile", ("obj", [kv for kv in g1 if li == 0 or rng.random() < 0.7])))
                    t.append(("settings", ("obj", [kv for kv in g2 if li == 0 or rng.random() < 0.7])))
    for u in units:
        if rng.random() < 0.3:
            pre = (u["ns"] + ":") if u["ns"] else ""
            for t in u["trees"]:
                t.append(("fkt", ("str", "T {{ name }} and {{ n }} {{ who }}")))
                t.append(("fku", ("fkargs", pre + "fkt", [("name", "A"), ("n", "{{ n }} x"), ("who", "<b>w</b>")], rng.choice(["", "see "]), rng.choice(["", " end"]))))
    proj = {"locales": locales, "units": units, "fault": None}
    if rng.random() < 0.25:
        inject_fault(rng, proj)
    return proj


# ------------------------------------------------------------------ key orders

def permute(rng, tree):
    """a random permutation of the members at every nesting level"""
    t = [(k, ("obj", permute(rng, v[1])) if v[0] == "obj" else v) for k, v in tree]
    rng.shuffle(t)
    return t


def sort_tree(tree, reverse=False):
    t = [(k, ("obj", sort_tree(v[1], reverse)) if v[0] == "obj" else v) for k, v in tree]
    t.sort(key=lambda kv: kv[0].encode(), reverse=reverse)
    return t


# ------------------------------------------------------------------ serialisers

IDENT = re.compile(r"^[A-Za-z_][A-Za-z0-9_]*$")
YAML_SPECIAL = {"yes", "no", "null", "true", "false", "on", "off", "y", "n", "~"}
YAML_PLAIN = re.compile(r"^[A-Za-z<][^\x00-\x1f\x7f#:]*[^\s\x00-\x1f\x7f#:]$")
YAML_NOT_STRING = re.compile(r"^(true|false|null|nan|inf|infinity)$", re.I)
PRINTABLE = re.compile(r"^[^\x00-\x08\x0b-\x1f\x7f\x85\u2028\u2029\ufeff]*$")


SPELLINGS = {}


def spelled(fmt, how):
    k = "%s:%s" % (fmt, how)
    SPELLINGS[k] = SPELLINGS.get(k, 0) + 1


def jstr(s, ascii_only=False):
    return json.dumps(s, ensure_ascii=ascii_only)


def json_string(s, rng):
    """serde_json: always handed over through visit_str (reader input: nothing is borrowed); escapes vary"""
    if rng.random() < 0.3 and all(ord(c) < 0x10000 for c in s):
        spelled("json", "string \\u escapes")
        return jstr(s, True)              # \uXXXX escapes
    if rng.random() < 0.15:
        spelled("json", "string escaped solidus")
        return jstr(s).replace("/", "\\/")   # the optional solidus escape
    spelled("json", "string with escapes" if "\\" in jstr(s) else "string plain")
    return jstr(s)


def json5_string(s, rng):
    """json5: visit_string (owned); double or single quotes, JS escapes"""
    body = jstr(s)[1:-1]
    if rng.random() < 0.45:
        spelled("json5", "string single-quoted")
        return "'" + body.replace('\\"', '"').replace("'", "\\'") + "'"
    spelled("json5", "string double-quoted")
    return '"' + body + '"'


def yaml_string(s, rng, flow=False, ind=0):
    """serde_yaml: visit_str; plain, single-quoted, double-quoted, literal block and folded block scalars where each is exact"""
    opts = ["dq"]
    if PRINTABLE.match(s) and "\n" not in s and "\r" not in s and "\t" not in s:
        opts.append("sq")
        if (YAML_PLAIN.match(s) and not YAML_NOT_STRING.match(s) and ": " not in s and " #" not in s and not s.endswith(":")
                and (not flow or not re.search(r"[\[\]{},]", s))):
            opts += ["plain", "plain"]
    lines = s.split("\n")
    if (not flow and PRINTABLE.match(s.replace("\n", "").replace("\t", "")) and "\r" not in s and s and not s.endswith("\n")
            and all(l and l[0] not in " \t" for l in lines)):
        opts.append("literal")
        if len(lines) == 1 and not s.endswith(" ") and not s.endswith("\t"):
            opts.append("folded")
    o = rng.choice(opts)
    spelled("yaml", "string " + o)
    if o == "dq":
        return jstr(s)
    if o == "sq":
        return "'" + s.replace("'", "''") + "'"
    if o == "plain":
        return s
    pad = " " * (ind + 2)
    return ("|-" if o == "literal" else ">-") + "\n" + "\n".join(pad + l for l in lines)


def num_spelling(v, fmt, rng):
    """integers and floats as each format lets a human write them; the numeric KIND (integer / float) is content and is kept"""
    if v[0] == "int":
        n = v[1]
        opts = [str(n)]
        if fmt == "json5" and n > 0:
            opts += ["+%d" % n]
            if n < 2 ** 31:               # the json5 crate cannot read larger hexadecimal literals ("error parsing hex")
                opts += ["0x%X" % n, "0x%x" % n]
        if fmt == "yaml" and n > 0:
            opts += ["+%d" % n]
            if n < 2 ** 31:
                opts += ["0x%x" % n, "0o%o" % n]
        o = rng.choice(opts)
        spelled(fmt, "int " + ("hex" if "x" in o else "octal" if "o" in o else "signed" if o[0] in "+-" else "plain"))
        return o
    x = float(v[1])
    opts = [repr(x), "%e" % x if float("%e" % x) == x else repr(x), ("%E" % x) if float("%E" % x) == x else repr(x)]
    if fmt in ("json5", "yaml") and x > 0:
        opts.append("+" + repr(x))
    if fmt in ("json5", "yaml") and x == int(x) and abs(x) < 1e15:
        opts.append("%d." % int(x))
    if fmt in ("json5", "yaml") and 0 < abs(x) < 1 and repr(x).replace("-", "").startswith("0."):
        opts.append(repr(x).replace("0.", ".", 1))
    o = rng.choice(opts)
    spelled(fmt, "float " + ("exponent" if "e" in o.lower() else "no leading/trailing digit" if o.endswith(".") or o.lstrip("+-").startswith(".") else "decimal"))
    return o


def branch_object(el, fmt, rng):
    """a range branch `[value, count...]` written as the object `{count, value}` the parser accepts as well (RangeStructSeed::
    visit_map): members in either order; no count = the fallback; several counts = a list"""
    value = seq_spelling(el[0], fmt, rng)
    members = [("value", value)]
    if len(el) == 2:
        members.append(("count", seq_spelling(el[1], fmt, rng)))
    elif len(el) > 2:
        members.append(("count", seq_spelling(list(el[1:]), fmt, rng)))
    rng.shuffle(members)
    spelled(fmt, "range branch as object, %s first" % members[0][0] if len(members) == 2 else "range branch as object, value only")
    if fmt == "json":
        return "{" + ", ".join("%s: %s" % (jstr(k), v) for k, v in members) + "}"
    if fmt == "json5":
        return "{" + ", ".join("%s: %s" % (k if rng.random() < 0.6 else json5_string(k, rng), v) for k, v in members) + ("," if rng.random() < 0.2 else "") + "}"
    return "{" + ", ".join("%s: %s" % (k if rng.random() < 0.7 else jstr(k), v) for k, v in members) + "}"


def seq_spelling(el, fmt, rng, flow=True, top=False):
    """a range declaration (nested lists of strings and numbers): element order is content, spelling is not"""
    if top and isinstance(el, list):
        # the branches: tuples `[value, count...]` or objects `{count, value}`
        inner = [branch_object(e, fmt, rng) if isinstance(e, list) and e and isinstance(e[0], str) and rng.random() < 0.45
                 else seq_spelling(e, fmt, rng) for e in el]
        if fmt == "json5" and inner and rng.random() < 0.3:
            return "[" + ", ".join(inner) + ",]"
        return "[" + rng.choice([", ", ","]).join(inner) + "]"
    if isinstance(el, list):
        inner = [seq_spelling(e, fmt, rng) for e in el]
        if fmt == "json5" and inner and rng.random() < 0.3:
            return "[" + ", ".join(inner) + ",]"
        return "[" + rng.choice([", ", ","]).join(inner) + "]"
    if isinstance(el, bool):
        return "true" if el else "false"
    if isinstance(el, int):
        return num_spelling(("int", el), fmt, rng)
    if isinstance(el, float):
        return num_spelling(("float", el), fmt, rng)
    if el is None:
        return "null"
    return {"json": json_string, "json5": json5_string}[fmt](el, rng) if fmt != "yaml" else yaml_string(el, rng, flow=True)


def scalar(v, fmt, rng, ind=0):
    if v[0] == "str":
        return {"json": json_string, "json5": json5_string}[fmt](v[1], rng) if fmt != "yaml" else yaml_string(v[1], rng, ind=ind)
    if v[0] in ("int", "float"):
        return num_spelling(v, fmt, rng)
    if v[0] == "bool":
        if fmt == "yaml":
            return rng.choice(["true", "True", "TRUE"] if v[1] else ["false", "False", "FALSE"])
        return "true" if v[1] else "false"
    if v[0] == "null":
        spelled(fmt, "null")
        return rng.choice(["null", "~", "Null", "NULL", ""]) if fmt == "yaml" else "null"
    if v[0] == "seq":
        return seq_spelling(v[1], fmt, rng, top=True)
    if v[0] == "fkargs":
        # a foreign key with an argument object: the members of that object (inside the string) in a random order
        args = list(v[2])
        rng.shuffle(args)
        spelled(fmt, "$t argument object, %s first" % args[0][0])
        text = v[3] + "$t(" + v[1] + rng.choice([", ", ",", " , "]) + "{" + ", ".join("%s: %s" % (jstr(k), jstr(a)) for k, a in args) + "})" + v[4]
        return {"json": json_string, "json5": json5_string}[fmt](text, rng) if fmt != "yaml" else yaml_string(text, rng, ind=ind)
    raise ValueError(v)


def to_json(tree, rng, ind=0):
    pad = " " * (ind + 2)
    items = []
    for k, v in tree:
        body = to_json(v[1], rng, ind + 2) if v[0] == "obj" else scalar(v, "json", rng)
        items.append("%s%s:%s%s" % (pad, json_string(k, rng), rng.choice([" ", "  ", ""]), body))
    return "{\n" + ",\n".join(items) + "\n" + " " * ind + "}"


def to_json5(tree, rng, ind=0):
    pad = " " * (ind + 2)
    items = []
    for k, v in tree:
        body = to_json5(v[1], rng, ind + 2) if v[0] == "obj" else scalar(v, "json5", rng)
        key = k if IDENT.match(k) and rng.random() < 0.6 else json5_string(k, rng)
        items.append("%s%s: %s," % (pad, key, body))
        if rng.random() < 0.1:
            items.append(pad + rng.choice(["// a comment", "/* a block comment */"]))
    return "{\n" + "\n".join(items) + "\n" + " " * ind + "}"


def to_yaml(tree, rng, ind=0):
    pad = " " * ind
    lines = []
    for k, v in tree:
        if IDENT.match(k) and k.lower() not in YAML_SPECIAL and rng.random() < 0.7:
            key = k
        else:
            key = rng.choice([jstr(k), "'" + k.replace("'", "''") + "'"]) if PRINTABLE.match(k) and "\n" not in k and "\t" not in k else jstr(k)
        if v[0] == "obj":
            if not v[1]:
                lines.append("%s%s: {}" % (pad, key))
            else:
                lines.append("%s%s:" % (pad, key))
                lines.append(to_yaml(v[1], rng, ind + 2))
        elif v[0] == "seq" and rng.random() < 0.5 and v[1]:
            # block sequence of the branches, each branch a flow sequence or a nested block sequence
            lines.append("%s%s:" % (pad, key))
            for el in v[1]:
                if isinstance(el, list) and el and isinstance(el[0], str) and rng.random() < 0.35:
                    if rng.random() < 0.5:
                        lines.append("%s  - %s" % (pad, branch_object(el, "yaml", rng)))
                    else:
                        # block mapping: `- count: 0` / `  value: "zero"` in either order
                        ms = [("value", seq_spelling(el[0], "yaml", rng))]
                        if len(el) >= 2:
                            ms.append(("count", seq_spelling(el[1] if len(el) == 2 else list(el[1:]), "yaml", rng)))
                        rng.shuffle(ms)
                        spelled("yaml", "range branch as block mapping, %s first" % ms[0][0])
                        for i, (k2, v2) in enumerate(ms):
                            lines.append("%s  %s %s: %s" % (pad, "-" if i == 0 else " ", k2, v2))
                elif isinstance(el, list) and el and rng.random() < 0.4:
                    first = True
                    for sub in el:
                        lines.append("%s  %s %s" % (pad, "- -" if first else "  -", seq_spelling(sub, "yaml", rng)))
                        first = False
                else:
                    lines.append("%s  - %s" % (pad, seq_spelling(el, "yaml", rng)))
        else:
            body = scalar(v, "yaml", rng, ind)
            lines.append(("%s%s: %s" % (pad, key, body)).rstrip(" ") if body == "" else "%s%s: %s" % (pad, key, body))
    return "\n".join(lines)


SERIALISE = {"json": to_json, "json5": to_json5, "yaml": lambda t, r, i=0: to_yaml(t, r, i) + "\n" if t else "{}\n"}


def write_project(root, proj, fmt, trees_by_unit, rng):
    """trees_by_unit: per unit, per locale, the member lists in the file order to write"""
    shutil.rmtree(root, ignore_errors=True)
    os.makedirs(os.path.join(root, "locales"))
    ns = [u["ns"] for u in proj["units"]]
    cfg = ['[package]', 'name = "p"', 'version = "0.1.0"', 'edition = "2021"', '', '[package.metadata.leptos-i18n]',
           'default = %s' % json.dumps(proj["locales"][0]), 'locales = %s' % json.dumps(proj["locales"])]
    if ns[0] is not None:
        cfg.append('namespaces = %s' % json.dumps(ns))
    with open(os.path.join(root, "Cargo.toml"), "w") as fh:
        fh.write("\n".join(cfg) + "\n")
    for u, trees in zip(proj["units"], trees_by_unit):
        for loc, tree in zip(proj["locales"], trees):
            if u["ns"] is None:
                p = os.path.join(root, "locales", "%s.%s" % (loc, EXT[fmt]))
            else:
                os.makedirs(os.path.join(root, "locales", loc), exist_ok=True)
                p = os.path.join(root, "locales", loc, "%s.%s" % (u["ns"], EXT[fmt]))
            with open(p, "w", encoding="utf-8") as fh:
                fh.write(SERIALISE[fmt](tree, rng, 0))


# ------------------------------------------------------------------ running the harness (fresh process per run)

def exe_of(bindirs, fmt):
    return os.path.join(bindirs[fmt], "h_order")


def run_one(exe, mode, root, timeout=120):
    rc, out, err = core.sh([exe, mode], input=root + "\n", timeout=timeout)
    if rc != 0 or "END\t" not in out:
        raise core.Infra("h_order %s rc=%s: %s" % (mode, rc, (out + err)[-400:]))
    return [l for l in out.splitlines() if not l.startswith("END\t")]


NUMTYPE = re.compile(r"\b(Signed|Unsigned)\(")
LINECOL = re.compile(r" at line \d+ column \d+| at line \d+, column \d+|line: \d+|column: \d+|index: \d+|line \d+ column \d+")


def parse_dump(lines):
    d = {"result": None, "D": None, "E": None, "W": [], "K": [], "P": {}, "T": {}}
    for l in lines:
        f = l.split("\t")
        if f[0] == "RESULT":
            d["result"] = f[1:3] if f[1] != "ok" else ["ok"]
        elif f[0] == "D":
            d["D"] = f[1]
        elif f[0] == "E":
            d["E"] = f[1]
        elif f[0] == "W":
            d["W"].append(f[2])
        elif f[0] == "K":
            d["K"].append((f[1], int(f[2]) if f[2].isdigit() else -1, f[4], f[5]))
        elif f[0] == "P":
            d["P"][(f[1], int(f[2]), f[4])] = [tuple(x.split(":")) for x in f[5].split(",") if x]
        elif f[0] == "T":
            d["T"][(f[1], int(f[2]))] = f[4].split(",") if len(f) > 4 and f[4] != "" else []
    return d


def norm_num(s):
    return NUMTYPE.sub("Int(", s)


def same_format_view(d, fmt=None):
    """everything, for runs of one format (orders, repetitions)"""
    if d["result"][0] == "ok":
        return ("ok", d["D"], tuple(d["W"]), tuple(d["K"]), tuple(sorted((k, tuple(v)) for k, v in d["T"].items())))
    # an error: variant and full text (every key path / locale / file it names); only line/column numbers are stripped
    # (serde_yaml's document-path prefix depends on how a range branch happens to be spelled - tuple or object - and is removed)
    return (tuple(d["result"][:2]), error_core(d, fmt) if fmt else ERR_POS.sub("", d["E"] or ""))


ERR_POS = re.compile(r',?\s*line: \d+|,?\s*column: \d+|,?\s*location: (?:None|Some\(Location \{[^}]*\}\))| at line \d+ column \d+')
ERR_MSG = re.compile(r'(?:Error\(|msg: )"((?:[^"\\]|\\.)*)"')


def error_core(d, fmt):
    """what an error says, without the front-end's wrapping: (variant, file it names without extension, message).
    serde_yaml prefixes the message with the path of the value inside the document (`uf: Unknown formatter ...`)."""
    e = (d["E"] or "").replace("\\\\", "\\")
    variant = d["result"][1] if len(d["result"]) > 1 else "?"
    if variant == "LocaleFileDeser":
        m = re.search(r'path: "([^"]*)"', e)
        stem = os.path.splitext(m.group(1))[0] if m else ""
        m2 = ERR_MSG.search(e)
        msg = ERR_POS.sub("", m2.group(1) if m2 else e)
        if fmt == "yaml":
            msg = re.sub(r'^[^\s"\\]+: ', "", msg)
        return (variant, stem, msg)
    return (variant, "", ERR_POS.sub("", e))


def cross_format_view(d, fmt=None):
    """keys, diagnostics, final values (numeric literal types normalised), string tables; for an error its variant and message"""
    if d["result"][0] == "ok":
        return ("ok", tuple(d["W"]), tuple((a, b, c, norm_num(v)) for a, b, c, v in d["K"]), tuple(sorted((k, tuple(v)) for k, v in d["T"].items())))
    return (tuple(d["result"][:2]), error_core(d, fmt))


# ------------------------------------------------------------------ Coq cases

WARN = re.compile(r'^(\w+) \{ locale: "([^"]*)", key_path: KeyPath \{ namespace: (None|Some\("([^"]*)"\)), path: \[(.*?)\] \}')


class OutOfDomain(Exception):
    pass


class Interner:
    def __init__(self):
        self.t = {"Default": 0}

    def __call__(self, text):
        if text not in self.t:
            self.t[text] = len(self.t)
        return self.t[text]


def unhex(h):
    return "" if h == "." else bytes.fromhex(h).decode()


def coq_path(p):
    return core.coq_list([core.coq_str(k) for k in p])


FK_REF = re.compile(r"\$t\(\s*([A-Za-z0-9_.:-]+)")


def refs_of(node, ns):
    """the key paths the `$t(..)` foreign keys of a value name (inside this unit); a reference into another namespace is outside
    the Coq model"""
    texts = []
    if node[0] == "fkargs":
        texts.append("$t(%s)" % node[1])

    def walk(x):
        if isinstance(x, str):
            texts.append(x)
        elif isinstance(x, (list, tuple)):
            for y in x:
                walk(y)
    walk(node[1])
    out = []
    for t in texts:
        for m in FK_REF.finditer(t):
            tgt = m.group(1)
            if ":" in tgt:
                n, tgt = tgt.split(":", 1)
                if n != ns:
                    raise OutOfDomain("foreign key into another namespace")
            elif ns != "-":
                raise OutOfDomain("foreign key without namespace in a namespaced project")
            out.append(coq_path(tgt.split(".")))
    return core.coq_list(out)


def coq_jv(tree, look, prefix, ns="-"):
    """tree: member list in file order; look(path) -> (id, pieces) for a leaf"""
    items = []
    for k, v in tree:
        path = prefix + [k.strip()]
        if v[0] == "obj":
            items.append("(%s, %s)" % (core.coq_str(k), coq_jv(v[1], look, path, ns)))
        elif v[0] == "null":
            items.append("(%s, JNull)" % core.coq_str(k))
        else:
            i, ps = look(path, v)
            items.append("(%s, JLeaf %d %s %s)" % (core.coq_str(k), i, core.coq_list([core.coq_str(x) for x in ps]), refs_of(v, ns)))
    return "(JObj %s)" % core.coq_list(items)


def has_collision(tree):
    ks = [k.strip() for k, _ in tree]
    return len(set(ks)) != len(ks) or any(v[0] == "obj" and has_collision(v[1]) for _, v in tree)


def coq_files(unit_trees, ns, ref, intern):
    """the unit's files as Coq member lists; leaf identities and pieces are read from the reference dump (order A);
    when two member names collide after trimming, a listed value cannot be attributed to one member: identities are then
    taken from the abstract content"""
    ok = ref["result"][0] == "ok" and not any(has_collision(t) for t in unit_trees)
    kmap = {(a, b, c): v for a, b, c, v in ref["K"]}
    files = []
    for li, tree in enumerate(unit_trees):
        def look(path, node, li=li):
            if not ok:
                return intern("abs:" + repr(node)), ([node[1]] if node[0] == "str" else [])
            key = (ns, li, ".".join(path))
            if key not in kmap:
                raise OutOfDomain("no value listed at %r (plural group or foreign key)" % (key,))
            return intern(norm_num(kmap[key])), [unhex(h) for _, h in ref["P"].get(key, [])]
        t = coq_jv(tree, look, [], ns)
        files.append(t[len("(JObj "):-1])
    return core.coq_list(files)


FK_ERRORS = {"RecursiveForeignKey": 4, "MissingForeignKey": 5, "InvalidForeignKey": 6}


def coq_result(d, ns, locales, abstract_paths, intern):
    if d["result"][0] != "ok":
        v = d["result"][1]
        e = (d["E"] or "").replace("\\\\", "\\")
        if v in FK_ERRORS:
            # the diagnostic names a locale, a key path and (missing / invalid) the foreign key
            loc = re.search(r'locale: "([^"]*)"', e).group(1)
            kp = re.search(r'key_path: KeyPath \{ namespace: [^,]*, path: \[(.*?)\] \}', e).group(1)
            fk = re.search(r'foreign_key: KeyPath \{ namespace: [^,]*, path: \[(.*?)\] \}', e)
            unq = lambda t: [x.strip()[1:-1] for x in t.split(",")] if t.strip() else []      # noqa: E731
            return "(inr (%d, %d, %s, %s))" % (FK_ERRORS[v], locales.index(loc), coq_path(unq(kp)), coq_path(unq(fk.group(1)) if fk else []))
        code = 2 if v == "ExplicitDefaultInDefault" else 3 if v == "SubKeyMissmatch" else \
            1 if v == "LocaleFileDeser" and "uplicate" in e else 99
        return "(inr (%d, 0, [], []))" % code
    lists, tables, warns = [], [], []
    for li, _ in enumerate(locales):
        ent = []
        for a, b, c, v in d["K"]:
            if a == ns and b == li:
                if (li, c) not in abstract_paths and v != "Default":
                    raise OutOfDomain("listed key %s is not a key of the files (plural group)" % c)
                ent.append("(%s, %d)" % (coq_path(c.split(".")), intern(norm_num(v))))
        lists.append(core.coq_list(ent))
        tables.append(core.coq_list([core.coq_str(unhex(h)) for h in d["T"].get((ns, li), [])]))
    for w in d["W"]:
        m = WARN.match(w)
        if not m:
            raise OutOfDomain("warning not understood: " + w[:80])
        wns = m.group(4) if m.group(3) != "None" else "-"
        if wns != ns:
            continue
        if m.group(1) not in ("MissingKey", "SurplusKey"):
            raise OutOfDomain("warning kind " + m.group(1))
        pth = [x.strip()[1:-1] for x in m.group(5).split(",")] if m.group(5).strip() else []
        warns.append("(%s %d %s)" % ("WMissing" if m.group(1) == "MissingKey" else "WSurplus", locales.index(m.group(2)), coq_path(pth)))
    return "(inl (mk_out %s %s %s))" % (core.coq_list(lists), core.coq_list(tables), core.coq_list(warns))


def leaf_paths(tree, prefix, acc):
    for k, v in tree:
        p = prefix + [k.strip()]
        if v[0] == "obj":
            leaf_paths(v[1], p, acc)
        else:
            acc.add(".".join(p))
    return acc


def coq_cases(proj, runA, runB):
    """runX = (trees_by_unit, dump); one Coq case per unit; raises OutOfDomain"""
    (ta, da), (tb, db) = runA, runB
    only_ns = None
    if (da["result"][0] != "ok" or db["result"][0] != "ok") and len(proj["units"]) > 1:
        # an error of a project with several namespaces belongs to the namespace its key path names (if it names one)
        m = [re.search(r'key_path: KeyPath \{ namespace: Some\(\\*"([^"\\]*)', x["E"] or "") for x in (da, db)]
        if not all(m) or m[0].group(1) != m[1].group(1) or da["result"][:2] != db["result"][:2]:
            raise OutOfDomain("error result in a project with several namespaces")
        only_ns = m[0].group(1)
    if da["result"][0] == "PANIC" or db["result"][0] == "PANIC":
        raise OutOfDomain("panic")
    items = []
    names = core.coq_list([core.coq_str(l) for l in proj["locales"]])
    for ui, u in enumerate(proj["units"]):
        ns = u["ns"] or "-"
        if only_ns is not None and ns != only_ns:
            continue
        intern = Interner()
        ap = set()
        for li, t in enumerate(ta[ui]):
            for p in leaf_paths(t, [], set()):
                ap.add((li, p))
        fa = coq_files(ta[ui], ns, da, intern)
        fb = coq_files(tb[ui], ns, da, intern)            # same leaves (identities from run A), other member order
        ra = coq_result(da, ns, proj["locales"], ap, intern)
        rb = coq_result(db, ns, proj["locales"], ap, intern)
        items.append("(mk_case %s %s %s %s %s)" % (names, fa, fb, ra, rb))
    return items


# ------------------------------------------------------------------ the check

def order_trees(proj, order):
    """order: "sorted" | "reversed" | ("perm", seed) | "as-is" -> per unit, per locale, the member lists in file order"""
    import random
    if order == "as-is":
        return [[list(t) for t in u["trees"]] for u in proj["units"]]
    if order == "sorted":
        return [[sort_tree(t) for t in u["trees"]] for u in proj["units"]]
    if order == "reversed":
        return [[sort_tree(t, True) for t in u["trees"]] for u in proj["units"]]
    r = random.Random(order[1])
    return [[permute(r, t) for t in u["trees"]] for u in proj["units"]]


def read_files(d):
    """the locale files of a written project, relative path -> text (what was really loaded)"""
    out = {}
    base = os.path.join(d, "locales")
    for dp, _, fs in os.walk(base):
        for f in sorted(fs):
            p = os.path.join(dp, f)
            out[os.path.relpath(p, d)] = open(p, encoding="utf-8").read()
    return out


def do_run(bindirs, root, proj, fmt, order, tag, codegen=True, spell_seed=None, files=None):
    """write the project in one format and key order and load it in fresh processes.
    [spell_seed]: seed of the per-format spelling choices (quotes, number forms, range branches as tuples or objects with either
    member order, order of `$t` argument members): deterministic, so that a run can be repeated; [files]: write these texts
    verbatim instead (replay of a recorded run)"""
    import random
    import zlib
    d = os.path.join(root, tag)
    trees = order_trees(proj, order)
    if spell_seed is None:
        spell_seed = zlib.crc32(("%s|%s" % (tag, order)).encode())
    write_project(d, proj, fmt, trees, random.Random(spell_seed))
    if files:
        for rel, txt in files.items():
            with open(os.path.join(d, rel), "w", encoding="utf-8") as fh:
                fh.write(txt)
    dump = parse_dump(run_one(exe_of(bindirs, fmt), "project", d))
    cg = None
    if codegen:
        cg = "\n".join(run_one(exe_of(bindirs, fmt), "codegen", d))
    return {"fmt": fmt, "order": order, "dir": d, "trees": trees, "dump": dump, "codegen": cg, "spell_seed": spell_seed,
            "files": read_files(d)}


def plan(ctx, k_orders):
    runs = []
    for fmt in FORMATS:
        runs.append((fmt, "sorted", "%s_sorted" % fmt))
        runs.append((fmt, "sorted", "%s_again" % fmt))           # the same files content, another fresh process
        runs.append((fmt, "reversed", "%s_rev" % fmt))
        for j in range(k_orders):
            runs.append((fmt, ("perm", ctx.rng.randrange(1 << 30)), "%s_p%d" % (fmt, j)))
    return runs


def compare_runs(runs):
    """-> list of differences (kind, tagA, tagB, what)"""
    diffs = []
    by_fmt = {}
    for r in runs:
        by_fmt.setdefault(r["fmt"], []).append(r)
    for fmt, rs in by_fmt.items():
        a = rs[0]
        for b in rs[1:]:
            va, vb = same_format_view(a["dump"], a["fmt"]), same_format_view(b["dump"], b["fmt"])
            if va != vb:
                kind = "run" if a["order"] == b["order"] else "order"
                what = "result" if va[0] != vb[0] else "error text (the key / locale the diagnostic names)" if va[0] != "ok" else \
                    ["", "BuildersKeys", "warnings", "values", "string tables"][next(i for i in range(1, len(va)) if va[i] != vb[i])]
                diffs.append((kind, a, b, what))
            elif a["codegen"] is not None and a["codegen"] != b["codegen"]:
                diffs.append(("run" if a["order"] == b["order"] else "order", a, b, "generated token stream"))
    base = by_fmt[FORMATS[0]][0]
    for fmt in FORMATS[1:]:
        b = by_fmt[fmt][0]
        va, vb = cross_format_view(base["dump"], base["fmt"]), cross_format_view(b["dump"], b["fmt"])
        if va != vb:
            what = "result" if va[0] != vb[0] else "error text (the key / locale the diagnostic names)" if va[0] != "ok" else \
                ["", "warnings", "values", "string tables"][next(i for i in range(1, len(va)) if va[i] != vb[i])]
            diffs.append(("format", base, b, what))
    return diffs


def size_of(proj):
    def n(t):
        return sum(1 + (n(v[1]) if v[0] == "obj" else 0) for _, v in t)
    return sum(n(t) for u in proj["units"] for t in u["trees"]) + 3 * len(proj["locales"]) + 5 * len(proj["units"])


def smaller_projects(proj):
    """candidates with one thing removed"""
    import copy
    out = []
    if len(proj["units"]) > 1:
        for i in range(len(proj["units"])):
            q = copy.deepcopy(proj)
            del q["units"][i]
            out.append(q)
    if len(proj["locales"]) > 1:
        for i in range(1, len(proj["locales"])):
            q = copy.deepcopy(proj)
            del q["locales"][i]
            for u in q["units"]:
                del u["trees"][i]
            out.append(q)

    def drops(t):
        for i, (k, v) in enumerate(t):
            yield t[:i] + t[i + 1:]
            if v[0] == "obj":
                for sub in drops(v[1]):
                    yield t[:i] + [(k, ("obj", sub))] + t[i + 1:]
            elif v[0] == "str" and len(v[1]) > 1:
                yield t[:i] + [(k, ("str", "x"))] + t[i + 1:]
    for ui, u in enumerate(proj["units"]):
        for li, t in enumerate(u["trees"]):
            for nt in drops(t):
                q = copy.deepcopy(proj)
                q["units"][ui]["trees"][li] = nt
                out.append(q)
    return out


def shrink(bindirs, root, proj, a, b, limit=400, tokens=False):
    """greedy: keep removing a key / locale / namespace while runs a and b (format, order) still differ;
    [tokens]: the recorded difference is the generated token stream (the dumps agree), so the code generator is run too"""
    def differs(q, n):
        try:
            ra = do_run(bindirs, root, q, a["fmt"], a["order"], "shr_a%d" % (n % 8), codegen=tokens, spell_seed=a.get("spell_seed"))
            rb = do_run(bindirs, root, q, b["fmt"], b["order"], "shr_b%d" % (n % 8), codegen=tokens, spell_seed=b.get("spell_seed"))
        except core.Infra:
            return False
        if tokens:
            return ra["codegen"] != rb["codegen"]
        if a["fmt"] == b["fmt"]:
            return same_format_view(ra["dump"], ra["fmt"]) != same_format_view(rb["dump"], rb["fmt"])
        return cross_format_view(ra["dump"], ra["fmt"]) != cross_format_view(rb["dump"], rb["fmt"])
    n = 0
    progress = True
    while progress and n < limit:
        progress = False
        for q in sorted(smaller_projects(proj), key=size_of):
            n += 1
            if differs(q, n):
                proj, progress = q, True
                break
            if n >= limit:
                break
    return proj


def describe(proj, run):
    files = run["files"]          # the texts that were really written and loaded
    d = run["dump"]
    return {"format": run["fmt"], "key_order": str(run["order"]), "spell_seed": run.get("spell_seed"), "files": files, "result": d["result"],
            "values": ["%s[%s] %s = %s" % (a, b, c, v[:160]) for a, b, c, v in d["K"]][:40], "warnings": d["W"][:20],
            "string_tables": {"%s[%d]" % k: [unhex(h) for h in v][:40] for k, v in d["T"].items()}, "error": d["E"]}


CORPUS = [
    # values that are only a component / an interpolation in a whitespace variant, near-misses; strings that look like other types
    {"locales": ["en"], "units": [{"ns": None, "trees": [
        [("c1", ("str", "<b>x< /b>")), ("c2", ("str", "< b >x</ b >")), ("c3", ("str", "<b\t>x<\t/b>")), ("c4", ("str", "<\u00a0b>x<\u3000/\u00a0b\u3000>")),
         ("c5", ("str", "<b>x</b >")), ("c6", ("str", "<b>x</c>")), ("c7", ("str", "<b/>x")), ("c8", ("str", "a < b > c")),
         ("v1", ("str", "{{x}}")), ("v2", ("str", "{{  x , number }}")), ("v3", ("str", "{{\u00a0x\u3000}}")), ("v4", ("str", "{ {x} }")),
         ("r1", ("seq", [["<b>x< /b>", 0], ["{{count}}", 1, "3..5"], ["< i >y</ i >"]])),
         ("n1", ("int", 16)), ("n2", ("int", 255)), ("f1", ("float", 100.0)), ("f2", ("float", 0.5)), ("f3", ("float", 5.0)), ("t", ("bool", True))]
        + [("l%d" % i, ("str", t)) for i, t in enumerate(LOOKALIKES)]]}], "fault": None},
    # two distinct member names that denote the same key after Key::new's trim
    {"locales": ["en"], "units": [{"ns": None, "trees": [[("a", ("str", "first")), (" a", ("str", "second"))]]}], "fault": "colliding-keys"},
    {"locales": ["en", "fr"], "units": [{"ns": None, "trees": [
        [("b", ("str", "x")), ("sub", ("obj", [("k ", ("str", "one {{ n }}")), ("k", ("str", "two"))]))],
        [("b", ("str", "y")), ("sub", ("obj", [("k", ("str", "deux"))]))]]}], "fault": "colliding-keys"},
    # a sample in the style of the repository's test locales: ranges, plurals, subkeys, literals, null, surplus, missing
    {"locales": ["en", "fr"], "units": [{"ns": None, "trees": [
        [("click_count", ("str", "You clicked {{ count }} times")),
         ("f32_range", ("seq", ["f32", ["You are broke", "0.0"], ["You owe money", "..0.0"], ["You have {{ count }}€"]])),
         ("subkeys", ("obj", [("subkey_1", ("str", "subkey_1")), ("subkey_2", ("str", "<b>subkey_2</b>")),
                              ("subkey_3", ("seq", [["zero", "0"], ["one", 1], ["{{ count }}", "_"]]))])),
         ("cardinal_plural_one", ("str", "one item")), ("cardinal_plural_other", ("str", "{{ count }} items")),
         ("same_lit_type", ("bool", True)), ("mixed_lit_type", ("float", 59.89)), ("n", ("int", 5)), ("dash-ed", ("str", "plain"))],
        [("click_count", ("str", "Vous avez cliqué {{ count }} fois")), ("f32_range", ("null",)),
         ("subkeys", ("obj", [("subkey_1", ("str", "subkey_1")), ("extra", ("str", "surplus"))])),
         ("cardinal_plural_one", ("str", "un")), ("cardinal_plural_other", ("str", "{{ count }} autres")),
         ("same_lit_type", ("bool", False)), ("mixed_lit_type", ("int", -3)), ("n", ("int", -5)), ("zz", ("str", "surplus"))]]}],
     "fault": None},
]


def run(ctx):
    from checks import isolate
    isolate.enter(ctx)
    from concurrent.futures import ThreadPoolExecutor
    bindirs = {}
    for fmt in FORMATS:
        bindirs[fmt] = core.cargo_build("h_order", features=[fmt], target_sub="target_order_%s" % fmt)
    ok, problems = core.coq_audit(ctx, PROPS, THEOREMS)
    # one directory per invocation: two checks running at the same time must not share project directories
    root = os.path.join(ctx.work, "projects_s%d_%s_%d" % (ctx.seed, ctx.tier, os.getpid()))
    shutil.rmtree(root, ignore_errors=True)
    os.makedirs(root)
    try:
        _run(ctx, bindirs, ok, problems, root)
    finally:
        shutil.rmtree(root, ignore_errors=True)


def _run(ctx, bindirs, ok, problems, root):
    from concurrent.futures import ThreadPoolExecutor
    nproj = 90 if ctx.quick else 500
    k_orders = 1 if ctx.quick else 3
    projects = [json.loads(json.dumps(p)) for p in CORPUS]
    projects = [_tuplify(p) for p in projects]
    for _ in range(nproj):
        projects.append(gen_project(ctx.rng))
    jobs = []
    for pi, proj in enumerate(projects):
        for fmt, order, tag in plan(ctx, k_orders):
            jobs.append((pi, fmt, order, "p%d_%s" % (pi, tag)))
        if proj.get("fault") == "colliding-keys":
            jobs.append((pi, "json", "as-is", "p%d_json_asis" % pi))
    with ThreadPoolExecutor(max_workers=core.NCPU) as ex:
        results = list(ex.map(lambda j: do_run(bindirs, root, projects[j[0]], j[1], j[2], j[3]), jobs))
    by_proj = {}
    for (pi, _, _, _), r in zip(jobs, results):
        by_proj.setdefault(pi, []).append(r)
    all_diffs, items, meta, ood, panics = [], [], [], {}, []
    outcome = {}
    for pi, proj in enumerate(projects):
        runs = by_proj[pi]
        for r in runs:
            if r["dump"]["result"][0] == "PANIC" or (r["codegen"] or "").startswith("C\tPANIC"):
                panics.append((pi, r))
        k = "/".join(runs[0]["dump"]["result"][:2])
        outcome[k] = outcome.get(k, 0) + 1
        for d in compare_runs(runs):
            all_diffs.append((pi,) + d)
        base = runs[0]
        asis = [r for r in runs if r["order"] == "as-is"]
        partners = asis + [r for r in runs if r is not base and (r["fmt"] == base["fmt"] and r["order"] != "sorted" or
                                                                 r["fmt"] != base["fmt"] and r["order"] == "sorted")]
        for b in partners:
            try:
                for it in coq_cases(proj, (base["trees"], base["dump"]), (b["trees"], b["dump"])):
                    items.append(it)
                    meta.append((pi, base, b))
            except OutOfDomain as e:
                key = re.sub(r"\(.*", "", str(e))[:50]
                ood[key] = ood.get(key, 0) + 1
    codes = core.coq_eval(ctx, "c10_%d" % os.getpid(), PRE, items, "check", min_per_shard=10)
    bad3 = [m for m, c in zip(meta, codes) if c == 3]
    dis = [m for m, c in zip(meta, codes) if c == 2]
    skipped = sum(1 for c in codes if c == 1)
    reported = False
    spec_fail = [(pi, a, b, "%s differs (%s)" % (what, kind)) for pi, kind, a, b, what in all_diffs] + \
                [(pi, a, b, "spec_C10 (Coq) false: the two runs differ") for pi, a, b in bad3]
    if spec_fail:
        spec_fail.sort(key=lambda x: size_of(projects[x[0]]))
        pi, a, b, why = spec_fail[0]
        tokens = "token stream" in why
        small = shrink(bindirs, root, projects[pi], a, b, tokens=tokens)
        ra = do_run(bindirs, root, small, a["fmt"], a["order"], "final_a", codegen=tokens, spell_seed=a.get("spell_seed"))
        rb = do_run(bindirs, root, small, b["fmt"], b["order"], "final_b", codegen=tokens, spell_seed=b.get("spell_seed"))
        obj = {"failing_input": {"project": small, "run_a": describe(small, ra), "run_b": describe(small, rb),
                                 "difference": "generated token stream" if tokens else "dump"},
               "explanation": "the same translation content loaded twice (other key order / file format / process) gave different "
                              "results: " + why, "count": len(spec_fail), "original_size": size_of(projects[pi]), "shrunk_size": size_of(small)}
        known = [f for f in core.load_known("C10") if f.get("status") == "known"]
        hit = next((f for f in known if f.get("class") == "colliding-keys" and any(has_collision(t) for u in small["units"] for t in u["trees"])), None)
        if hit and all(any(has_collision(t) for u in projects[p]["units"] for t in u["trees"]) for p, _, _, _ in spec_fail):
            core.known_finding(ctx, hit, hit.get("line", "member names equal after trimming: the later member silently wins"))
        else:
            core.violation(ctx, "spec", obj)
        reported = True
    if not reported and (dis or not ok):
        first = None
        if dis:
            pi, a, b = min(dis, key=lambda m: size_of(projects[m[0]]))
            first = {"project": projects[pi], "run_a": describe(projects[pi], a), "run_b": describe(projects[pi], b)}
        core.violation(ctx, "correspondence", {
            "broken": ("theorem/audit: " + "; ".join(problems)) if not ok else
                      "correspondence Parser/Order.v (run_unit: key listing, string tables, Missing/Surplus warnings) vs parse_locales",
            "first_disagreeing_input": first, "disagreements": len(dis)}, no_input=True)
    nontrivial = sum(1 for p in projects if size_of(p) >= 12)
    core.write_evidence(ctx, {
        "evaluations": len(results), "distinct_nontrivial": nontrivial,
        "projects": len(projects), "loads_in_fresh_processes": len(results), "codegen_runs": sum(1 for r in results if r["codegen"]),
        "spellings_written": dict(sorted(SPELLINGS.items())),
        "range_boundary_counts": {"per_type": {str(t): boundary_values(t) for t in INT_BOUNDS}, "dropped": BOUNDARY_DROPPED},
        "coq_cases": len(items), "coq_codes": {str(c): codes.count(c) for c in sorted(set(codes))},
        "coq_codes_2_3_by_fault": {"%d/%s" % (c, projects[m[0]].get("fault")): sum(1 for mm, cc in zip(meta, codes) if cc == c and
                                   projects[mm[0]].get("fault") == projects[m[0]].get("fault")) for m, c in zip(meta, codes) if c in (2, 3)},
        "rule": "corpus (whitespace-variant components/interpolations and type look-alike strings, colliding member names, "
                "repository-style sample) then random abstract projects (1-4 locales, optional namespaces, nested subkeys, strings with "
                "variables/components in every whitespace variant the grammar tolerates (space, tab, U+00A0, U+3000 after `<`, around `/`, "
                "before `>`, inside `{{ }}`), values that are only a component, near-misses, look-alikes (yes, 012, ~, 0x10, 1e2 ...), "
                "multi-line strings, ints, floats, bools, null, range sequences; every value spelled per format in a random legal way "
                "(JSON escapes; JSON5 single quotes, unquoted keys, +n, hex, `.5`, `5.`, trailing commas, comments; YAML plain / single / "
                "double quoted / literal and folded block scalars, True/NULL/~/empty, hex, octal, block and flow sequences) so that "
                "visit_str, visit_string, visit_i64/u64/f64, visit_bool, visit_unit, visit_seq and visit_map are reached in every format "
                "that can produce them, plural groups in 30% of the projects, one injected fault in 25%); each written as JSON, YAML and JSON5 "
                "in sorted, reversed and random member orders (every nesting level permuted), every load and every code generation "
                "in a fresh process; non-trivial = at least 12 members; compared: full dump + token stream within a format, "
                "keys/diagnostics/values(numeric types normalised)/string tables across formats; Coq cases = (json sorted, X) pairs",
        "samples": [{"project": projects[i], "result": by_proj[i][0]["dump"]["result"]} for i in (2, 3, 4)],
        "traces_validated_against_impl": len(items) - skipped,
        "differences_found": len(all_diffs),
        "differences_by_fault": {str(f): sum(1 for d in all_diffs if projects[d[0]].get("fault") == f)
                                 for f in set(projects[d[0]].get("fault") for d in all_diffs)},
        "spec_failures_on_impl": len(bad3) + len(all_diffs), "disagreements": len(dis),
        "skipped_unmodelled": skipped, "out_of_model_domain": ood,
        "panics_observed_identically_in_every_run": sorted(set((r["codegen"] or r["dump"]["result"][-1])[:120] for _, r in panics))[:5],
        "input_distribution": {"results": outcome, "faults": {str(f): sum(1 for p in projects if p.get("fault") == f)
                                                               for f in set(p.get("fault") for p in projects)}},
        "audit_problems": problems,
    }, assumptions=[
        "serde_json / serde_yaml / json5 are external: their agreement on the generated documents is observed, not proved",
        "leaf identities and literal pieces fed to the Coq model are read back from the implementation's dump of the first run",
        "numeric literal types (Signed/Unsigned) are normalised across formats (json5 yields signed integers), DESIGN §10",
        "errors are compared by variant AND full text (every locale, key path, foreign key and file they name; only line/column numbers "
        "are stripped; across formats the front-end's wrapper and serde_yaml's document-path prefix are removed). This is meaningful because "
        "every generated project carries at most ONE logical fault (possibly involving several keys: reference cycles, several references "
        "to one missing key or to one subkeys group, the same in several locales / namespaces / subkeys); two independent faults in two "
        "different values of one file are excluded by construction - serde reports whichever member it meets first",
        "units with plural groups, foreign keys into another namespace, with arguments or to explicit defaults, and errors other than duplicate "
        "key / explicit default / subkey mismatch / recursive, missing or invalid foreign key are outside the Coq model and are covered by the "
        "dump comparison only",
        "the code generator is the macro crate's source compiled into the harness by #[path] (same text, features declared alike)"])


def _tuplify(p):
    def tt(t):
        return [(k, ("obj", tt(v[1])) if v[0] == "obj" else tuple(v)) for k, v in t]
    return {"locales": p["locales"], "units": [{"ns": u["ns"], "trees": [tt(t) for t in u["trees"]]} for u in p["units"]],
            "fault": p.get("fault")}


def replay(ctx, path):
    from checks import isolate
    isolate.enter(ctx)
    obj = json.load(open(path))
    fi = obj.get("failing_input") or obj.get("first_disagreeing_input")
    if not fi or "project" not in fi:
        print(json.dumps(obj, indent=1)[:4000])
        return 0
    bindirs = {fmt: core.cargo_build("h_order", features=[fmt], target_sub="target_order_%s" % fmt) for fmt in FORMATS}
    proj = _tuplify(fi["project"])
    root = os.path.join(ctx.work, "replay_%d" % os.getpid())
    rc = 0

    def order_of(s):
        return s if s in ("sorted", "reversed", "as-is") else tuple(eval(s))
    tokens = fi.get("difference") == "generated token stream" or "token stream" in obj.get("explanation", "")
    ra = do_run(bindirs, root, proj, fi["run_a"]["format"], order_of(fi["run_a"]["key_order"]), "a", codegen=tokens, files=fi["run_a"].get("files"))
    rb = do_run(bindirs, root, proj, fi["run_b"]["format"], order_of(fi["run_b"]["key_order"]), "b", codegen=tokens, files=fi["run_b"].get("files"))
    for name, r in (("run A", ra), ("run B", rb)):
        print(name, json.dumps(describe(proj, r), indent=1, ensure_ascii=False)[:3000])
    same = (same_format_view(ra["dump"], ra["fmt"]) == same_format_view(rb["dump"], rb["fmt"])) if ra["fmt"] == rb["fmt"] else \
        (cross_format_view(ra["dump"], ra["fmt"]) == cross_format_view(rb["dump"], rb["fmt"]))
    if tokens:
        tsame = ra["codegen"] == rb["codegen"]
        print("generated token streams are", "identical" if tsame else "DIFFERENT")
        if not tsame:
            ta_, tb_ = ra["codegen"] or "", rb["codegen"] or ""
            i = next((k for k in range(min(len(ta_), len(tb_))) if ta_[k] != tb_[k]), min(len(ta_), len(tb_)))
            print("  first difference at character %d:\n   A ...%s\n   B ...%s" % (i, ta_[max(0, i - 80):i + 80], tb_[max(0, i - 80):i + 80]))
        same = same and tsame
    print("implementation: the two runs are", "identical" if same else "DIFFERENT")
    try:
        items = coq_cases(proj, (ra["trees"], ra["dump"]), (rb["trees"], rb["dump"]))
        codes = core.coq_eval(ctx, "c10r_%d" % os.getpid(), PRE, items, "check", min_per_shard=10)
        print("Coq check codes per unit (0 ok, 1 unmodelled, 2 model differs, 3 spec violated):", codes)
        print("model on run A's files:", core.coq_show(ctx, PRE, "let c := %s in model_result (c_names c) (c_A c)" % items[0])[:1500])
        if 3 in codes:
            rc = 1
    except OutOfDomain as e:
        print("outside the Coq model:", e)
    return 1 if not same else rc
