"""Shared by checks/C03.py and checks/C07.py: project-directory generation for the h_merge
harness, parsing of its canonical output, and translation of a case into a Coq term of
type Parser.MergeCheck.case.

A project is a dict
  {"default": str, "locales": [str] (as written in Cargo.toml), "inherits": {str: str},
   "namespaces": None | [str], "files": {"<ns or ->/<locale>": tree}}
with tree = ["L", id] | ["N"] | ["G", {key: tree}]   (defined leaf / null / group).
Leaf values are written as the string "v<id>" (some with an interpolated variable) so that the
harness output identifies which file a value came from.
"""
import json
import os
import re
import shutil

from vlib import core

PRE = ("From Coq Require Import List NArith Bool.\nImport ListNotations.\n"
       "From LI Require Import Parser.Merge Parser.MergeCheck Parser.MergeWf.\nOpen Scope N_scope.\n")

LOCALE_POOL = ["en", "fr", "de", "it", "es", "fr-CA", "pt-BR", "en-GB", "nl", "ja"]
KEY_POOL = ["a", "b", "c", "d", "e", "g", "h", "k_x", "sub", "title", "zz", "m1", "n-2", "B", "Z9"]
NS_POOL = ["common", "home", "admin"]
INTERPOLATED = lambda i: i % 7 == 3   # noqa: E731  (these leaves carry a {{ n }} variable)


# ------------------------------------------------------------------ trees

def leaf_text(i):
    return "v%d {{ n }} t" % i if INTERPOLATED(i) else "v%d" % i


EMPTY = 0          # payload of a value that is defined but whose text is empty ("" or a "$t(..)" to an "" target)
OTHER = 999999     # payload of a defined value the harness does not identify (e.g. a bare component)
HELPER = "hx"      # top-level key every decorated file defines (as "" or as a literal): the target of "$t(hx)"


def tree_obj(t):
    if t[0] == "L":
        return t[2] if len(t) > 2 else leaf_text(t[1])
    if t[0] == "N":
        return None
    return {k: tree_obj(v) for k, v in t[1].items()}


def tree_keys(t, acc):
    if t[0] == "G":
        for k, v in t[1].items():
            acc.add(k)
            tree_keys(v, acc)


def coq_tree(t, kr):
    if t[0] == "L":
        return "(Leaf %d)" % t[1]
    if t[0] == "N":
        return "Null"
    return "(Group %s)" % coq_forest(t[1], kr)


def coq_forest(d, kr):
    s = "FNil"
    for k in sorted(d, key=lambda k: kr[k], reverse=True):
        s = "(FCons %d %s %s)" % (kr[k], coq_tree(d[k], kr), s)
    return s


# ------------------------------------------------------------------ project directories

def cargo_toml(proj, extra_before="", extra_after=""):
    lines = ['[package]', 'name = "probe"', 'version = "0.1.0"', 'edition = "2021"', extra_before, '',
             '[package.metadata.leptos-i18n]',
             'default = %s' % json.dumps(proj["default"]),
             'locales = [%s]' % ", ".join(json.dumps(x) for x in proj["locales"])]
    if proj.get("namespaces") is not None:
        lines.append('namespaces = [%s]' % ", ".join(json.dumps(x) for x in proj["namespaces"]))
    if proj.get("inherits"):
        lines.append('inherits = { %s }' % ", ".join("%s = %s" % (json.dumps(k), json.dumps(v))
                                                      for k, v in proj["inherits"].items()))
    lines.append(extra_after)
    return "\n".join(lines) + "\n"


def write_project(root, proj):
    if os.path.exists(root):
        shutil.rmtree(root)
    os.makedirs(os.path.join(root, "locales"))
    with open(os.path.join(root, "Cargo.toml"), "w") as fh:
        fh.write(cargo_toml(proj))
    for name, tree in proj["files"].items():
        ns, loc = name.split("/")
        if ns == "-":
            p = os.path.join(root, "locales", loc + ".json")
        else:
            os.makedirs(os.path.join(root, "locales", loc), exist_ok=True)
            p = os.path.join(root, "locales", loc, ns + ".json")
        with open(p, "w") as fh:
            json.dump(tree_obj(tree), fh, ensure_ascii=False)


def unesc(s):
    return re.sub(r"%([0-9a-f]+)%", lambda m: chr(int(m.group(1), 16)), s)


# ------------------------------------------------------------------ harness output -> Coq

class Ranks:
    """names -> N by rank in byte (= code point) order, so that numeric order is BTreeMap order"""

    def __init__(self, names):
        self.names = sorted(set(names), key=lambda s: s.encode("utf-8"))
        self.r = {n: i + 1 for i, n in enumerate(self.names)}
        self.unknown = {}

    def __getitem__(self, n):
        """total: a name the project does not contain (only an implementation answer can hold one) gets a sentinel
        index that no configured name has, so that the Coq spec predicate sees a foreign locale / key / namespace"""
        if n not in self.r:
            if n not in self.unknown:
                self.unknown[n] = 900000 + len(self.unknown)
            return self.unknown[n]
        return self.r[n]


def ranks_of(proj):
    locs = set(proj["locales"]) | {proj["default"]} | set(proj.get("inherits", {})) | set(proj.get("inherits", {}).values())
    keys = set()
    for t in proj["files"].values():
        tree_keys(t, keys)
    return Ranks(locs), Ranks(keys), Ranks(proj.get("namespaces") or [])


def coq_ns(ns, nr):
    return "None" if ns in ("-", None) else "(Some %d)" % nr[ns]


def coq_path(p, kr):
    return core.coq_list([str(kr[unesc(k)]) for k in p.split(".") if k != ""])


def payload_of(tag):
    if tag == "D":
        return "None"
    if tag == "L":
        return "(Some %d)" % EMPTY            # a literal with empty text: defined, not Default
    m = re.match(r"Lv(\d+)", tag)
    return "(Some %s)" % (m.group(1) if m else str(OTHER))


def parse_impl(line, lr, kr, nr):
    """returns (coq impl_result, info dict); total: an answer that cannot be read is IOther (no spec accepts it)"""
    try:
        term, info = parse_impl_inner(line, lr, kr, nr)
    except (ValueError, IndexError, KeyError, TypeError) as e:
        return "IOther", {"raw": line[:2000], "kind": "unreadable", "parse_error": repr(e)}
    foreign = {k: v for k, v in (("locales", lr.unknown), ("keys", kr.unknown), ("namespaces", nr.unknown)) if v}
    if foreign:
        info["names_not_in_the_project"] = {k: sorted(v) for k, v in foreign.items()}
    return term, info


def parse_impl_inner(line, lr, kr, nr):
    info = {"raw": line[:2000]}
    if line == "PANIC":
        return "IOther", dict(info, kind="panic")
    if line == "HANG":
        return "IOther", dict(info, kind="hang")
    if line.startswith("RAW"):
        return "IOther", dict(info, kind="rejected-before-merge")
    parts = line.split("|")
    if parts[0] == "ERR":
        kind, loc, path = parts[1], parts[2], parts[3]
        info["kind"] = kind
        if kind == "SubKeyMissmatch":
            ns, p = path.split(",", 1)
            return "(IErr (ESubKeyMissmatch %d %s %s))" % (lr[unesc(loc)], coq_ns(unesc(ns), nr), coq_path(p, kr)), info
        if kind == "ExplicitDefaultInDefault":
            ns, p = path.split(",", 1)
            return "(IErr (EExplicitDefaultInDefault %s %s))" % (coq_ns(unesc(ns), nr), coq_path(p, kr)), info
        return "IOther", info
    if parts[0] != "OK":
        return "IOther", dict(info, kind="raw-error")
    ws, unused = [], 0
    for w in parts[2].split(";"):
        if not w:
            continue
        tag, loc, ns, p = w.split(",", 3)
        if tag == "M":
            ws.append("(WMissing %d %s %s)" % (lr[unesc(loc)], coq_ns(unesc(ns), nr), coq_path(p, kr)))
        elif tag == "S":
            ws.append("(WSurplus %d %s %s)" % (lr[unesc(loc)], coq_ns(unesc(ns), nr), coq_path(p, kr)))
        else:
            unused += 1   # UnusedForm / NonUnicodePath: not "these diagnostics" (DESIGN §10)
    es = []
    for e in parts[3].split(";"):
        if not e:
            continue
        f = e.split(",")
        if f[0] == "G":
            es.append("(mk_entry %s %s true [] [] [])" % (coq_ns(unesc(f[1]), nr), coq_path(f[2], kr)))
        else:
            comp = []
            for g in f[4].split("&"):
                if g:
                    t, s = g.split("=")
                    comp.append("(%d, %s)" % (lr[unesc(t)], core.coq_list([str(lr[unesc(x)]) for x in s.split("+")])))
            dof = []
            for g in f[5].split("&"):
                a, b = g.split(">")
                dof.append("(%d, %d)" % (lr[unesc(a)], lr[unesc(b)]))
            own = []
            for g in f[6].split("&"):
                a, b = g.split("=", 1)
                own.append("(%d, %s)" % (lr[unesc(a)], payload_of(b)))
            es.append("(mk_entry %s %s false %s %s %s)" % (coq_ns(unesc(f[1]), nr), coq_path(f[2], kr),
                                                          core.coq_list(comp), core.coq_list(dof), core.coq_list(own)))
    info.update(kind="ok", warnings=parts[2], other_warnings=unused, n_entries=len(es),
                locales=[unesc(x) for x in parts[1].split("&")])
    return "(IOk %s %s)" % (core.coq_list(ws), core.coq_list(es)), info


def cfg_order(proj):
    """ConfigFile::new's locale order (default first by swap); only used when the harness gave none
    (error results); for Ok results the order printed by the harness is used."""
    locs = list(proj["locales"])
    if proj["default"] in locs:
        i = locs.index(proj["default"])
        locs[0], locs[i] = locs[i], locs[0]
    else:
        locs.append(proj["default"])
        locs[0], locs[-1] = locs[-1], locs[0]
    return locs


def coq_case(proj, suppress, line):
    lr, kr, nr = ranks_of(proj)
    impl, info = parse_impl(line, lr, kr, nr)
    order = info.get("locales") or cfg_order(proj)
    if sorted(order) != sorted(cfg_order(proj)):
        # the implementation's locale list is not the configured one: no spec accepts that
        info["kind"] = "unexpected-locale-list"
        impl, order = "IOther", cfg_order(proj)
    nss = []
    for ns in (proj.get("namespaces") or ["-"]):
        files = ["(%d, %s)" % (lr[l], coq_forest(proj["files"]["%s/%s" % (ns, l)][1], kr)) for l in order]
        nss.append("(%s, %s)" % (coq_ns(ns, nr), core.coq_list(files)))
    ext = sorted(((lr[k], lr[v]) for k, v in proj.get("inherits", {}).items()))
    term = "(mk_case %s %s %s %s)" % ("true" if suppress else "false",
                                     core.coq_list(["(%d, %d)" % kv for kv in ext]), core.coq_list(nss), impl)
    info["ranks"] = {"locales": lr.r, "keys": kr.r, "namespaces": nr.r}
    return term, info


HANG_LIMIT = 10.0     # seconds without an answer for ONE project (they take milliseconds) before the harness is
                      # declared hung on it; the suspect is then re-run alone with CONFIRM_LIMIT
CONFIRM_LIMIT = 8.0
MAX_HANGS = 3         # after that many hung projects in this run the remaining projects are not run (counted, not
                      # judged): the verdict is a violation already and every further hang costs the limits again
_hangs_seen = [0]


def _stream(exe, dirs, mode, limit):
    """feed the projects to one harness process and read one answer per project; stops at the first project whose
    answer does not come within [limit] seconds (or when the process dies).  Returns (lines, status) with status
    'done' | 'hang' | 'died': the project at index len(lines) is the one that hung / killed the process."""
    import queue
    import subprocess
    import threading
    proc = subprocess.Popen([exe], stdin=subprocess.PIPE, stdout=subprocess.PIPE, stderr=subprocess.DEVNULL, text=True)
    q = queue.Queue()

    def feed():
        try:
            proc.stdin.write("".join("%s\t%s\n" % (mode, d) for d in dirs))
            proc.stdin.close()
        except (BrokenPipeError, OSError, ValueError):
            pass

    def read():
        for ln in proc.stdout:
            q.put(ln.rstrip("\n"))
        q.put(None)
    threading.Thread(target=feed, daemon=True).start()
    threading.Thread(target=read, daemon=True).start()
    lines, status = [], "done"
    while len(lines) < len(dirs):
        try:
            ln = q.get(timeout=limit)
        except queue.Empty:
            status = "hang"
            break
        if ln is None:
            status = "died"
            break
        lines.append(ln)
    try:
        proc.kill()
    except OSError:
        pass
    proc.wait()
    return lines, status


def run_harness(exe, dirs, mode="merge", timeout=900, hang_limit=None):
    """one canonical answer line per project.  Every project has a wall-clock limit: a project on which the harness
    does not answer is re-run alone in its own process and, if it still does not answer, gets the line HANG; a
    project on which the process dies gets PANIC (abort / stack overflow are not unwinding panics).  After MAX_HANGS
    hung projects the remaining ones get NOTRUN."""
    limit = hang_limit or HANG_LIMIT
    counted = hang_limit is None           # shrinking passes its own limit and is not counted
    out = []
    todo = list(dirs)
    while todo:
        if counted and _hangs_seen[0] >= MAX_HANGS:
            out += ["NOTRUN"] * len(todo)
            break
        lines, status = _stream(exe, todo, mode, limit)
        out += lines
        todo = todo[len(lines):]
        if status == "done" or not todo:
            break
        # the first project left is the suspect: confirm alone, in a fresh process
        l1, st1 = _stream(exe, todo[:1], mode, min(limit, CONFIRM_LIMIT))
        if st1 == "done":
            out.append(l1[0])
        elif st1 == "hang":
            out.append("HANG")
            if counted:
                _hangs_seen[0] += 1
        else:
            out.append("PANIC")
        todo = todo[1:]
    return out


def build_variant(ctx, features):
    """build h_merge with the given features.  One target directory per feature set: `target/debug/h_merge` is a single
    path for every variant, and checks running side by side (C03/C07 with json, C19 with yaml/json5) would otherwise
    replace each other's binary between the build and its use."""
    bindir = core.cargo_build("h_merge", features=features, target_sub="target_merge_" + "_".join(features))
    dst = os.path.join(bindir, "h_merge")
    rc, out, err = core.sh([dst, "features"], timeout=30)
    want = {f: True for f in features}
    got = dict(x.split("=") for x in out.split())
    for f in ("suppress", "json", "yaml", "json5"):
        if (got.get(f) == "true") != bool(want.get(f)):
            raise core.Infra("h_merge feature mismatch: wanted %s got %s" % (features, out))
    return dst


# ------------------------------------------------------------------ random key trees

def gen_default_tree(rng, ids, depth=0, nkeys=None):
    n = nkeys if nkeys is not None else rng.choice([1, 2, 2, 3, 3, 4])
    d = {}
    for k in rng.sample(KEY_POOL, n):
        if depth < 2 and rng.random() < 0.3:
            d[k] = gen_default_tree(rng, ids, depth + 1, rng.choice([1, 2, 2, 3]))
        else:
            d[k] = ["L", ids()]
    return ["G", d]


def derive_tree(rng, ids, dflt, p_absent=0.25, p_null=0.2, p_surplus=0.15, p_mismatch=0.0, depth=0):
    """a locale file derived from the default's: same key kept / null / absent / surplus / mismatch"""
    d = {}
    for k, t in dflt[1].items():
        r = rng.random()
        if r < p_absent:
            continue
        if r < p_absent + p_null:
            d[k] = ["N"]
            continue
        if rng.random() < p_mismatch:
            d[k] = ["L", ids()] if t[0] == "G" else ["G", {rng.choice(KEY_POOL): ["L", ids()]}]
            continue
        d[k] = derive_tree(rng, ids, t, p_absent, p_null, p_surplus, p_mismatch, depth + 1) if t[0] == "G" else ["L", ids()]
    if rng.random() < p_surplus:
        for k in rng.sample(KEY_POOL, rng.choice([1, 1, 2])):
            if k not in dflt[1]:
                c = rng.random()
                d[k] = (["L", ids()] if c < 0.6 else ["N"] if c < 0.7 else
                        ["G", {kk: ["L", ids()] for kk in rng.sample(KEY_POOL, 2)}])
    return ["G", d]


def leaf_kind(t):
    """literal | interpolated | empty | ref_empty | ref_text | component"""
    if len(t) > 2:
        if t[2] == "":
            return "empty"
        if t[2].startswith("$t("):
            return "ref_empty" if t[1] == EMPTY else "ref_text"
        return "component"
    return "interpolated" if INTERPOLATED(t[1]) else "literal"


def special_leaf(kind, ns, helper_payload):
    """a defined value of the given kind; ref kinds point at the helper key of the same file"""
    if kind == "empty":
        return ["L", EMPTY, ""]
    if kind in ("ref_empty", "ref_text"):
        return ["L", helper_payload, "$t(%s%s)" % ("" if ns == "-" else ns + ":", HELPER)]
    return ["L", OTHER, "<b></b>"]


def decorate(rng, proj, prob=0.25):
    """defined-but-empty values: every file gets the helper key (an "" or a literal), and some defined leaves become
    "", a "$t(helper)" (empty when the helper is "" in that file) or a component with empty children (control: not
    empty).  null / absent stay the only undefined forms."""
    n = [0]

    def walk(t, ns, hp, top):
        for k, v in list(t[1].items()):
            if top and k == HELPER:
                continue
            if v[0] == "G":
                walk(v, ns, hp, False)
            elif v[0] == "L" and len(v) == 2 and rng.random() < prob:
                kind = rng.choice(["empty", "ref", "ref", "component"])
                t[1][k] = special_leaf("ref_empty" if kind == "ref" and hp == EMPTY else "ref_text" if kind == "ref" else kind, ns, hp)
    for name, tree in proj["files"].items():
        ns = name.split("/")[0]
        if HELPER not in tree[1]:
            n[0] += 1
            tree[1][HELPER] = ["L", EMPTY, ""] if rng.random() < 0.5 else ["L", 800000 + n[0]]
        h = tree[1][HELPER]
        if h[0] != "L":
            continue
        walk(tree, ns, h[1], True)
    return proj


class Ids:
    def __init__(self):
        self.n = 0

    def __call__(self):
        self.n += 1
        return self.n


def functional_graphs(others, everyone):
    """all `inherits` maps: every non-default locale either does not inherit or inherits from any
    locale (itself, the default, any other)"""
    import itertools
    choices = [None] + list(everyone)
    for combo in itertools.product(choices, repeat=len(others)):
        yield {o: c for o, c in zip(others, combo) if c is not None}


# ------------------------------------------------------------------ evaluation, shrinking

def evaluate(ctx, exe, projs, suppress, tag, fn, hang_limit=None):
    """(metas, codes); projects that were not run because too many earlier ones hung are left out and counted in
    ctx.not_run"""
    root = os.path.join(ctx.work, "proj_" + tag)
    dirs = []
    for i, (_, p) in enumerate(projs):
        d = os.path.join(root, "c%d" % i)
        write_project(d, p)
        dirs.append(d)
    lines = run_harness(exe, dirs, hang_limit=hang_limit)
    items, metas = [], []
    for (kind, p), line in zip(projs, lines):
        if line == "NOTRUN":
            ctx.not_run = getattr(ctx, "not_run", 0) + 1
            continue
        term, info = coq_case(p, suppress, line)
        items.append(term)
        metas.append({"kind": kind, "project": p, "suppress": suppress, "impl": info})
    codes = core.coq_eval(ctx, ctx.id.lower() + tag, PRE, items, fn)
    import shutil
    shutil.rmtree(root, ignore_errors=True)
    return metas, codes


def size_of(p):
    return (len(p["roles"]), sum(len(json.dumps(t)) for t in p["files"].values()))


def shrink(ctx, exe, meta, fn):
    """greedy: drop top-level keys (from every file) and locales while the check still answers 3"""
    p = json.loads(json.dumps(meta["project"]))
    hung = meta["impl"].get("kind") == "hang"
    budget = 12 if hung else 40          # every attempt that still hangs costs the hang limit

    def still_fails(q):
        nonlocal budget
        budget -= 1
        try:
            _, codes = evaluate(ctx, exe, [("shrink", q)], meta["suppress"], "shrink", fn, hang_limit=4.0 if hung else None)
        except core.Infra:
            return False
        return bool(codes) and codes[0] == 3
    # first pass: one top-level key of the default alone (fast when the reduced project is fine)
    dkeys = sorted({(ns, k) for ns in (p["namespaces"] or ["-"]) for k in p["files"]["%s/%s" % (ns, p["default"])][1]
                    if k != HELPER})
    if len(dkeys) > 1:
        saved, budget = budget, min(40, len(dkeys))
        for ns0, k in dkeys:
            if budget <= 0:
                break
            q = json.loads(json.dumps(p))
            for name, t in q["files"].items():
                keep = name.split("/")[0] == ns0
                for kk in list(t[1]):
                    if not (keep and kk in (k, HELPER)):      # the helper stays: "$t(hx)" values point at it
                        del t[1][kk]
            if still_fails(q):
                p = q
                break
        budget = saved
    changed = True
    while changed and budget > 0:
        changed = False
        keys = sorted({k for name, t in p["files"].items() for k in t[1]} - {HELPER})
        for k in keys:
            if budget <= 0:
                break
            q = json.loads(json.dumps(p))
            for t in q["files"].values():
                t[1].pop(k, None)
            if any(q["files"]["%s/%s" % (ns, q["default"])][1] for ns in (q["namespaces"] or ["-"])) and still_fails(q):
                p, changed = q, True
        for nm in list(p["roles"][1:]):
            if budget <= 0:
                break
            if nm in p["inherits"].values():
                continue
            q = json.loads(json.dumps(p))
            q["roles"].remove(nm)
            if nm in q["locales"]:
                q["locales"].remove(nm)
            q["inherits"].pop(nm, None)
            for ns in (q["namespaces"] or ["-"]):
                q["files"].pop("%s/%s" % (ns, nm))
            if still_fails(q):
                p, changed = q, True
    return p


