"""Per-property registration data for MANIFEST.json (tools/gen_manifest.py)."""

CLAIMED = {
    "C12": {
        "level": "proof",
        "technique": "Coq proof over a Gallina model of langid.rs + differential correspondence (coqc vm_compute vs compiled langid.rs)",
        "text": "Theorems C12_supported/C12_preference/C12_default/C12_lossy/C12_spec (Props/C12.v) hold for every supported list and "
                "every request list over an abstract subtag carrier (no bound). The model is tied to /repo by running filter_matches, "
                "find_match and Locale::find_locale (langid.rs compiled by #[path]) on thousands of generated cases and evaluating "
                "the Coq spec predicate on the implementation's answers.",
        "design_ref": "DESIGN.md §5 C12",
        "note": "Trusted: Coq kernel + vm_compute; hand-written model Runtime/Langid.v (tied by the correspondence run); icu_locid "
                "LanguageIdentifier parsing is an oracle; Python generator; Rust harness h_rt. No axioms (Print Assumptions: closed).",
        "engine": "coq-langid",
    },
}

PENDING_REASON = "not claimed yet: model, theorems and correspondence harness for this property are still being built (see DESIGN.md §5)"
ALL = ["C%02d" % i for i in range(1, 21)]
