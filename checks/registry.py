"""Registration data for MANIFEST.json: every checks/Cnn.py that defines REGISTRY is claimed."""
import importlib
import os

ALL = ["C%02d" % i for i in range(1, 21)]
PENDING_REASON = ("not claimed yet: model, theorems and correspondence harness for this property are still being built "
                  "(see DESIGN.md §5)")
NA = {}
# properties whose check is finished and registered in MANIFEST.json (edited by the lead only)
ENABLED = ["C01", "C02", "C03", "C04", "C05", "C06", "C07", "C08", "C09", "C10", "C11", "C12", "C13", "C14", "C15", "C16", "C17", "C18", "C19", "C20"]
CLAIMED = {}
for pid in ENABLED:
    if os.path.exists(os.path.join(os.path.dirname(os.path.abspath(__file__)), pid + ".py")):
        m = importlib.import_module("checks." + pid)
        if getattr(m, "REGISTRY", None):
            CLAIMED[pid] = m.REGISTRY


def packages():
    seen = []
    for pid in ALL:
        for p in CLAIMED.get(pid, {}).get("packages", []):
            if p not in seen:
                seen.append(p)
    return seen
