"""C05 — plural forms are selected by the locale's CLDR plural rules.
Theorems: coq/theories/Props/C05.v over the model Parser/Plurals.v (+ Runtime/CldrRules.v as reference for the oracle).
Correspondence: harness h_plurals
  * mode parse: the real parse_locales_raw / Locale::is_possible_plural / Locale::merge_plurals (per locale) and the whole
    pipeline on generated project directories; every level of every locale is one Coq case (spec_C05 evaluated on the
    implementation's output);
  * mode rt: td_string!/td!/td_plural! over the fixed plural project (8 locales x all form subsets x cardinal/ordinal)
    for counts 0..=200, large and decimal operands, against the ICU4X table, which is itself compared with CldrRules.v."""
import json
import os
import shutil

from vlib import core

THEOREMS = ["C05_merge_keys", "C05_select", "C05_conflicts", "C05_unused", "C05_spec", "C05_cross", "C05_cross_tree", "C05_cross_pass1", "C05_select_forms",
            "C05_static_select", "C05_static_select_level", "C05_static_other_args", "C05_unused_project",
            "C05_old_refuted", "C05_lone_other_refuted", "C05_panic_old_refuted", "C05_accessor_current_locale", "C05_collision_any_value"]
PROPS = "theories/Props/C05.v"
REGISTRY = {
    "level": "proof",
    "technique": "Coq proof over a Gallina model of merge_plurals/check_forms/plural selection + differential correspondence "
                 "(coqc vm_compute vs the compiled parser and a compiled load_locales! project); CLDR rules of 8 locales as "
                 "arithmetic reference spec compared with the ICU4X table",
    "text": "Theorems C05_merge_keys/C05_select/C05_conflicts/C05_unused/C05_spec/C05_cross (Props/C05.v) hold for every key map "
            "of a locale level, every CLDR oracle (cat, categories) and every count. The model is tied to /repo by running the "
            "real is_possible_plural/merge_plurals/parse pipeline on generated projects and the generated accessors of a fixed "
            "8-locale plural project, evaluating the Coq spec predicates on the implementation's outputs.",
    "design_ref": "DESIGN.md §5 C05",
    "note": "Partial (theorems complete, no axioms): CLDR data itself is an oracle (ICU4X compiled data), independently "
            "re-stated for en fr ru ar pl ja cy he only; generated accessors are observed through one fixed compiled project. "
            "merge_plurals' recursion into sub-keys is not modelled (levels are checked one by one); the cross-locale pass is "
            "modelled at top level only. A plural whose base key is not a Rust identifier (`in_one`/`in_other`) must be an InvalidKey "
            "error; a panic there is reported as a violation.",
    "engine": "coq",
    "packages": [("h_plurals",), ("h_ctx",)],
}
PRE = ("From Coq Require Import List NArith.\nImport ListNotations.\n"
       "From LI Require Import Base.StrOps Parser.Plurals Parser.PluralsCheck.\nOpen Scope N_scope.\n")
PRE_RT = ("From Coq Require Import List NArith ZArith.\nImport ListNotations.\n"
          "From LI Require Import Base.StrOps Parser.Plurals Runtime.CldrRules Runtime.CldrRulesCheck.\nOpen Scope N_scope.\n")

LOCALES = ["en", "fr", "ru", "ar", "pl", "ja", "cy", "he", "pt", "pt-PT"]   # pt-PT: a region that changes the cardinal rule
FORMS = ["zero", "one", "two", "few", "many", "other"]
COQ_FORM = {"zero": "Zero", "one": "One", "two": "Two", "few": "Few", "many": "Many", "other": "Other"}
COQ_RULE = {"cardinal": "Cardinal", "ordinal": "Ordinal"}
BASES = ["a", "b", "a_b", "item", "a_one", "a_ordinal", "ordinal", "a-b", "a_", "x9", "A", "a_other", "b_two"]
BAD_BASES = ["", "_", "in", "type"]           # Key::new(base) is None: the plural they declare is an InvalidKey error
NORMALS = ["k", "title", "a", "b", "item", "one", "other", "a_one", "x_foo", "a_ordinal", "a_other", "a_b", "a_One",
           "ordinal_one", "a_ordinal_x", "b_two", "a_one_other", "zz"]


# ---------------------------------------------------------------- generator (parser level)

class Ids:
    def __init__(self):
        self.n = 0

    def __call__(self):
        self.n += 1
        return self.n


def py_classify(name):
    """independent re-statement of the naming rule: <base>[_ordinal]_<form>"""
    if "_" not in name:
        return None
    base, suf = name.rsplit("_", 1)
    if suf not in FORMS:
        return None
    if base.endswith("_ordinal"):
        return (base[:-len("_ordinal")], "ordinal", suf)
    return (base, "cardinal", suf)


def gen_value(rng, ids, depth, allow_sub):
    r = rng.random()
    if allow_sub and depth < 2 and r < 0.12:
        return ("sub", ids(), gen_level(rng, ids, depth + 1))
    if r < 0.2:
        return ("ranges", ids())
    return ("leaf", ids())


def gen_level(rng, ids, depth, bad_ok=True):
    lvl = {}
    pool = BASES + (BAD_BASES if bad_ok and rng.random() < 0.08 else [])
    for base in rng.sample(pool, rng.choice([1, 1, 2, 2, 3])):
        m = rng.random()
        rules = ["cardinal"] if m < 0.55 else ["ordinal"] if m < 0.87 else ["cardinal", "ordinal"]
        for rule in rules:
            p = rng.choice([0.2, 0.4, 0.7])
            forms = [f for f in FORMS[:5] if rng.random() < p]
            if rng.random() < 0.8:
                forms.append("other")
            for f in forms:
                name = base + ("_ordinal" if rule == "ordinal" else "") + "_" + f
                lvl[name] = gen_value(rng, ids, depth, False) if rng.random() < 0.9 else gen_value(rng, ids, depth, True)
        if rng.random() < 0.25:
            # a key named like the base: collides with the plural if the group is merged - with a value of every kind
            name = base if base not in BAD_BASES else "k"
            r = rng.random()
            if r < 0.5:
                lvl[name] = gen_value(rng, ids, depth, True)
            elif r < 0.9 or py_classify(name) is not None:
                lvl[name] = ("leaf", 0, rng.choice(["empty", "empty", "bool", "var"]))
            else:
                lvl[name] = ("null0", 0)
    for name in rng.sample(NORMALS, rng.choice([0, 1, 2, 3])):
        lvl.setdefault(name, gen_value(rng, ids, depth, True))
    if not lvl:
        lvl["k"] = ("leaf", ids())
    return lvl


def json_value(v):
    kind = v[0]
    if kind == "sub":
        return {k: json_value(x) for k, x in v[2].items()}
    i = v[1]
    if kind == "null0":
        return None
    if kind == "leaf" and len(v) > 2:
        # values without an id (id 0): empty string, bool, a lone variable
        return {"empty": "", "bool": True, "var": "{{ v }}"}[v[2]]
    if kind == "ranges":
        return [["#%d z" % i, 0], ["#%d r" % i, "_"]]
    return ["#%d text" % i, "#%d {{ count }}" % i, "<b>#%d</b>" % i, i][i % 4]


def write_project(d, locales_data, default="en", locales=None):
    shutil.rmtree(d, ignore_errors=True)
    os.makedirs(os.path.join(d, "locales"))
    locales = locales or list(locales_data.keys())
    with open(os.path.join(d, "Cargo.toml"), "w") as fh:
        fh.write('[package]\nname = "p"\nversion = "0.1.0"\nedition = "2021"\n\n[package.metadata.leptos-i18n]\n'
                 'default = "%s"\nlocales = [%s]\n' % (default, ", ".join('"%s"' % l for l in locales)))
    for l in locales:
        with open(os.path.join(d, "locales", l + ".json"), "w") as fh:
            json.dump({k: json_value(v) for k, v in locales_data[l].items()}, fh, ensure_ascii=False)


def corpus_levels():
    """regression inputs, run first: the witnesses of the two suspected defects and shapes the random stream rarely hits"""
    L = lambda i: ("leaf", i)
    return [
        # cardinal + ordinal under one base: `x_one` used to be dropped silently
        {"x_one": L(1), "x_ordinal_one": L(2), "x_ordinal_other": L(3)},
        {"x_other": L(1), "x_ordinal_other": L(2)},
        {"x_one": L(1), "x_other": L(2), "x_ordinal_one": L(3), "x_ordinal_other": L(4)},
        {"x_one": L(1), "x_ordinal_other": L(2)},
        {"x_one": L(1), "x_ordinal_one": L(2)},                     # no `_other`: plain keys, no error
        {"x": L(1), "x_one": L(2), "x_other": L(3)},                # PluralsAtNormalKey
        {"a_one": L(1), "a_one_one": L(2), "a_one_other": L(3)},    # escaped member collides with a later base
        {"a_one": L(1), "a_other": L(4), "a_one_one": L(2), "a_one_other": L(3)},   # both merged: keys a, a_one
        {"x_other": L(1)},                                           # lone `_other`
        {"x_zero": L(1), "x_one": L(2), "x_two": L(3), "x_few": L(4), "x_many": L(5), "x_other": L(6)},
        {"x_ordinal_zero": L(1), "x_ordinal_few": L(4), "x_ordinal_other": L(6), "k": ("sub", 9, {"y_one": L(7), "y_other": L(8)})},
        {"x_one": ("ranges", 1), "x_other": L(2), "x_two": L(3)},   # a range table is never a plural form
        # the base key exists with a value of every kind: PluralsAtNormalKey each time (the empty string is a value too)
        {"x": ("leaf", 0, "empty"), "x_one": L(2), "x_other": L(3)},
        {"x": ("leaf", 0, "empty"), "x_ordinal_two": L(2), "x_ordinal_other": L(3)},
        {"x": ("leaf", 0, "bool"), "x_one": L(2), "x_other": L(3)},
        {"x": ("leaf", 0, "var"), "x_one": L(2), "x_other": L(3)},
        {"x": ("null0", 0), "x_one": L(2), "x_other": L(3)},
        {"x": L(7), "x_one": L(2), "x_other": L(3)},                 # id 7: a number literal
        {"x": ("ranges", 1), "x_few": L(2), "x_other": L(3)},
        {"x": ("sub", 9, {"k": L(1)}), "x_one": L(2), "x_other": L(3)},
        {"s": ("sub", 9, {"x": ("leaf", 0, "empty"), "x_one": L(2), "x_other": L(3)}), "k": L(4)},
        {"x": ("leaf", 0, "empty"), "x_one": L(2)},                  # not merged: the empty value simply stays
        {"in_one": L(1), "in_other": L(2)},                          # base key `in` is a keyword: InvalidKey("in")
        {"_one": L(1), "_other": L(2), "k": L(3)},                   # empty base key
        {"type_ordinal_two": L(1), "type_ordinal_other": L(2)},
        {"in_one": L(1), "k": ("sub", 9, {"in_one": L(2), "in_other": L(3)})},   # the faulty group is in the nested level
    ]


def gen_projects(ctx, n_random):
    rng = ctx.rng
    projects = []
    corpus = corpus_levels()
    for i in range(0, len(corpus), 8):
        chunk = corpus[i:i + 8]
        data = {}
        for j, loc in enumerate(LOCALES):
            data[loc] = chunk[j] if j < len(chunk) else {"k": ("leaf", 99)}
        projects.append(data)
    for _ in range(n_random):
        ids = Ids()
        projects.append({loc: gen_level(rng, ids, 0) for loc in LOCALES})
    return projects


# ---------------------------------------------------------------- Coq terms

def coq_ival(v):
    # `null` (an explicit default) is never a plural candidate, like a range table: modelled as an opaque RangesV 0
    return {"leaf": "(Leaf %d)", "ranges": "(RangesV %d)", "sub": "(SubV %d)", "null0": "(RangesV %d)"}[v[0]] % v[1]


def coq_path(p):
    return core.coq_list([core.coq_str(x) for x in p])


def coq_oval(t, src_level):
    k = t["k"]
    if k == "plural":
        def idof(x):
            return int(x.get("id") or 0) if x["k"] in ("leaf", "ranges") else 0
        forms = core.coq_list(["(%s, %d)" % (COQ_FORM[f], idof(x)) for f, x in t["forms"]])
        return "(PluralV %s %d %s)" % (COQ_RULE[t["rule"]], idof(t["other"]), forms)
    if k == "leaf":
        return "(Kept (Leaf %d))" % int(t.get("id") or 0)
    if k == "ranges":
        return "(Kept (RangesV %d))" % int(t.get("id") or 0)
    if k == "sub":
        return "(Kept (SubV %d))" % t.get("_sid", 0)
    if k == "default":
        return "(Kept (RangesV 0))"
    return "(Kept (Leaf 0))"


def level_cases(loc, cats, src, raw, out, warns, impl_err, impl_panic, path, acc, meta_base):
    """one Coq case per level of a locale; returns False when the raw tree does not have the generated shape"""
    names = sorted(src.keys(), key=lambda s: s.encode())
    if [r[0] for r in raw] != names:
        return False
    tags, bad = [], []
    py_tag_mismatch = None
    for (name, rt, pp) in raw:
        v = src[name]
        if pp is None:
            tags.append("None")
        else:
            tags.append("(Some (%s, %s, %s))" % (core.coq_str(pp[0]), COQ_RULE[pp[1]], COQ_FORM[pp[2]]))
            if not pp[3] and pp[0] not in bad:
                bad.append(pp[0])
        mine = py_classify(name) if v[0] == "leaf" else None
        theirs = (pp[0], pp[1], pp[2]) if pp is not None else None
        if mine != theirs:
            py_tag_mismatch = {"key": name, "python": mine, "is_possible_plural": theirs}
    keys = core.coq_list(["(%s, %s)" % (core.coq_str(n), coq_ival(src[n])) for n in names])
    if impl_panic:
        impl = "(Some RPanic)"
    elif impl_err is not None and impl_err["kind"] == "InvalidKey":
        # InvalidKey(base) carries no key path: offered to every level that has this base key; `check` answers 5 where the
        # base is not a merged group of the level
        impl = "(Some (RErr EInvalid %s))" % coq_path([impl_err["key"]]) if impl_err.get("key") in bad else "None"
    elif impl_err is not None:
        if impl_err.get("path", [None])[:-1] == path and impl_err["kind"] in ("ConflictingPluralRuleType", "PluralsAtNormalKey"):
            impl = "(Some (RErr %s %s))" % ("EConflict" if impl_err["kind"] == "ConflictingPluralRuleType" else "ECollide",
                                            coq_path(impl_err["path"]))
        else:
            impl = "None"
    else:
        outd = []
        for (name, t) in out:
            if t["k"] == "sub":
                t = dict(t)
                t["_sid"] = src[name][1] if name in src and src[name][0] == "sub" else 0
            outd.append("(%s, %s)" % (core.coq_str(name), coq_oval(t, src)))
        ws = ["(%s, %s, %s)" % (coq_path(w[2]), COQ_FORM[w[3]], COQ_RULE[w[4]])
              for w in warns if w[0] == "UnusedForm" and w[2][:-1] == path]
        impl = "(Some (ROk %s %s))" % (core.coq_list(outd), core.coq_list(ws))
    cc = core.coq_list([COQ_FORM[f] for f in cats["c"]])
    co = core.coq_list([COQ_FORM[f] for f in cats["o"]])
    acc.append(("(mk_case %s %s %s %s %s %s %s)" % (coq_path(path), core.coq_list([core.coq_str(b) for b in bad]), cc, co, keys,
                                                    core.coq_list(tags), impl),
                dict(meta_base, path=path, keys={n: list(src[n][:2]) + (list(src[n][2:3]) if src[n][0] == "leaf" else []) for n in names}, py_tag_mismatch=py_tag_mismatch,
                     observed=impl != "None")))
    ok = True
    for (name, rt, pp) in raw:
        if src[name][0] == "sub":
            sub_out = None
            if out is not None:
                sub_out = next((t["keys"] for (n, t) in out if n == name and t["k"] == "sub"), [])
            if rt["k"] != "sub":
                return False
            ok = level_cases(loc, cats, src[name][2], rt["keys"], sub_out, warns, impl_err, impl_panic, path + [name], acc,
                             meta_base) and ok
    return ok


# ---------------------------------------------------------------- runtime level

def parse_rt(out):
    rt = {"C": {}, "T": {}, "P": {}, "S": {}, "H": {}, "O": {}, "F": {}}
    for line in out.split("\n"):
        if not line:
            continue
        tag, _, rest = line.partition(" ")
        if tag == "N":
            rt["N"] = [int(x) for x in rest.split(",")]
        elif tag == "D":
            rt["D"] = rest.split(",")
        elif tag in ("C", "T", "P"):
            loc, r, body = rest.split(" ", 2)
            rt[tag][(loc, r)] = body
        elif tag == "F":
            loc, rkey, pk, n, text = rest.split(" ", 4)
            rt["F"].setdefault((loc, pk), []).append((int(n), text))
        elif tag in ("S", "H", "O"):
            loc, key, body = rest.split(" ", 2)
            rt[tag][(loc, key)] = body.split("\x1f")
    return rt


def dec_operand(s):
    """CLDR operands of a decimal string: (i, v, w, f, t)"""
    ip, _, fp = s.partition(".")
    v = len(fp)
    ft = fp.rstrip("0")
    return (int(ip), v, len(ft), int(fp) if fp else 0, int(ft) if ft else 0)


def fixed_forms(key):
    if key == "solo":
        return ["one", "other"]
    mask = int(key[1:])
    return [f for i, f in enumerate(FORMS[:5]) if mask >> i & 1] + ["other"]


def run_runtime(ctx, exe, findings):
    rc, out, err = core.sh([exe, "rt"], timeout=600)
    if rc != 0:
        raise core.Infra("h_plurals rt failed: " + err[-400:])
    rt = parse_rt(out)
    ns, ds = rt["N"], rt["D"]
    n_take = len(ns) if not ctx.quick else len(ns)
    res = {"oracle_mismatch": [], "select_fail": [], "plural_macro_fail": [], "renderings": 0, "table_entries": 0, "panics": []}
    # 1. ICU4X table vs CldrRules.v
    items, meta = [], []
    ops_int = core.coq_list(["(op_int %d)" % n for n in ns])
    ops_dec = core.coq_list(["(mk_op %d %d %d %d %d)" % dec_operand(d) for d in ds])
    pre = PRE_RT + "Definition OPS_ := %s ++ %s.\n" % (ops_int, ops_dec)
    for li, loc in enumerate(LOCALES):
        for r in ("c", "o"):
            t1, t2 = rt["T"][(loc, r)].split("|")
            table = t1.split(",") + t2.split(",")
            cats = rt["C"][(loc, r)].split(",")
            items.append("(mk_tcase L_%s %s OPS_ %s %s)" % (loc.replace("-", "_"), "Cardinal" if r == "c" else "Ordinal",
                                                           core.coq_list([COQ_FORM[c] for c in table]),
                                                           core.coq_list([COQ_FORM[c] for c in cats])))
            meta.append((loc, r, table, cats))
            res["table_entries"] += len(table)
    codes = core.coq_eval(ctx, "c05t_%d" % os.getpid(), pre, items, "check_table", min_per_shard=2)
    for (loc, r, table, cats), c in zip(meta, codes):
        if c != 0:
            # c-1 = index of the first differing operand, or 100000 = categories() differ
            idx = c - 1
            res["oracle_mismatch"].append({"locale": loc, "rule": r,
                                           "operand": (ns + ds)[idx] if idx < len(ns) + len(ds) else "categories()",
                                           "icu4x": table[idx] if idx < len(table) else cats})
    # 1b. regional / script variants whose ICU4X rules differ from their bare language's must be represented in the fixture
    rc, vout, err = core.sh([exe, "variants"], timeout=300)
    vt = {}
    for line in vout.split("\n"):
        if line.startswith("V "):
            _, var, who, r, body = line.split(" ", 4)
            vt[(var, who, r)] = body
    fixture = {}
    for loc in LOCALES:
        for r in ("c", "o"):
            fixture[(loc, r)] = rt["T"][(loc, r)].replace("|", ",")
    res["variants_examined"] = len({v for (v, _, _) in vt})
    res["variants_differing"], res["script_variants_with_root_rules"], res["variants_not_in_fixture"] = [], [], []
    for (var, who, r), body in sorted(vt.items()):
        if var != who or var == "und":
            continue
        lang = var.split("-")[0]
        if body == vt[(var, lang, r)]:
            continue
        res["variants_differing"].append("%s(%s)" % (var, r))
        if any(body == fixture.get((f, r)) for f in LOCALES if f.split("-")[0] == lang and f != lang):
            continue                                    # same table as a fixture locale of that language (pt-AO = pt-PT)
        if body == vt[("und", "und", r)]:
            # ICU4X resolves a variant whose (likely) script is not the language's default script - CLDR parent: root -
            # to the ROOT rules (sr-Latn, sr-ME, uz-Cyrl, ..): recorded as a finding, see the evidence
            res["script_variants_with_root_rules"].append("%s(%s)" % (var, r))
            continue
        res["variants_not_in_fixture"].append({"variant": var, "rule": r})
    # 2. td_plural!/td_plural_ordinal! = the table
    for loc in LOCALES:
        for r in ("c", "o"):
            table = rt["T"][(loc, r)].split("|")[0].split(",")
            body = rt["P"][(loc, r)]
            if body == "PANIC":
                res["panics"].append(("td_plural", loc, r))
                continue
            p1, p2 = [x.split(",") for x in body.split("|")]
            for n, c, a, b in zip(ns, table, p1, p2):
                res["renderings"] += 2
                if a != c or b != (c if c in ("one", "few") else "fallback"):
                    res["plural_macro_fail"].append({"locale": loc, "rule": r, "count": n, "category": c, "full_arms": a,
                                                     "partial_arms": b})
    # 3. rendered form of every key = spec (written form of the category, else other), evaluated in Coq
    items, meta = [], []
    keys = sorted({k for (_, k) in rt["S"]})
    for loc in LOCALES:
        for key in keys:
            r = "o" if key.startswith("o") else "c"
            t1, t2 = rt["T"][(loc, r)].split("|")
            forms = fixed_forms(key)
            if key == "solo" and loc == "ja":
                forms = ["other"]
            for kind, table, got, opnds in (("S", t1.split(","), rt["S"][(loc, key)], ns),
                                            ("H", t1.split(",")[:41], rt["H"][(loc, key)], ns[:41]),
                                            ("O", t2.split(","), rt["O"].get((loc, key)), ds)):
                if got is None:
                    continue
                if got == ["PANIC"]:
                    res["panics"].append((kind, loc, key))
                    continue
                rendered = []
                for g, n in zip(got, opnds):
                    parts = g.split("|")
                    res["renderings"] += 1
                    # text = <locale>|<key>|<form>[|count]; anything else (other locale's text, other key) is form 'X'
                    okp = len(parts) >= 3 and parts[0] == loc and parts[1] == key and parts[2] in FORMS
                    if okp and len(parts) > 3:
                        okp = parts[3].replace("<!>", "") == str(n)
                    rendered.append(COQ_FORM[parts[2]] if okp else "None")
                items.append("(mk_rcase %s %s %s)" % (
                    core.coq_list([COQ_FORM[f] for f in forms]), core.coq_list([COQ_FORM[c] for c in table]),
                    core.coq_list(["(Some %s)" % x if x != "None" else "None" for x in rendered])))
                meta.append({"locale": loc, "key": key, "accessor": {"S": "td_string!", "H": "td!(..).to_html()",
                                                                     "O": "td_string! with decimal PluralOperands"}[kind],
                             "written_forms": forms, "operands": opnds, "table": table, "got": got})
    # 4. `$t(key, {"count": N})` keys of the compiled project: selected while load_locales! runs, for the referencing locale
    for (loc, key), rows in sorted(rt["F"].items()):
        r = "o" if key.startswith("o") else "c"
        t1 = rt["T"][(loc, r)].split("|")[0].split(",")
        forms = fixed_forms(key)
        table, rendered, opnds, got = [], [], [], []
        for n, text in rows:
            res["renderings"] += 1
            parts = text.split("|")
            okp = len(parts) >= 3 and parts[0] == loc and parts[1] == key and parts[2] in FORMS
            # the same text as the run-time selection for that count
            if okp and text != rt["S"][(loc, key)][ns.index(n)]:
                okp = False
            table.append(t1[ns.index(n)])
            rendered.append("(Some %s)" % COQ_FORM[parts[2]] if okp else "None")
            opnds.append(n)
            got.append(text)
        items.append("(mk_rcase %s %s %s)" % (core.coq_list([COQ_FORM[f] for f in forms]),
                                              core.coq_list([COQ_FORM[c] for c in table]), core.coq_list(rendered)))
        meta.append({"locale": loc, "key": key, "accessor": "td_string!(locale, r<key>_<N>) where r<key>_<N> = $t(<key>, {\"count\": N})",
                     "written_forms": forms, "operands": opnds, "table": table, "got": got})
    codes = core.coq_eval(ctx, "c05r_%d" % os.getpid(), PRE_RT, items, "check_render", min_per_shard=20)
    for m, c in zip(meta, codes):
        if c != 0:
            i = c - 1
            res["select_fail"].append({"locale": m["locale"], "key": m["key"], "accessor": m["accessor"],
                                       "written_forms": m["written_forms"], "count": m["operands"][i],
                                       "cldr_category": m["table"][i], "rendered_text": m["got"][i],
                                       "explanation": "the rendered text is not the form written for the CLDR category of this "
                                                      "count in this locale (nor `_other` when that form was not written)"})
    res["rt_cases"] = len(items)
    return res


# ---------------------------------------------------------------- parse-time selection: $t(plural, {"count": N})

STATIC_INTS = list(range(0, 31)) + [100, 101, 111, 1000000, 1000001]
STATIC_NEG = [-1, -2, -11]             # ICU4X `From<i64> for PluralOperands` takes the absolute value
STATIC_DEC = ["0.5", "1.5", "2.5", "3.14"]


def run_static(ctx, exe, rt):
    """projects whose locales reference their plural keys with a literal count; the final value of every reference after the
    whole pipeline must be the form CLDR assigns to that count FOR THAT LOCALE (spec_static, evaluated in Coq)"""
    rng = ctx.rng
    ns, ds = rt["N"], rt["D"]
    counts = [(str(n), ns.index(n), 0) for n in STATIC_INTS] + [(str(n), ns.index(-n), 0) for n in STATIC_NEG] + \
             [(d, ds.index(d), 1) for d in STATIC_DEC]
    nkeys = 6 if ctx.quick else 32
    start = rng.randrange(32)
    projects = []
    per_project = 4
    keys_all = [(i, r) for i in range(nkeys) for r in ("c", "o")]
    ids = Ids()
    for off in range(0, len(keys_all), per_project):
        proj = {"keys": keys_all[off:off + per_project], "files": {l: {} for l in LOCALES}, "written": {}}
        for (i, r) in proj["keys"]:
            pk = "p%s%d" % (r, i)
            for j, loc in enumerate(LOCALES):
                mask = (start + i + 5 * j) % 32
                forms = [f for b, f in enumerate(FORMS[:5]) if mask >> b & 1] + ["other"]
                w = []
                for f in forms:
                    fid = ids()
                    proj["files"][loc]["%s%s_%s" % (pk, "_ordinal" if r == "o" else "", f)] = "#%d %s" % (fid, f)
                    w.append((f, fid))
                proj["written"][(loc, pk)] = w
                for ci, (lit, _, _) in enumerate(counts):
                    proj["files"][loc]["r%s%d_n%d" % (r, i, ci)] = "$t(%s, {\"count\": %s})" % (pk, lit)
        projects.append(proj)
    root = os.path.join(ctx.work, "static_%d" % os.getpid())
    shutil.rmtree(root, ignore_errors=True)
    dirs = []
    for k, proj in enumerate(projects):
        d = os.path.join(root, "s%d" % k)
        os.makedirs(os.path.join(d, "locales"))
        with open(os.path.join(d, "Cargo.toml"), "w") as fh:
            fh.write('[package]\nname = "p"\nversion = "0.1.0"\nedition = "2021"\n\n[package.metadata.leptos-i18n]\n'
                     'default = "en"\nlocales = [%s]\n' % ", ".join('"%s"' % l for l in LOCALES))
        for loc in LOCALES:
            with open(os.path.join(d, "locales", loc + ".json"), "w") as fh:
                json.dump(proj["files"][loc], fh)
        dirs.append(d)
    # error paths and renaming, one tiny project each: (count literal, expected)
    other_args = [('"abc"', "InvalidCountArg"), ("true", "InvalidCountArg"), ('"x {{ n }}"', "InvalidCountArg"),
                  ('"<b>{{ n }}</b>"', "InvalidCountArg"), ('" {{ n }} "', "rename:var_n"), ('"{{ n }}"', "rename:var_n")]
    for k, (lit, exp) in enumerate(other_args):
        d = os.path.join(root, "e%d" % k)
        os.makedirs(os.path.join(d, "locales"))
        with open(os.path.join(d, "Cargo.toml"), "w") as fh:
            fh.write('[package]\nname = "p"\nversion = "0.1.0"\nedition = "2021"\n\n[package.metadata.leptos-i18n]\n'
                     'default = "en"\nlocales = ["en", "fr"]\n')
        for loc in ("en", "fr"):
            f = {"p_one": "#1 one", "p_other": "#2 other", "bad": "plain"}
            if loc == "fr":
                f["bad"] = "$t(p, {\"count\": %s})" % lit
            with open(os.path.join(d, "locales", loc + ".json"), "w") as fh:
                json.dump(f, fh)
        dirs.append(d)
    rc, out, err = core.sh([exe, "parse"], input="".join(d + "\n" for d in dirs), timeout=900)
    lines = out.splitlines()
    if rc != 0 or len(lines) != len(dirs):
        raise core.Infra("h_plurals parse (static): %d lines for %d projects; %s" % (len(lines), len(dirs), err[-400:]))
    res = {"cases": 0, "references": 0, "fail": [], "disagree": [], "pipeline_problems": [], "other_args_fail": []}
    items, meta = [], []
    for proj, line in zip(projects, lines):
        pipe = json.loads(line).get("pipeline")
        if not isinstance(pipe, dict) or "ok" not in pipe:
            res["pipeline_problems"].append({"keys": proj["keys"], "pipeline": pipe})
            continue
        for lo in pipe["ok"]["final"]:
            loc = lo["name"]
            final = {n: t for n, t in lo["keys"]}
            for (i, r) in proj["keys"]:
                pk = "p%s%d" % (r, i)
                t1, t2 = rt["T"][(loc, r)].split("|")
                tables = (t1.split(","), t2.split(","))
                table, got = [], []
                for ci, (lit, idx, which) in enumerate(counts):
                    table.append(tables[which][idx])
                    t = final.get("r%s%d_n%d" % (r, i, ci))
                    got.append(int(t["id"]) if t and t.get("k") == "leaf" and t.get("id") else None)
                w = proj["written"][(loc, pk)]
                items.append("(mk_scase %s %s %s)" % (
                    core.coq_list(["(%s, %d)" % (COQ_FORM[f], fid) for f, fid in w]),
                    core.coq_list([COQ_FORM[c] for c in table]),
                    core.coq_list(["(Some %d)" % g if g is not None else "None" for g in got])))
                meta.append({"locale": loc, "default_locale": "en", "plural_key": pk, "rule": "cardinal" if r == "c" else "ordinal",
                             "written_forms": {f: fid for f, fid in w}, "counts": [c[0] for c in counts],
                             "cldr_category_for_this_locale": table, "final_value_ids": got})
                res["references"] += len(counts)
    codes = core.coq_eval(ctx, "c05s_%d" % os.getpid(), PRE, items, "check_static", min_per_shard=20)
    res["cases"] = len(items)
    for m, c in zip(meta, codes):
        if c == 3:
            byid = {v: k for k, v in m["written_forms"].items()}
            bad = [(cnt, cat, byid.get(g, g)) for cnt, cat, g in zip(m["counts"], m["cldr_category_for_this_locale"], m["final_value_ids"])
                   if byid.get(g) != (cat if cat in m["written_forms"] else "other")]
            m = dict(m, first_wrong=[{"count": b[0], "cldr_category": b[1], "form_selected_at_parse_time": b[2]} for b in bad[:4]],
                     explanation="`$t(%s, {\"count\": N})` in locale %s was resolved to a form that is not the one CLDR assigns to N "
                                 "for %s (parse-time selection, Plurals::populate_with_count_arg)" % (m["plural_key"], m["locale"], m["locale"]))
            res["fail"].append(m)
        elif c == 2:
            res["disagree"].append(m)
    for (lit, exp), line in zip(other_args, lines[len(projects):]):
        o = json.loads(line)
        pipe = o.get("pipeline")
        got = None
        if isinstance(pipe, dict) and "err" in pipe:
            e = pipe["err"]
            got = e["kind"] if (e.get("locale") == "fr" and e.get("path") == ["bad"]) or e["kind"] != "InvalidCountArg" \
                else "InvalidCountArg naming locale %s key %s" % (e.get("locale"), e.get("path"))
        elif isinstance(pipe, dict) and "ok" in pipe:
            fr = next(l for l in pipe["ok"]["final"] if l["name"] == "fr")
            t = dict((n, t) for n, t in fr["keys"]).get("bad")
            got = "rename:%s" % t.get("count") if t and t.get("k") == "plural" else "value:%s" % json.dumps(t)
        else:
            got = pipe
        if got != exp:
            res["other_args_fail"].append({"count_argument": lit, "expected": exp, "got": got})
    shutil.rmtree(root, ignore_errors=True)
    return res


# ---------------------------------------------------------------- UnusedForm warnings of whole projects

def gen_unused_tree(rng, depth=0):
    """skeleton shared by all locales: plural bases (with a rule type) and sub-objects"""
    tree = []
    for base in rng.sample(["a", "b", "item", "x9", "n"], rng.choice([2, 3, 4])):
        tree.append(("plural", base, rng.choice(["cardinal", "cardinal", "ordinal"])))
    if depth < 3:
        for name in rng.sample(["s1", "s2"], rng.choice([0, 1, 2] if depth == 0 else [0, 1, 1] if depth == 1 else [0, 1])):
            tree.append(("sub", name, gen_unused_tree(rng, depth + 1)))
    return tree


def realize_unused_tree(rng, tree, ids, is_default):
    """one locale's version of the skeleton: its own form subsets (possibly `_other` alone), some keys absent"""
    lvl = {"k": ("leaf", ids())}
    for e in tree:
        if e[0] == "sub":
            lvl[e[1]] = ("sub", ids(), realize_unused_tree(rng, e[2], ids, is_default))
            continue
        _, base, rule = e
        if rng.random() < 0.15:
            continue                                    # not declared by this locale (maybe first declared by a later one)
        if rng.random() < 0.1:
            rule = "ordinal" if rule == "cardinal" else "cardinal"
        mask = rng.choice([0, 0, rng.randrange(32), rng.randrange(32), rng.randrange(32), 31])
        for f in [f for b, f in enumerate(FORMS[:5]) if mask >> b & 1] + ["other"]:
            lvl[base + ("_ordinal" if rule == "ordinal" else "") + "_" + f] = ("leaf", ids())
    return lvl


def unused_levels(lvl, path, out):
    out.append((path, lvl))
    for name, v in lvl.items():
        if v[0] == "sub":
            unused_levels(v[2], path + [name], out)


def run_unused(ctx, exe, cats):
    """multi-locale projects (same plural keys in several locales with different unused forms, nested, namespaces, lone
    `_other`): the UnusedForm warnings of LocalesOrNamespaces::merge_plurals and of the whole parse_locales pipeline must be,
    for every locale and level, exactly expected_warnings of the model (check_unused, Coq)"""
    rng = ctx.rng
    n = 12 if ctx.quick else 120
    root = os.path.join(ctx.work, "unused_%d" % os.getpid())
    shutil.rmtree(root, ignore_errors=True)
    projects, dirs = [], []
    for k in range(n):
        ids = Ids()
        locs = rng.sample(LOCALES, rng.choice([3, 4, 8]))
        nss = ["ns1", "ns2"] if rng.random() < 0.3 else [None]
        trees = {ns: gen_unused_tree(rng) for ns in nss}
        data = {ns: {l: realize_unused_tree(rng, trees[ns], ids, j == 0) for j, l in enumerate(locs)} for ns in nss}
        if k == 0:                                      # corpus: the witness of the "first locale only" defect
            locs, nss = ["en", "fr", "ja"], [None]
            L = lambda i: ("leaf", i)
            data = {None: {"en": {"x_one": L(1), "x_other": L(2)},
                           "fr": {"x_one": L(3), "x_few": L(4), "x_other": L(5), "y_ordinal_two": L(6), "y_ordinal_other": L(7)},
                           "ja": {"x_one": L(8), "x_other": L(9), "y_ordinal_other": L(10)}}}
        d = os.path.join(root, "u%d" % k)
        os.makedirs(os.path.join(d, "locales"))
        with open(os.path.join(d, "Cargo.toml"), "w") as fh:
            fh.write('[package]\nname = "p"\nversion = "0.1.0"\nedition = "2021"\n\n[package.metadata.leptos-i18n]\n'
                     'default = "%s"\nlocales = [%s]\n%s' % (locs[0], ", ".join('"%s"' % l for l in locs),
                                                            'namespaces = ["ns1", "ns2"]\n' if nss[0] else ""))
        for l in locs:
            for ns in nss:
                content = {kk: json_value(v) for kk, v in data[ns][l].items()}
                if ns:
                    os.makedirs(os.path.join(d, "locales", l), exist_ok=True)
                    fn = os.path.join(d, "locales", l, ns + ".json")
                else:
                    fn = os.path.join(d, "locales", l + ".json")
                with open(fn, "w") as fh:
                    json.dump(content, fh)
        projects.append((locs, nss, data))
        dirs.append(d)
    rc, out, err = core.sh([exe, "parse"], input="".join(d + "\n" for d in dirs), timeout=900)
    lines = out.splitlines()
    if rc != 0 or len(lines) != len(dirs):
        raise core.Infra("h_plurals parse (unused): %d lines for %d projects; %s" % (len(lines), len(dirs), err[-400:]))
    res = {"cases": 0, "fail": [], "disagree": [], "problems": [], "warnings_seen": 0, "unattributed": [],
           "tree_projects": 0, "tree_levels": 0, "tree_fail": [], "tree_disagree": []}
    items, meta = [], []
    titems, tmeta = [], []
    def names_tree(lvl):
        return {k: (names_tree(v[2]) if v[0] == "sub" else None) for k, v in lvl.items()}

    for pi, ((locs, nss, data), line) in enumerate(zip(projects, lines)):
        o = json.loads(line)
        pm, pipe = o.get("project_merge"), o.get("pipeline")
        if not (isinstance(pm, dict) and "ok" in pm and isinstance(pipe, dict) and "ok" in pipe):
            res["problems"].append({"locales": locs, "namespaces": nss, "project_merge": pm if not isinstance(pm, dict) or "ok" not in pm else "ok",
                                    "pipeline": pipe if not isinstance(pipe, dict) or "ok" not in pipe else "ok"})
            continue
        # the merged key tree at every depth, against the two-pass tree model (check_cross_tree)
        impl_by = {(x.get("ns"), x["name"]): x["keys"] for x in pm["ok"]}
        tlevels, touts = [], []
        for ns in nss:
            for l in locs:
                lv = []
                unused_levels(data[ns][l], [ns + "::"] if ns else [], lv)
                for path, lvl in lv:
                    names = sorted(lvl.keys(), key=lambda x: x.encode())
                    tlevels.append("(%s, %s)" % (coq_path(path) if path else "(@nil str)", core.coq_list(
                        ["(%s, %s)" % (core.coq_str(nm), coq_ival(lvl[nm])) for nm in names])))
                    out = impl_by.get((ns, l), [])
                    for name in path[(1 if ns else 0):]:
                        out = next((t["keys"] for (n2, t) in out if n2 == name and t["k"] == "sub"), [])
                    outd = []
                    for (nm, t) in out:
                        if t["k"] == "sub":
                            t = dict(t)
                            t["_sid"] = lvl[nm][1] if nm in lvl and lvl[nm][0] == "sub" else 0
                        outd.append("(%s, %s)" % (core.coq_str(nm), coq_oval(t, lvl)))
                    touts.append(core.coq_list(outd) if outd else "(@nil (str * oval))")
        titems.append("(%s, Some %s)" % (core.coq_list(tlevels), core.coq_list(touts)))
        tmeta.append({"_pi": pi, "levels": len(tlevels)})
        wm = [w for w in pm.get("warnings", []) if w[0] == "UnusedForm"]
        wp = [w for w in o.get("warnings", []) if w[0] == "UnusedForm"]
        res["warnings_seen"] += len(wm) + len(wp)
        known_levels = set()
        for ns in nss:
            for l in locs:
                lv = []
                unused_levels(data[ns][l], [ns + "::"] if ns else [], lv)
                for path, lvl in lv:
                    known_levels.add((l, tuple(path)))
                    names = sorted(lvl.keys(), key=lambda x: x.encode())
                    keys = core.coq_list(["(%s, %s)" % (core.coq_str(nm), coq_ival(lvl[nm])) for nm in names])

                    def sel(ws):
                        return core.coq_list(["(%s, %s, %s)" % (coq_path(w[2]), COQ_FORM[w[3]], COQ_RULE[w[4]])
                                              for w in ws if w[1] == l and w[2][:-1] == path])
                    items.append("(mk_ucase %s %s %s %s %s %s)" % (
                        coq_path(path), core.coq_list([COQ_FORM[f] for f in cats[l]["c"]]),
                        core.coq_list([COQ_FORM[f] for f in cats[l]["o"]]), keys, sel(wm), sel(wp)))
                    meta.append({"_pi": pi, "locale": l, "locales_of_project": locs, "default": locs[0], "namespace": ns, "path": path,
                                 "keys": names,
                                 "unused_warnings_of_merge_plurals": [w[2:] for w in wm if w[1] == l and w[2][:-1] == path],
                                 "unused_warnings_of_parse_locales": [w[2:] for w in wp if w[1] == l and w[2][:-1] == path]})
        for w in wm + wp:
            if (w[1], tuple(w[2][:-1])) not in known_levels:
                res["unattributed"].append(w)
    tcodes = core.coq_eval(ctx, "c05tr_%d" % os.getpid(), PRE, titems, "check_cross_tree", min_per_shard=2)
    res["tree_projects"], res["tree_levels"] = len(titems), sum(m["levels"] for m in tmeta)
    for m, c in zip(tmeta, tcodes):
        if c in (2, 3):
            locs, nss, data = projects[m["_pi"]]
            entry = {"locales": locs, "default": locs[0], "namespaces": nss,
                     "keys": {str(ns): {l: names_tree(data[ns][l]) for l in locs} for ns in nss}}
            (res["tree_fail"] if c == 3 else res["tree_disagree"]).append(entry)
    codes = core.coq_eval(ctx, "c05u_%d" % os.getpid(), PRE, items, "check_unused", min_per_shard=20)
    res["cases"] = len(items)
    for m, it, c in zip(meta, items, codes):
        locs, nss, data = projects[m["_pi"]]
        if c in (2, 3):
            m = dict(m, project={"locales": locs, "namespaces": nss,
                                 "keys": {str(ns): {l: names_tree(data[ns][l]) for l in locs} for ns in nss}})
        if c == 3:
            res["fail"].append(m)
        elif c == 2:
            res["disagree"].append(m)
    shutil.rmtree(root, ignore_errors=True)
    return res


# ---------------------------------------------------------------- cross-locale (lone `_other`)

def cross_projects(ctx):
    """every locale writes every base with its own subset of forms containing `_other` (possibly `_other` alone)"""
    rng = ctx.rng
    out = []
    # corpus: the witness
    out.append({"en": {"x_one": ("leaf", 1), "x_other": ("leaf", 2)}, "ja": {"x_other": ("leaf", 3)}})
    out.append({"ja": {"x_other": ("leaf", 3)}, "en": {"x_one": ("leaf", 1), "x_other": ("leaf", 2)}})
    out.append({"en": {"x_ordinal_one": ("leaf", 1), "x_ordinal_other": ("leaf", 2)}, "fr": {"x_ordinal_other": ("leaf", 3)}})
    out.append({"en": {"x_one": ("leaf", 1), "x_other": ("leaf", 2)}, "ja": {"x_other": ("leaf", 3), "x": ("leaf", 4)}})   # collision
    out.append({"en": {"x_one": ("leaf", 1), "x_other": ("leaf", 2)}, "ja": {"x_ordinal_other": ("leaf", 3)}})          # other rule type
    out.append({"en": {"x_one": ("leaf", 1), "x_other": ("leaf", 2), "some_other": ("leaf", 5)},
                "ja": {"x_other": ("leaf", 3), "some_other": ("leaf", 4)}})                                               # `some_other` stays
    out.append({"en": {"a_other_one": ("leaf", 1), "a_other_other": ("leaf", 2), "a_other": ("leaf", 6)},
                "fr": {"a_one": ("leaf", 3), "a_other": ("leaf", 4)}})
    for _ in range(40 if ctx.quick else 400):
        ids = Ids()
        locs = rng.sample(LOCALES, rng.choice([2, 3, 8]))
        bases = rng.sample(["a", "b", "item", "x"], rng.choice([1, 2]))
        rules = {b: rng.choice(["cardinal", "ordinal"]) for b in bases}
        data = {}
        for l in locs:
            lvl = {}
            for b in bases:
                forms = [f for f in FORMS[:5] if rng.random() < 0.3] + ["other"]
                for f in forms:
                    lvl[b + ("_ordinal" if rules[b] == "ordinal" else "") + "_" + f] = ("leaf", ids())
            data[l] = lvl
        out.append(data)
    return out


def run(ctx):
    from checks import isolate
    isolate.enter(ctx)
    bindir = core.cargo_build("h_plurals")
    ok, problems = core.coq_audit(ctx, PROPS, THEOREMS)
    exe = os.path.join(bindir, "h_plurals")
    known = [f for f in core.load_known("C05") if f.get("status") == "known"]

    # ---------------- parser level
    rc, out, err = core.sh([exe, "rt"], timeout=600)
    if rc != 0:
        raise core.Infra("h_plurals rt failed: " + err[-400:])
    cats = {}
    for line in out.split("\n"):
        if line.startswith("C "):
            _, loc, r, body = line.split(" ", 3)
            cats.setdefault(loc, {})[r] = body.split(",")
    projects = gen_projects(ctx, 40 if ctx.quick else 1200)
    dirs = []
    root = os.path.join(ctx.work, "proj_%d" % os.getpid())
    shutil.rmtree(root, ignore_errors=True)
    for i, data in enumerate(projects):
        d = os.path.join(root, "p%d" % i)
        write_project(d, data, locales=LOCALES)
        dirs.append(d)
    rc, out, err = core.sh([exe, "parse"], input="".join(d + "\n" for d in dirs), timeout=900)
    lines = out.splitlines()
    if rc != 0 or len(lines) != len(dirs):
        raise core.Infra("h_plurals parse: %d lines for %d projects; %s" % (len(lines), len(dirs), err[-400:]))
    acc, shape_problems, locale_results = [], [], []
    for pi, (data, line) in enumerate(zip(projects, lines)):
        obj = json.loads(line)
        if "locales" not in obj:
            shape_problems.append({"project": pi, "load": obj})
            continue
        for lo in obj["locales"]:
            loc = lo["name"]
            m = lo["merge"]
            impl_panic = m == "PANIC"
            impl_err = m.get("err") if isinstance(m, dict) else None
            outl = m.get("ok") if isinstance(m, dict) else None
            start = len(acc)
            good = level_cases(loc, cats[loc], data[loc], lo["raw"], outl, lo["warnings"], impl_err, impl_panic, [], acc,
                               {"project": pi, "locale": loc, "impl_merge": m if not isinstance(m, dict) or "ok" not in m else "ok"})
            if not good:
                shape_problems.append({"project": pi, "locale": loc, "raw": lo["raw"]})
            locale_results.append((pi, loc, start, len(acc), impl_panic, impl_err))
    codes = core.coq_eval(ctx, "c05_%d" % os.getpid(), PRE, [a for a, _ in acc], "check")
    metas = [m for _, m in acc]
    bad_spec = [dict(m, code=c) for m, c in zip(metas, codes) if c == 3 and m.get("impl_merge") != "PANIC"]
    panic_spec = [dict(m, code=c) for m, c in zip(metas, codes) if c == 3 and m.get("impl_merge") == "PANIC"]
    disagree = [dict(m, code=c) for m, c in zip(metas, codes) if c == 2]
    py_mismatch = [m for m in metas if m["py_tag_mismatch"]]
    unexplained_panics, invalid_key_errors = [], 0
    for (pi, loc, a, b, impl_panic, impl_err) in locale_results:
        if impl_panic:
            if not any(codes[i] == 3 for i in range(a, b)):
                unexplained_panics.append({"project": pi, "locale": loc, "levels": [metas[i] for i in range(a, b)]})
        elif impl_err is not None and impl_err["kind"] == "InvalidKey":
            invalid_key_errors += 1
            if not any(metas[i]["observed"] and codes[i] in (0, 2) for i in range(a, b)):
                disagree.append({"project": pi, "locale": loc, "impl_error_not_attributable_to_a_level": impl_err,
                                 "levels": [metas[i] for i in range(a, b)][:3]})
        elif impl_err is not None and not any(metas[i]["observed"] for i in range(a, b)):
            disagree.append({"project": pi, "locale": loc, "impl_error_not_attributable_to_a_level": impl_err})
    # which algorithm does /repo run? (informational: the pre-fix model is kept as merge_level_old)
    sample_old = [a for a, m in acc[:200]]
    codes_old = core.coq_eval(ctx, "c05o_%d" % os.getpid(), PRE, sample_old, "check_old") if sample_old else []

    # ---------------- cross-locale: lone `_other`
    cps = cross_projects(ctx)
    cdirs = []
    for i, data in enumerate(cps):
        d = os.path.join(root, "x%d" % i)
        write_project(d, data, default=list(data.keys())[0])
        cdirs.append(d)
    rc, out, err = core.sh([exe, "parse"], input="".join(d + "\n" for d in cdirs), timeout=600)
    clines = out.splitlines()
    if rc != 0 or len(clines) != len(cdirs):
        raise core.Infra("h_plurals parse (cross): %d lines for %d projects; %s" % (len(clines), len(cdirs), err[-400:]))
    citems, cmeta = [], []
    for data, line in zip(cps, clines):
        obj = json.loads(line)
        lv = []
        for lo in obj.get("locales", []):
            src = data[lo["name"]]
            names = sorted(src.keys(), key=lambda s: s.encode())
            lv.append(core.coq_list(["(%s, %s)" % (core.coq_str(n), coq_ival(src[n])) for n in names]))
        pm = obj.get("project_merge")
        merged = None
        if isinstance(pm, dict) and "ok" in pm:
            merged = {l["name"]: [n for n, _ in l["keys"]] for l in pm["ok"]}
            outs = "(Some %s)" % core.coq_list([
                core.coq_list(["(%s, %s)" % (core.coq_str(n), coq_oval(t, data[l["name"]])) for n, t in l["keys"]])
                for l in pm["ok"]])
        else:
            outs = "None"
        citems.append("(%s, (@nil str), %s)" % (core.coq_list(lv), outs))
        cmeta.append({"locales": {l: sorted(v.keys()) for l, v in data.items()}, "default": list(data.keys())[0],
                      "pipeline_warnings": obj.get("warnings"), "merged_keys": merged if merged is not None else pm})
    ccodes = core.coq_eval(ctx, "c05x_%d" % os.getpid(), PRE, citems, "check_cross", min_per_shard=10)
    cross_fail = [dict(m, known_class=(c == 4)) for m, c in zip(cmeta, ccodes) if c in (3, 4)]
    cross_disagree = [m for m, c in zip(cmeta, ccodes) if c == 2]

    # ---------------- runtime level
    rtres = run_runtime(ctx, exe, known)

    # ---------------- parse-time selection
    rc, out, err = core.sh([exe, "rt"], timeout=600)
    stres = run_static(ctx, exe, parse_rt(out))

    # ---------------- UnusedForm warnings of whole projects
    unres = run_unused(ctx, exe, cats)

    # ---------------- verdict
    def report_spec(name, inputs, explanation, klass):
        kf = next((f for f in known if f.get("class") == klass), None)
        if kf is not None:
            core.known_finding(ctx, kf, kf.get("line", klass))
        else:
            core.violation(ctx, name, {"failing_input": inputs[0], "more": inputs[1:4], "count": len(inputs),
                                       "explanation": explanation})

    if bad_spec:
        bad_spec.sort(key=lambda m: (len(m["keys"]), len(m["path"])))
        report_spec("spec", bad_spec,
                    "spec_C05 (Coq, Parser/Plurals.v) is false on the real merge_plurals output of this level: key set, plural "
                    "node, rule-type conflict / collision error or UnusedForm warnings are not what the property states",
                    "mixed-rule-overwrite")
    if panic_spec:
        panic_spec.sort(key=lambda m: (len(m["keys"]), len(m["path"])))
        report_spec("panic", panic_spec,
                    "Locale::merge_plurals panicked (unwrap_at merge_plurals_1): the base key of a plural group of this level is "
                    "not a Rust identifier although its forms are valid keys (`in_one` + `in_other`); the repaired code returns "
                    "Error::InvalidKey (fixes/C09-plural-base-key-not-identifier.diff)", "plural-base-not-identifier")
    lone = [m for m in cross_fail]
    rt_lone = [f for f in rtres["select_fail"] if f["key"] == "solo" and f["locale"] == "ja"]
    rt_other = [f for f in rtres["select_fail"] if not (f["key"] == "solo" and f["locale"] == "ja")]
    if lone or rt_lone:
        lone.sort(key=lambda m: sum(len(v) for v in m["locales"].values()))
        report_spec("lone_other", lone + rt_lone,
                    "a locale that writes only `<key>_other` (all CLDR gives e.g. Japanese) is not merged into the plural key "
                    "other locales define: MissingKey `<key>` + SurplusKey `<key>_other`, and the locale renders the default "
                    "locale's text", "lone-other")
    if unres["tree_fail"]:
        unres["tree_fail"].sort(key=lambda m: len(json.dumps(m["keys"])))
        core.violation(ctx, "cross_tree", {
            "failing_input": unres["tree_fail"][0], "more": unres["tree_fail"][1:3], "count": len(unres["tree_fail"]),
            "explanation": "spec_cross_tree (Coq) is false on the key tree LocalesOrNamespaces::merge_plurals produced: at some "
                           "depth a locale that writes only `<key>_other` did not get the plural `<key>` another locale declares "
                           "at the same key path (sub-keys / namespace)"})
    if unres["fail"] or unres["unattributed"]:
        unres["fail"].sort(key=lambda m: (len(m["locales_of_project"]), len(m["keys"])))
        first = (unres["fail"] or [{"unattributed_warning": unres["unattributed"][0]}])[0]
        core.violation(ctx, "unused_project", {
            "failing_input": first, "more": unres["fail"][1:3], "count": len(unres["fail"]),
            "unattributed_warnings": unres["unattributed"][:3],
            "explanation": "for this locale and level the UnusedForm warnings of the whole-project paths (LocalesOrNamespaces::"
                           "merge_plurals / parse_locales) are not exactly `written form (not _other) of a merged key that is not a "
                           "CLDR category of THIS locale for the key's rule type`: a warning is missing, extra or repeated"})
    if stres["fail"]:
        stres["fail"].sort(key=lambda m: (len(m["written_forms"]), m["locale"]))
        core.violation(ctx, "static_select", {"failing_input": stres["fail"][0], "more": stres["fail"][1:3], "count": len(stres["fail"]),
                                              "explanation": stres["fail"][0]["explanation"]})
    if stres["other_args_fail"]:
        core.violation(ctx, "static_count_arg", {"failing_input": stres["other_args_fail"][0], "more": stres["other_args_fail"][1:],
                                                 "explanation": "a non-literal `count` argument must rename the count (single variable) or "
                                                                "be Error::InvalidCountArg naming the referencing locale and key"})
    if rt_other:
        core.violation(ctx, "runtime_select", {"failing_input": rt_other[0], "more": rt_other[1:4], "count": len(rt_other)})
    if rtres["plural_macro_fail"]:
        core.violation(ctx, "t_plural", {"failing_input": rtres["plural_macro_fail"][0], "count": len(rtres["plural_macro_fail"]),
                                         "explanation": "td_plural!/td_plural_ordinal! does not return the ICU4X category"})
    # reactive plural macros follow the locale of their context over operation histories (shared machinery of C16)
    from checks import acc_common
    acc_evidence = acc_common.run_family(ctx, "plural")
    corr = []
    if not ok:
        corr.append("theorem/audit: " + "; ".join(problems))
    if disagree:
        corr.append("correspondence Parser/Plurals.v (merge_level) vs Locale::merge_plurals")
    if cross_disagree:
        corr.append("correspondence Parser/Plurals.v (merge_project) vs LocalesOrNamespaces::merge_plurals")
    if py_mismatch:
        corr.append("is_possible_plural differs from the naming rule <base>[_ordinal]_<form>")
    if unexplained_panics or rtres["panics"]:
        corr.append("panic not predicted by the model")
    if shape_problems:
        corr.append("parsed tree does not have the generated shape")
    if unres["tree_disagree"]:
        corr.append("correspondence Parser/Plurals.v (merge_project_tree) vs the merged key tree of whole projects: %s"
                    % json.dumps(unres["tree_disagree"][0])[:400])
    if unres["disagree"]:
        corr.append("correspondence Parser/Plurals.v (project_warnings) vs the UnusedForm warnings of whole projects")
    if unres["problems"]:
        corr.append("a generated multi-locale project did not load: %s" % json.dumps(unres["problems"][0])[:400])
    if stres["disagree"]:
        corr.append("correspondence Parser/Plurals.v (populate_with_count_arg) vs parse-time plural selection")
    if stres["pipeline_problems"]:
        corr.append("the parse pipeline failed on a project of literal-count references: %s" % json.dumps(stres["pipeline_problems"][0])[:300])
    if rtres["oracle_mismatch"]:
        corr.append("ICU4X plural table differs from Runtime/CldrRules.v")
    if rtres["variants_not_in_fixture"]:
        corr.append("a regional variant has plural rules of its own in the ICU4X data but no locale of the compiled project "
                    "(h_plurals/gen_fixed.py LOCALES) and of Runtime/CldrRules.v represents it: %s" % json.dumps(rtres["variants_not_in_fixture"][:4]))
    if corr and not ctx.violations:
        core.violation(ctx, "correspondence", {
            "broken": corr, "first_disagreeing_input": (disagree or cross_disagree or py_mismatch or unexplained_panics or shape_problems or [None])[0],
            "disagreements": len(disagree), "oracle_mismatch": rtres["oracle_mismatch"][:5], "panics": rtres["panics"][:5]},
            no_input=True)
    elif corr:
        ctx.say("note: additionally " + "; ".join(corr))

    hist = {}
    nontrivial = set()
    for (a, m), c in zip(acc, codes):
        tagged = sum(1 for n, v in m["keys"].items() if v[0] == "leaf" and py_classify(n))
        key = "keys=%d,plural_shaped=%d,depth=%d" % (min(len(m["keys"]), 12), min(tagged, 8), len(m["path"]))
        hist[key] = hist.get(key, 0) + 1
        if tagged >= 2:
            nontrivial.add(a)
    outcome = {"ok": 0, "ConflictingPluralRuleType": 0, "PluralsAtNormalKey": 0, "PANIC": 0, "other_err": 0}
    for (pi, loc, a, b, impl_panic, impl_err) in locale_results:
        if impl_panic:
            outcome["PANIC"] += 1
        elif impl_err is None:
            outcome["ok"] += 1
        else:
            outcome[impl_err["kind"] if impl_err["kind"] in outcome else "other_err"] += 1
    core.write_evidence(ctx, {
        "evaluations": len(acc) + len(citems) + rtres["rt_cases"] + 16 + stres["cases"] + unres["cases"],
        "distinct_nontrivial": len(nontrivial) + rtres["rt_cases"] + stres["cases"] + unres["cases"],
        "rule": "parser level: random key maps per locale level (bases x cardinal/ordinal x random form subsets, collisions, "
                "range/sub-object values, nested levels), corpus first; non-trivial = level with >= 2 plural-shaped keys, "
                "distinct by Coq case term. runtime level: fixed project, every (locale, key, accessor) row of counts is one "
                "evaluation. cross-locale: projects whose locales write different subsets (incl. `_other` alone)",
        "samples": [dict(m, code=c) for m, c in list(zip(metas, codes))[:3] + list(zip(metas, codes))[13:15]],
        "parser_level_cases": len(acc), "locales_merged": len(locale_results), "locale_outcomes": outcome,
        "runtime_renderings": rtres["renderings"], "icu_table_entries_compared_with_CldrRules": rtres["table_entries"],
        "cross_tree_projects": unres["tree_projects"], "cross_tree_levels": unres["tree_levels"],
        "cross_tree_failures": len(unres["tree_fail"]), "cross_tree_disagreements": len(unres["tree_disagree"]),
        "unused_project_cases": unres["cases"], "unused_project_failures": len(unres["fail"]),
        "unused_project_disagreements": len(unres["disagree"]), "unused_project_warnings_seen": unres["warnings_seen"],
        "static_selection_cases": stres["cases"], "static_selection_references": stres["references"],
        "static_selection_failures": len(stres["fail"]), "static_selection_disagreements": len(stres["disagree"]),
        "static_count_arg_failures": len(stres["other_args_fail"]),
        "locale_variants_examined": rtres["variants_examined"], "locale_variants_differing_from_language": rtres["variants_differing"],
        "script_variants_resolved_to_root_rules_by_icu4x": rtres["script_variants_with_root_rules"],
        "cross_locale_projects": len(citems), "cross_locale_failures": len(cross_fail),
        "cross_locale_disagreements": len(cross_disagree),
        "traces_validated_against_impl": len(acc),
        "disagreements": len(disagree), "spec_failures_on_impl": len(bad_spec),
        "runtime_select_failures": len(rtres["select_fail"]), "t_plural_failures": len(rtres["plural_macro_fail"]),
        "oracle_mismatches": len(rtres["oracle_mismatch"]), "python_vs_rust_classification_mismatches": len(py_mismatch),
        "panics_blamed_on_non_identifier_base_key": len(panic_spec), "invalid_key_errors_checked": invalid_key_errors,
        "unobserved_levels": sum(1 for m in metas if not m["observed"]),
        "repo_agrees_with_pre_fix_model_on_sample": sum(1 for c in codes_old if c == 0), "pre_fix_sample": len(codes_old),
        "input_distribution": hist, "audit_problems": problems, "accessor_locale": acc_evidence,
    }, assumptions=[
        "CLDR plural data is an oracle: ICU4X compiled data (categories(), category_for) is an input of the model; it is "
        "independently re-stated in Runtime/CldrRules.v for en fr ru ar pl ja cy he only",
        "Key::new (syn identifier check) is an oracle taken from the harness per base key",
        "merge_plurals' recursion into sub-keys is not modelled; levels are checked one by one by walking both trees",
        "generated code is observed through one fixed compiled project (h_plurals/locales), not proved"])
    shutil.rmtree(root, ignore_errors=True)


def replay(ctx, path):
    from checks import isolate
    isolate.enter(ctx)
    """re-runs the stored failing input on the implementation (harness) and on the model (coqc) and prints both with the verdict"""
    obj = json.load(open(path))
    from checks import acc_common
    if acc_common.is_mine(obj):
        return acc_common.replay(ctx, path)
    fi = obj.get("failing_input") or {}
    print(json.dumps({k: v for k, v in obj.items() if k != "more"}, indent=1)[:6000])
    bindir = core.cargo_build("h_plurals")
    exe = os.path.join(bindir, "h_plurals")
    root = os.path.join(ctx.work, "replay_%d" % os.getpid())
    if isinstance(fi.get("keys"), dict) and "locale" in fi:   # one level of one locale
        lvl = {n: tuple(v) for n, v in fi["keys"].items()}
        for n, v in lvl.items():
            if v[0] == "sub":
                lvl[n] = ("sub", v[1], {"k": ("leaf", 9999)})
        loc = fi["locale"]
        data = {loc: lvl}
        write_project(root, data, default=loc)
        rc, out, err = core.sh([exe, "parse"], input=root + "\n", timeout=120)
        o = json.loads(out.splitlines()[0])
        lo = o["locales"][0]
        print("IMPLEMENTATION merge_plurals:", json.dumps(lo["merge"]), "warnings:", json.dumps(lo["warnings"]))
        rc, out2, err = core.sh([exe, "rt"], timeout=600)
        cats = {}
        for line in out2.split("\n"):
            if line.startswith("C " + loc + " "):
                _, _, r, body = line.split(" ", 3)
                cats[r] = body.split(",")
        acc = []
        m = lo["merge"]
        level_cases(loc, cats, lvl, lo["raw"], m.get("ok") if isinstance(m, dict) else None, lo["warnings"],
                    m.get("err") if isinstance(m, dict) else None, m == "PANIC", [], acc, {})
        case = acc[0][0]
        print("MODEL merge_level:", core.coq_show(ctx, PRE, "let c := %s in merge_level (fun b => negb (mem_str b (c_bad_bases c))) "
              "(fun r => match r with Cardinal => c_cats_card c | Ordinal => c_cats_ord c end) (c_path c) (c_keys c)" % case))
        code = core.coq_eval(ctx, "replay_%d" % os.getpid(), PRE, [case], "check")[0]
        print("VERDICT code %d (0 agree+spec, 1 outside domain, 2 differs from model, 3 spec_C05 false on the implementation's output)" % code)
        return 1 if code in (2, 3) else 0
    if "locales" in fi and "merged_keys" in fi:            # cross-locale project
        ids = Ids()
        data = {l: {n: ("leaf", ids()) for n in names} for l, names in fi["locales"].items()}
        order = [fi.get("default")] + [l for l in data if l != fi.get("default")]
        data = {l: data[l] for l in order if l in data}
        write_project(root, data, default=order[0])
        rc, out, err = core.sh([exe, "parse"], input=root + "\n", timeout=120)
        o = json.loads(out.splitlines()[0])
        pm = o["project_merge"]
        print("IMPLEMENTATION LocalesOrNamespaces::merge_plurals:",
              json.dumps({l["name"]: [(n, t["k"]) for n, t in l["keys"]] for l in pm["ok"]} if isinstance(pm, dict) and "ok" in pm else pm))
        print("IMPLEMENTATION pipeline warnings:", json.dumps(o["warnings"]))
        lv, outs = [], "None"
        for lo in o["locales"]:
            src = data[lo["name"]]
            names = sorted(src.keys(), key=lambda x: x.encode())
            lv.append(core.coq_list(["(%s, %s)" % (core.coq_str(n), coq_ival(src[n])) for n in names]))
        if isinstance(pm, dict) and "ok" in pm:
            outs = "(Some %s)" % core.coq_list([core.coq_list(["(%s, %s)" % (core.coq_str(n), coq_oval(t, data[l["name"]]))
                                                               for n, t in l["keys"]]) for l in pm["ok"]])
        print("MODEL merge_project:", core.coq_show(ctx, PRE, "merge_project (fun _ => true) (fun _ => all_forms) %s" % core.coq_list(lv)))
        code = core.coq_eval(ctx, "replayx_%d" % os.getpid(), PRE, ["(%s, (@nil str), %s)" % (core.coq_list(lv), outs)], "check_cross", min_per_shard=1)[0]
        print("VERDICT code %d (0 agree+spec, 2 differs from model, 3/4 spec_cross false on the implementation's output)" % code)
        return 1 if code != 0 else 0
    if "unused_warnings_of_merge_plurals" in fi:              # UnusedForm warnings of a whole project
        pr = fi["project"]
        ids = Ids()

        def build(t):
            return {k: (("sub", ids(), build(v)) if isinstance(v, dict) else ("leaf", ids())) for k, v in t.items()}
        shutil.rmtree(root, ignore_errors=True)
        os.makedirs(os.path.join(root, "locales"))
        nss = pr["namespaces"]
        with open(os.path.join(root, "Cargo.toml"), "w") as fh:
            fh.write('[package]\nname = "p"\nversion = "0.1.0"\nedition = "2021"\n\n[package.metadata.leptos-i18n]\n'
                     'default = "%s"\nlocales = [%s]\n%s' % (pr["locales"][0], ", ".join('"%s"' % l for l in pr["locales"]),
                                                            'namespaces = [%s]\n' % ", ".join('"%s"' % n for n in nss) if nss[0] else ""))
        lvl_of = {}
        for ns in nss:
            for l in pr["locales"]:
                lvl = build(pr["keys"][str(ns)][l])
                lvl_of[(ns, l)] = lvl
                content = {kk: json_value(v) for kk, v in lvl.items()}
                if ns:
                    os.makedirs(os.path.join(root, "locales", l), exist_ok=True)
                    fn = os.path.join(root, "locales", l, ns + ".json")
                else:
                    fn = os.path.join(root, "locales", l + ".json")
                json.dump(content, open(fn, "w"))
        rc, out, err = core.sh([exe, "parse"], input=root + "\n", timeout=120)
        o = json.loads(out.splitlines()[0])
        pm = o.get("project_merge")
        wm = [w for w in (pm.get("warnings", []) if isinstance(pm, dict) else []) if w[0] == "UnusedForm"]
        wp = [w for w in o.get("warnings", []) if w[0] == "UnusedForm"]
        print("IMPLEMENTATION UnusedForm warnings of LocalesOrNamespaces::merge_plurals:", json.dumps([w[1:] for w in wm]))
        print("IMPLEMENTATION UnusedForm warnings of parse_locales:", json.dumps([w[1:] for w in wp]))
        rc, out2, err = core.sh([exe, "rt"], timeout=600)
        cats = {}
        for line in out2.split("\n"):
            if line.startswith("C "):
                _, l, r, body = line.split(" ", 3)
                cats.setdefault(l, {})[r] = body.split(",")
        l, ns, path = fi["locale"], fi["namespace"], fi["path"]
        lvl = lvl_of[(ns, l)]
        for name in path[(1 if ns else 0):]:
            lvl = lvl[name][2]
        names = sorted(lvl.keys(), key=lambda x: x.encode())
        keys = core.coq_list(["(%s, %s)" % (core.coq_str(nm), coq_ival(lvl[nm])) for nm in names])

        def sel(ws):
            return core.coq_list(["(%s, %s, %s)" % (coq_path(w[2]), COQ_FORM[w[3]], COQ_RULE[w[4]]) for w in ws if w[1] == l and w[2][:-1] == path])
        item = "(mk_ucase %s %s %s %s %s %s)" % (coq_path(path), core.coq_list([COQ_FORM[f] for f in cats[l]["c"]]),
                                                 core.coq_list([COQ_FORM[f] for f in cats[l]["o"]]), keys, sel(wm), sel(wp))
        print("locale %s, level %s, keys %s" % (l, path, names))
        print("MODEL expected_warnings:", core.coq_show(ctx, PRE, "let c := %s in expected_warnings (fun r => match r with Cardinal => "
              "u_cats_card c | Ordinal => u_cats_ord c end) (u_path c) (u_keys c)" % item))
        code = core.coq_eval(ctx, "replayu_%d" % os.getpid(), PRE, [item], "check_unused", min_per_shard=1)[0]
        print("VERDICT code %d (0 exact, 2 differs from model, 3 a warning is missing, extra or repeated)" % code)
        return 1 if code != 0 else 0
    if "final_value_ids" in fi:                              # parse-time selection of `$t(key, {"count": N})`
        loc, pk, r = fi["locale"], fi["plural_key"], fi["rule"]
        infix = "_ordinal" if r == "ordinal" else ""
        files = {"en": {}, loc: {}} if loc != "en" else {"en": {}}
        for l in files:
            forms = fi["written_forms"] if l == loc else {f: 900 + i for i, f in enumerate(FORMS)}
            for f, fid in forms.items():
                files[l]["%s%s_%s" % (pk, infix, f)] = "#%d %s" % (fid, f)
            for ci, c in enumerate(fi["counts"]):
                files[l]["ref_n%d" % ci] = "$t(%s, {\"count\": %s})" % (pk, c)
        shutil.rmtree(root, ignore_errors=True)
        os.makedirs(os.path.join(root, "locales"))
        with open(os.path.join(root, "Cargo.toml"), "w") as fh:
            fh.write('[package]\nname = "p"\nversion = "0.1.0"\nedition = "2021"\n\n[package.metadata.leptos-i18n]\n'
                     'default = "en"\nlocales = [%s]\n' % ", ".join('"%s"' % l for l in files))
        for l, f in files.items():
            json.dump(f, open(os.path.join(root, "locales", l + ".json"), "w"))
        rc, out, err = core.sh([exe, "parse"], input=root + "\n", timeout=120)
        pipe = json.loads(out.splitlines()[0])["pipeline"]
        if not isinstance(pipe, dict) or "ok" not in pipe:
            print("IMPLEMENTATION pipeline:", json.dumps(pipe))
            return 1
        final = dict(next(l for l in pipe["ok"]["final"] if l["name"] == loc)["keys"])
        got = [final.get("ref_n%d" % ci, {}).get("id") for ci in range(len(fi["counts"]))]
        byid = {str(v): k for k, v in fi["written_forms"].items()}
        print("locale %s (default en), key %s, written forms %s" % (loc, pk, sorted(fi["written_forms"])))
        print("count / CLDR category for %s / form selected at parse time:" % loc)
        for c, cat, g in zip(fi["counts"], fi["cldr_category_for_this_locale"], got):
            print("  %8s  %-6s %s" % (c, cat, byid.get(str(g), g)))
        item = "(mk_scase %s %s %s)" % (core.coq_list(["(%s, %d)" % (COQ_FORM[f], fid) for f, fid in fi["written_forms"].items()]),
                                        core.coq_list([COQ_FORM[c] for c in fi["cldr_category_for_this_locale"]]),
                                        core.coq_list(["(Some %s)" % g if g else "None" for g in got]))
        code = core.coq_eval(ctx, "replays_%d" % os.getpid(), PRE, [item], "check_static", min_per_shard=1)[0]
        print("VERDICT code %d (0 agree+spec, 2 differs from model, 3 spec_static false: not the form CLDR assigns for this locale)" % code)
        return 1 if code != 0 else 0
    if "rendered_text" in fi:                               # runtime rendering of the fixed project
        rc, out, err = core.sh([exe, "rt"], timeout=600)
        rt = parse_rt(out)
        if fi["accessor"].startswith("td_string!(locale, r"):
            rows = dict(rt["F"].get((fi["locale"], fi["key"]), []))
            print("IMPLEMENTATION td_string!(%s, r%s_%s) = %r; CLDR category %s; written forms %s" % (
                fi["locale"], fi["key"], fi["count"], rows.get(fi["count"]), fi["cldr_category"], fi["written_forms"]))
            want = fi["cldr_category"] if fi["cldr_category"] in fi["written_forms"] else "other"
            ok_now = (rows.get(fi["count"]) or "").split("|")[:3] == [fi["locale"], fi["key"], want]
            print("VERDICT", "holds now" if ok_now else "still violated")
            return 0 if ok_now else 1
        tag = {"td_string!": "S", "td!(..).to_html()": "H"}.get(fi["accessor"], "O")
        row = rt[tag].get((fi["locale"], fi["key"]))
        opnds = rt["N"] if tag != "O" else rt["D"]
        idx = opnds.index(fi["count"]) if fi["count"] in opnds else 0
        print("IMPLEMENTATION %s(%s, %s, count = %s) = %r; CLDR category %s; written forms %s" % (
            fi["accessor"], fi["locale"], fi["key"], fi["count"], row[idx] if row else None, fi["cldr_category"], fi["written_forms"]))
        ok_now = row is not None and row[idx].split("|")[:3] == [fi["locale"], fi["key"],
                                                                 fi["cldr_category"] if fi["cldr_category"] in fi["written_forms"] else "other"]
        print("VERDICT", "holds now" if ok_now else "still violated")
        return 0 if ok_now else 1
    return 0
