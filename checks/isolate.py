"""Per-invocation work directories.

Two `./check <ID>` processes of one property may run at the same time (other seeds, other tier).  Everything a run
writes below `ctx.work` - generated projects, the audit file of `coq_audit`, the case files of `coq_eval` - therefore
lives in a directory of its own (`run_s<seed>_<tier>_<pid>`, removed at exit).  Generated probe *crates* stay in the
shared directory, one per (seed, tier), with a package name that carries seed and tier: cargo serialises builds in a
shared target directory, but the binary `target/debug/<name>` of one run must not be replaced by another run's before
it is executed, and a path that changed with every run would leave new artefacts in the target directory each time.
Two runs with the same ID, seed and tier at the same time are not supported."""
import atexit
import os
import shutil


def enter(ctx):
    if getattr(ctx, "shared_work", None):
        return
    ctx.shared_work = ctx.work
    d = os.path.join(ctx.work, "run_s%d_%s_%d" % (ctx.seed, ctx.tier, os.getpid()))
    os.makedirs(d, exist_ok=True)
    ctx.work = d
    atexit.register(shutil.rmtree, d, True)


def probe_name(ctx, name):
    return "%s_s%d_%s" % (name, ctx.seed, ctx.tier)


def probe_dir(ctx, name):
    d = os.path.join(getattr(ctx, "shared_work", None) or ctx.work, probe_name(ctx, name))
    return d
