#!/bin/sh
# Build the framework from files on disk only (offline): Coq development + correspondence harnesses.
set -e
cd /verif
export CARGO_NET_OFFLINE=true
[ -f harness/Cargo.lock ] || cp /repo/Cargo.lock harness/Cargo.lock
(cd coq && coq_makefile -f _CoqProject -o Makefile >/dev/null && timeout 3000 make -j16) 
python3 - <<'PY'
import sys
sys.path.insert(0, "/verif")
from vlib import core
for pkg in core.ALL_PACKAGES:
    core.cargo_build(*pkg[:1], **(pkg[1] if len(pkg) > 1 else {}))
    print("built", pkg[0])
PY
