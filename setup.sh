#!/bin/sh
# Build the framework from files on disk only (offline): Coq development + correspondence harnesses.
set -e
cd /verif
export CARGO_NET_OFFLINE=true
[ -f harness/Cargo.lock ] || cp /repo/Cargo.lock harness/Cargo.lock
python3 -c 'import sys; sys.path.insert(0,"/verif"); from vlib import core; core.coq_makefile()'
(cd coq && timeout 3000 make -j16)
python3 - <<'PY'
import sys
sys.path.insert(0, "/verif")
from vlib import core
from checks import registry
for pkg in registry.packages():
    core.cargo_build(pkg[0], **(pkg[1] if len(pkg) > 1 else {}))
    print("built", pkg[0], flush=True)
PY
