#!/bin/sh
# Build the framework from files on disk only (offline): Coq development + correspondence harnesses.
set -e
cd /verif
export CARGO_NET_OFFLINE=true
[ -f harness/Cargo.lock ] || cp /repo/Cargo.lock harness/Cargo.lock
python3 -c 'import sys; sys.path.insert(0,"/verif"); from vlib import core; core.coq_makefile()'
(cd coq && timeout 3000 make -j16)
python3 - <<'PY'
import sys
sys.path.insert(0, "/verif")
from vlib import core
from checks import registry
for pkg in registry.packages():
    # forms: (name,) | (name, "feat1,feat2") | (name, (feat, ...), target_sub)
    feats = None
    if len(pkg) > 1 and pkg[1]:
        feats = pkg[1].split(",") if isinstance(pkg[1], str) else list(pkg[1])
    sub = pkg[2] if len(pkg) > 2 else None
    try:
        core.cargo_build(pkg[0], features=feats, target_sub=sub)
        print("built", pkg, flush=True)
    except core.HarnessBuildFailed as e:
        print("FAILED to build", pkg, e.log[-800:], flush=True)
PY
