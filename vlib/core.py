"""Shared machinery of the /verif checks (see DESIGN.md §2).

Every check follows the same decision rule:
  1. build the correspondence harness from /repo's working tree (cargo, offline);
  2. build the Coq closure of Props/<ID>.vo, audit it (forbidden words, Print Assumptions);
  3. run implementation and model on the same generated inputs; the Coq *spec
     predicate* is evaluated on the implementation's outputs inside coqc;
  4. a spec failure is a VIOLATION with the input as replay; a broken proof,
     audit, harness build or model/implementation disagreement without a spec
     failure is a VIOLATION ... no-failing-input-found;
  5. evidence/<ID>.json is rewritten.
"""
import hashlib
import json
import os
import random
import re
import subprocess
import sys
import time
from concurrent.futures import ThreadPoolExecutor

ROOT = "/verif"
REPO = "/repo"
CACHE = os.environ.get("VERIF_CACHE") or os.path.join(ROOT, ".cache")
# incremental compilation state is useless here (generated probe crates are rebuilt from scratch under new names)
# and grew to 23 GB; every cargo invocation of every check inherits this
os.environ["CARGO_INCREMENTAL"] = "0"
COQ = os.path.join(ROOT, "coq")
HARNESS = os.path.join(ROOT, "harness")
TARGET = os.path.join(CACHE, "target")
NCPU = 16

FORBIDDEN = re.compile(
    r"\b(Admitted|admit|Axiom|Axioms|Parameter|Parameters|Conjecture|Conjectures|Abort All|give_up)\b"
    r"|Unset\s+Guard|bypass_check|type-in-type|impredicative-set|Admit\s+Obligations|Unset\s+Positivity|Unset\s+Universe")
# axioms of the standard library that a tactic may bring in (DESIGN §6); anything else fails the audit
ALLOWED_AXIOMS = {
    "functional_extensionality_dep", "FunctionalExtensionality.functional_extensionality_dep",
    "Eqdep.Eq_rect_eq.eq_rect_eq", "eq_rect_eq", "proof_irrelevance", "ProofIrrelevance.proof_irrelevance",
    "JMeq_eq", "JMeq.JMeq_eq",
}


class Infra(Exception):
    """the checking machinery itself failed (not a statement about /repo)"""


class HarnessBuildFailed(Exception):
    def __init__(self, pkg, log):
        super().__init__(pkg)
        self.pkg = pkg
        self.log = log


def sh(cmd, cwd=None, timeout=600, env=None, input=None):
    e = dict(os.environ)
    e.update({"CARGO_NET_OFFLINE": "true", "CARGO_TERM_COLOR": "never"})
    if env:
        e.update(env)
    try:
        p = subprocess.run(cmd, cwd=cwd, env=e, input=input, capture_output=True, text=True,
                           timeout=timeout, shell=isinstance(cmd, str))
        return p.returncode, p.stdout, p.stderr
    except subprocess.TimeoutExpired as t:
        out = t.stdout.decode() if isinstance(t.stdout, bytes) else (t.stdout or "")
        err = t.stderr.decode() if isinstance(t.stderr, bytes) else (t.stderr or "")
        return 124, out, err + "\nTIMEOUT after %ss" % timeout


class Ctx:
    def __init__(self, pid, tier=None, seed=None):
        self.id = pid
        self.tier = tier or os.environ.get("VERIF_TIER") or "quick"
        if self.tier not in ("quick", "thorough"):
            self.tier = "quick"
        s = seed if seed is not None else os.environ.get("VERIF_SEED")
        try:
            self.seed = int(s) if s is not None and str(s) != "" else 1
        except ValueError:
            self.seed = int(hashlib.sha256(str(s).encode()).hexdigest()[:8], 16)
        self.rng = random.Random((self.seed << 8) ^ int(hashlib.sha256(pid.encode()).hexdigest()[:6], 16))
        self.t0 = time.time()
        self.work = os.path.join(CACHE, "work", pid)
        os.makedirs(self.work, exist_ok=True)
        self.out_dir = os.path.join(ROOT, "replay", pid)
        self.log = []
        self.violations = []        # list of (replay_path, no_input)
        self.known_hits = []
        self.coq_info = {}
        self.assumptions = []

    @property
    def quick(self):
        return self.tier == "quick"

    def say(self, *a):
        print(*a, flush=True)


# ---------------------------------------------------------------- cargo

def ensure_lock():
    lock = os.path.join(HARNESS, "Cargo.lock")
    if not os.path.exists(lock):
        import shutil
        shutil.copy(os.path.join(REPO, "Cargo.lock"), lock)


WORKSPACE_HEAD = """[workspace]
resolver = "2"
members = [%s]

[profile.dev]
debug = 0
incremental = false
opt-level = 0
overflow-checks = true
debug-assertions = true

[profile.dev.package."*"]
opt-level = 1
debug = 0
"""


def gen_workspace():
    """harness/Cargo.toml lists every h_* directory that has a Cargo.toml (generated: adding a package needs no shared edit)"""
    ms = sorted(d for d in os.listdir(HARNESS)
                if d.startswith("h_") and os.path.exists(os.path.join(HARNESS, d, "Cargo.toml"))
                and (os.path.exists(os.path.join(HARNESS, d, "src", "main.rs")) or os.path.exists(os.path.join(HARNESS, d, "src", "lib.rs"))))
    txt = WORKSPACE_HEAD % ", ".join('"%s"' % m for m in ms)
    p = os.path.join(HARNESS, "Cargo.toml")
    try:
        old = open(p).read()
    except OSError:
        old = None
    if old != txt:
        with open(p, "w") as fh:
            fh.write(txt)


def cargo_build(pkg, features=None, rustflags=None, timeout=2400, target_sub=None, env=None):
    """Build one harness package against /repo's working tree; returns the directory holding the binary."""
    ensure_lock()
    gen_workspace()
    cmd = ["cargo", "build", "--offline", "-p", pkg]
    if features:
        cmd += ["--features", ",".join(features)]
    e = {}
    tdir = TARGET if not target_sub else os.path.join(CACHE, target_sub)
    e["CARGO_TARGET_DIR"] = tdir
    flags = "--cap-lints warn"
    if rustflags:
        flags += " " + rustflags
    e["RUSTFLAGS"] = flags
    if env:
        e.update(env)
    rc, out, err = sh(cmd, cwd=HARNESS, timeout=timeout, env=e)
    tries = 0
    while rc != 0 and ("failed to load manifest for workspace member" in err or "failed to parse manifest" in err) and tries < 4:
        # another package of the workspace is mid-edit: regenerate the member list and retry
        time.sleep(3)
        gen_workspace()
        tries += 1
        rc, out, err = sh(cmd, cwd=HARNESS, timeout=timeout, env=e)
    if rc != 0:
        raise HarnessBuildFailed(pkg, (out + err)[-6000:])
    return os.path.join(tdir, "debug")


# ---------------------------------------------------------------- coq

COQPROJECT_HEAD = ("-Q theories LI\n"
                   "-arg -w -arg -notation-overridden,-deprecated-hint-without-locality,-deprecated-instance-without-locality,"
                   "-non-recursive,-deprecated-hint-rewrite-without-locality\n")


def gen_coqproject():
    """_CoqProject lists every theories/**/*.v (generated, so adding a file needs no shared edit)"""
    files = []
    for d, _, fs in os.walk(os.path.join(COQ, "theories")):
        for f in fs:
            if f.endswith(".v") and not f.startswith("."):
                files.append(os.path.relpath(os.path.join(d, f), COQ))
    txt = COQPROJECT_HEAD + "\n".join(sorted(files)) + "\n"
    proj = os.path.join(COQ, "_CoqProject")
    try:
        old = open(proj).read()
    except OSError:
        old = None
    if old != txt:
        with open(proj, "w") as fh:
            fh.write(txt)


def coq_makefile():
    gen_coqproject()
    mk = os.path.join(COQ, "Makefile")
    proj = os.path.join(COQ, "_CoqProject")
    if not os.path.exists(mk) or os.path.getmtime(mk) < os.path.getmtime(proj):
        rc, out, err = sh(["coq_makefile", "-f", "_CoqProject", "-o", "Makefile"], cwd=COQ, timeout=120)
        if rc != 0:
            raise Infra("coq_makefile failed: " + err)


def coq_build(targets, timeout=1800):
    """make the given .vo targets (paths relative to /verif/coq); returns (ok, log)"""
    coq_makefile()
    rc, out, err = sh(["make", "-j%d" % NCPU] + list(targets), cwd=COQ, timeout=timeout)
    return rc == 0, (out + err)[-8000:]


def v_closure(vfile):
    """transitive LI-dependencies of a theory file (paths relative to /verif/coq)"""
    seen, todo = [], [vfile]
    while todo:
        f = todo.pop()
        if f in seen:
            continue
        seen.append(f)
        try:
            src = open(os.path.join(COQ, f)).read()
        except OSError:
            continue
        src = strip_comments(src)
        for m in re.finditer(r"From\s+LI\s+Require\s+(?:Import\s+|Export\s+)?(.*?)\.(?=\s|$)", src, re.S):
            for name in m.group(1).split():
                todo.append("theories/" + name.replace(".", "/") + ".v")
        for m in re.finditer(r"(?<!LI\s)Require\s+(?:Import\s+|Export\s+)?(.*?)\.(?=\s|$)", src, re.S):
            for name in m.group(1).split():
                if name.startswith("LI."):
                    todo.append("theories/" + name[3:].replace(".", "/") + ".v")
    return [f for f in seen if os.path.exists(os.path.join(COQ, f))]


def strip_comments(src):
    out, depth, i = [], 0, 0
    while i < len(src):
        if src.startswith("(*", i):
            depth += 1
            i += 2
        elif src.startswith("*)", i) and depth:
            depth -= 1
            i += 2
        else:
            if not depth:
                out.append(src[i])
            i += 1
    return "".join(out)


def coq_audit(ctx, props_file, theorems):
    """Build Props/<ID>.vo, grep its closure for forbidden words, Print Assumptions of each theorem.
    Returns (ok, problems:list[str]); fills ctx.coq_info."""
    problems = []
    ok, log = coq_build([props_file[:-2] + ".vo"])
    closure = v_closure(props_file)
    if not ok:
        m = re.search(r'File "([^"]+)", line (\d+)[^\n]*\n(.*)', log, re.S)
        where = ("%s:%s %s" % (m.group(1), m.group(2), m.group(3)[:400])) if m else log[-600:]
        problems.append("proof obligation no longer checks: " + where)
        ctx.coq_info = {"built": False, "closure": closure}
        return False, problems
    nq = 0
    sha = hashlib.sha256()
    for f in closure:
        src = open(os.path.join(COQ, f)).read()
        sha.update(src.encode())
        code = strip_comments(src)
        for m in FORBIDDEN.finditer(code):
            problems.append("forbidden construct %r in %s" % (m.group(0), f))
        nq += len(re.findall(r"\bQed\.", code))
    mod = "LI." + props_file[len("theories/"):-2].replace("/", ".")
    a = os.path.join(ctx.work, "audit_%s.v" % ctx.id)
    with open(a, "w") as fh:
        fh.write("Require Import %s.\n" % mod)
        for t in theorems:
            fh.write('Goal True. idtac "@@THM %s". exact I. Qed.\nPrint Assumptions %s.\n' % (t, t))
    rc, out, err = sh(["coqc", "-noglob", "-Q", os.path.join(COQ, "theories"), "LI", a], cwd=ctx.work, timeout=600)
    assum = {}
    if rc != 0:
        problems.append("audit file does not compile (a property theorem is missing?): " + (out + err)[-600:])
    else:
        for chunk in out.split("@@THM ")[1:]:
            name, _, rest = chunk.partition("\n")
            name = name.strip()
            if "Closed under the global context" in rest:
                assum[name] = []
            else:
                ax = re.findall(r"^([A-Za-z_][\w.']*)\s*:", rest, re.M)
                assum[name] = ax
                for x in ax:
                    if x not in ALLOWED_AXIOMS and x.split(".")[-1] not in ALLOWED_AXIOMS:
                        problems.append("theorem %s depends on non-allow-listed axiom %s" % (name, x))
        for t in theorems:
            if t not in assum:
                problems.append("no Print Assumptions output for " + t)
    ctx.coq_info = {"built": True, "closure": closure, "qed_in_closure": nq, "theorems": theorems,
                    "assumptions": assum, "sources_sha256": sha.hexdigest()}
    return not problems, problems



def coq_audit_multi(ctx, specs):
    """specs: [(props_file, theorems), ...]; audits each and merges ctx.coq_info. Returns (ok, problems)."""
    infos, ok, problems = [], True, []
    for props, ths in specs:
        o, pr = coq_audit(ctx, props, ths)
        ok, problems = ok and o, problems + pr
        infos.append(ctx.coq_info)
    bad = [ci for ci in infos if not ci.get("built")]
    if bad:
        ctx.coq_info = bad[0]
        return ok, problems
    closure = list(dict.fromkeys(f for ci in infos for f in ci["closure"]))
    nq = sum(len(re.findall(r"\bQed\.", strip_comments(open(COQ + "/" + f).read()))) for f in closure)
    assumptions = {}
    for ci in infos:
        assumptions.update(ci["assumptions"])
    ctx.coq_info = {"built": True, "closure": closure, "theorems": [t for ci in infos for t in ci["theorems"]], "qed_in_closure": nq,
                    "assumptions": assumptions, "sources_sha256": "+".join(ci["sources_sha256"] for ci in infos),
                    "targets": [p.replace(".v", ".vo") for p, _ in specs]}
    return ok, problems

def _coqc_file(path, timeout):
    rc, out, err = sh(["coqc", "-noglob", "-Q", os.path.join(COQ, "theories"), "LI", path],
                      cwd=os.path.dirname(path), timeout=timeout)
    return rc, out, err


def coq_eval(ctx, name, preamble, items, fn, shards=NCPU, timeout=900, min_per_shard=40):
    """Evaluate `fn item` (an N) for every Coq term in items with vm_compute, sharded over coqc processes.
    Returns list[int] aligned with items."""
    if not items:
        return []
    # the modules the case files import must be compiled and up to date (Check modules are not in a Props closure)
    mods = []
    for m in re.finditer(r"From\s+LI\s+Require\s+(?:Import\s+|Export\s+)?(.*?)\.(?=\s|$)", strip_comments(preamble), re.S):
        mods += ["theories/" + n.replace(".", "/") + ".vo" for n in m.group(1).split()]
    if mods:
        okb, logb = coq_build(mods)
        if not okb:
            raise Infra("cannot build the modules the case files import: " + logb[-1500:])
    k = max(1, min(shards, (len(items) + min_per_shard - 1) // min_per_shard))
    chunks = [items[i::k] for i in range(k)]
    paths = []
    d = os.path.join(ctx.work, "cases")
    os.makedirs(d, exist_ok=True)
    for i, ch in enumerate(chunks):
        p = os.path.join(d, "%s_s%d_%d.v" % (name, ctx.seed, i))
        with open(p, "w") as fh:
            fh.write(preamble)
            fh.write("\nDefinition cases_ := [\n")
            fh.write(";\n".join(ch))
            fh.write("\n].\nEval vm_compute in (List.map (%s) cases_).\n" % fn)
        paths.append(p)
    with ThreadPoolExecutor(max_workers=NCPU) as ex:
        res = list(ex.map(lambda p: _coqc_file(p, timeout), paths))
    outs = []
    for (rc, out, err), p, ch in zip(res, paths, chunks):
        if rc != 0:
            raise Infra("coqc failed on %s: %s" % (p, (out + err)[-1500:]))
        body = out[out.index("="):] if "=" in out else ""
        body = body.rsplit(": list", 1)[0]
        vals = [int(x) for x in re.findall(r"(\d+)(?:%N)?", body)]
        if len(vals) != len(ch):
            raise Infra("coqc output of %s has %d values for %d cases: %s" % (p, len(vals), len(ch), out[:400]))
        outs.append(vals)
    result = [None] * len(items)
    for i, vals in enumerate(outs):
        for j, v in enumerate(vals):
            result[i + j * k] = v
    for p in paths:
        for ext in ("", "o", "ok", "os"):
            try:
                os.remove(p[:-2] + ".v" + ext if ext else p)
            except OSError:
                pass
    return result


def coq_show(ctx, preamble, term, timeout=300):
    """Eval vm_compute of one term, returned as text (for replay files)."""
    p = os.path.join(ctx.work, "show_%d.v" % os.getpid())
    with open(p, "w") as fh:
        fh.write(preamble + "\nEval vm_compute in (%s).\n" % term)
    rc, out, err = _coqc_file(p, timeout)
    return (out if rc == 0 else out + err).strip()


# ---------------------------------------------------------------- findings, verdicts, evidence

def load_known(pid):
    p = os.path.join(ROOT, "known_findings.json")
    try:
        data = json.load(open(p))
    except OSError:
        return []
    return [f for f in data.get("findings", []) if f.get("property") == pid]


def write_replay(ctx, name, obj):
    os.makedirs(ctx.out_dir, exist_ok=True)
    p = os.path.join(ctx.out_dir, "%s_s%d.json" % (name, ctx.seed))
    with open(p, "w") as fh:
        json.dump(obj, fh, indent=1, ensure_ascii=False, default=str)
    return p


def violation(ctx, name, obj, no_input=False):
    p = write_replay(ctx, name, obj)
    ctx.violations.append((p, no_input))
    ctx.say("VIOLATION property=%s replay=%s%s" % (ctx.id, p, " no-failing-input-found" if no_input else ""))
    return p


def known_finding(ctx, finding, what):
    ctx.known_hits.append(finding.get("id", "?"))
    ctx.say("KNOWN-FINDING: property=%s %s" % (ctx.id, what))


def write_evidence(ctx, coverage, assumptions=None, level="proof"):
    cov = dict(coverage)
    ci = ctx.coq_info or {}
    if level == "proof":
        nthm = len(ci.get("theorems", []))
        cov.setdefault("obligations", max(1, ci.get("qed_in_closure", 0)))
        discharged = cov["obligations"] if ci.get("built") else 0
        cov.setdefault("discharged", max(1, discharged) if ci.get("built") else 1)
        cov.setdefault("checker_cmd", "make -C /verif/coq %s (coqc 8.16.1, full .vo build) + Print Assumptions audit" %
                       " ".join(ci.get("targets", ["theories/Props/%s.vo" % ctx.id])))
        cov.setdefault("trusted_base", [
            "Coq 8.16.1 kernel and vm_compute (no native_compute)",
            "axioms: " + json.dumps(ci.get("assumptions", {})),
            "hand-written Gallina model tied to /repo by the differential correspondence run recorded here",
            "Rust harness under /verif/harness compiled against /repo's working tree; Python case generator",
        ])
        cov["property_theorems"] = ci.get("theorems", [])
        cov["property_theorem_count"] = nthm
        cov["coq_sources_sha256"] = ci.get("sources_sha256")
        cov["coq_closure"] = ci.get("closure")
    ev = {
        "property_id": ctx.id,
        "tier": ctx.tier,
        "seed": ctx.seed,
        "level": level,
        "coverage": cov,
        "assumptions": assumptions or [],
        "wall_s": round(time.time() - ctx.t0, 2),
        "violations": len(ctx.violations),
        "known_findings_hit": ctx.known_hits,
    }
    # a run against a scratch tree (VERIF_CACHE set, see tools/try_seed.sh) must not overwrite the committed evidence
    evdir = os.path.join(CACHE, "evidence") if os.environ.get("VERIF_CACHE") else os.path.join(ROOT, "evidence")
    os.makedirs(evdir, exist_ok=True)
    with open(os.path.join(evdir, ctx.id + ".json"), "w") as fh:
        json.dump(ev, fh, indent=1, ensure_ascii=False, default=str)
    return ev


def finish(ctx):
    return 1 if ctx.violations else 0


def distinct_count(keys):
    return len(set(keys))


def coq_list(xs):
    return "[" + "; ".join(xs) + "]"


def coq_str(s):
    """a Rust/Python string as list N of code points"""
    return "[" + "; ".join(str(ord(c)) for c in s) + "]"


def coq_opt(x, f=str):
    return "None" if x is None else "(Some %s)" % f(x)

