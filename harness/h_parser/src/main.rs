//! Parser-level correspondence harness (H1).  Modes (argv[1]):
//!   parse : one string per stdin line (code points, comma separated) -> ParsedValue::new as a Coq term
//!           of type `res pv`, a tab, then `reduce()` of it as `option pv` (None when it holds a foreign key).
use leptos_i18n_parser::parse_locales::{
    error::Error,
    parsed_value::{ForeignKey, Literal, ParsedValue},
    ForeignKeysPaths,
};
use leptos_i18n_parser::utils::{
    formatter::{CurrencyWidth, DateLength, Formatter, GroupingStrategy, ListStyle, ListType, TimeLength},
    Key, KeyPath,
};
use std::io::{BufRead, Write};

fn pstr(s: &str, out: &mut String) {
    out.push('[');
    let mut first = true;
    for c in s.chars() {
        if !first {
            out.push(';');
        }
        first = false;
        out.push_str(&(c as u32).to_string());
    }
    out.push(']');
}
fn dl(d: DateLength) -> u32 {
    match d { DateLength::Full => 0, DateLength::Long => 1, DateLength::Medium => 2, DateLength::Short => 3 }
}
fn tl(d: TimeLength) -> u32 {
    match d { TimeLength::Full => 0, TimeLength::Long => 1, TimeLength::Medium => 2, TimeLength::Short => 3 }
}
fn pfmt(f: &Formatter, out: &mut String) {
    match f {
        Formatter::None => out.push_str("FNone"),
        Formatter::Number(g) => {
            let g = match g { GroupingStrategy::Auto => 0, GroupingStrategy::Never => 1, GroupingStrategy::Always => 2, GroupingStrategy::Min2 => 3 };
            out.push_str(&format!("(FNumber {})", g));
        }
        Formatter::Date(d) => out.push_str(&format!("(FDate {})", dl(*d))),
        Formatter::Time(t) => out.push_str(&format!("(FTime {})", tl(*t))),
        Formatter::DateTime(d, t) => out.push_str(&format!("(FDateTime {} {})", dl(*d), tl(*t))),
        Formatter::List(ty, st) => {
            let ty = match ty { ListType::And => 0, ListType::Or => 1, ListType::Unit => 2 };
            let st = match st { ListStyle::Wide => 0, ListStyle::Short => 1, ListStyle::Narrow => 2 };
            out.push_str(&format!("(FList {} {})", ty, st));
        }
        Formatter::Currency(w, c) => {
            let w = match w { CurrencyWidth::Short => 0, CurrencyWidth::Narrow => 1 };
            out.push_str(&format!("(FCurrency {} ", w));
            pstr(c.0.as_str(), out);
            out.push(')');
        }
    }
}
fn plit(l: &Literal, out: &mut String) {
    match l {
        Literal::String(s, _) => { out.push_str("(LStr "); pstr(s, out); out.push(')'); }
        Literal::Signed(v) => out.push_str(&format!("(LSigned ({})%Z)", v)),
        Literal::Unsigned(v) => out.push_str(&format!("(LUnsigned {})", v)),
        Literal::Float(v) => { out.push_str("(LFloat "); pstr(&v.to_string(), out); out.push(')'); }
        Literal::Bool(b) => out.push_str(if *b { "(LBool true)" } else { "(LBool false)" }),
    }
}
/// returns false when the value holds something the string-level model has no constructor for
fn ppv(v: &ParsedValue, out: &mut String, has_fk: &mut bool) -> bool {
    match v {
        ParsedValue::Literal(l) => { out.push_str("(PLit "); plit(l, out); out.push(')'); true }
        ParsedValue::Variable { key, formatter } => {
            out.push_str("(PVar "); pstr(&key.name, out); out.push(' '); pfmt(formatter, out); out.push(')'); true
        }
        ParsedValue::Component { key, inner } => {
            out.push_str("(PComp "); pstr(&key.name, out); out.push(' ');
            let ok = ppv(inner, out, has_fk); out.push(')'); ok
        }
        ParsedValue::Bloc(l) => {
            out.push_str("(PBloc [");
            let mut ok = true;
            for (i, x) in l.iter().enumerate() {
                if i > 0 { out.push(';'); }
                ok &= ppv(x, out, has_fk);
            }
            out.push_str("])");
            ok
        }
        ParsedValue::ForeignKey(fk) => {
            *has_fk = true;
            match &*fk.borrow() {
                ForeignKey::NotSet(path, args) => {
                    out.push_str("(PForeign ");
                    match &path.namespace {
                        Some(ns) => { out.push_str("(Some "); pstr(&ns.name, out); out.push(')'); }
                        None => out.push_str("None"),
                    }
                    out.push_str(" [");
                    for (i, k) in path.path.iter().enumerate() {
                        if i > 0 { out.push(';'); }
                        pstr(&k.name, out);
                    }
                    out.push_str("] [");
                    let mut ok = true;
                    for (i, (k, x)) in args.iter().enumerate() {
                        if i > 0 { out.push(';'); }
                        out.push('('); pstr(k, out); out.push_str(", ");
                        ok &= ppv(x, out, has_fk);
                        out.push(')');
                    }
                    out.push_str("])");
                    ok
                }
                ForeignKey::Set(_) => false,
            }
        }
        _ => false,
    }
}

fn err_kind(e: &Error) -> u32 {
    match e {
        Error::UnexpectedToken { .. } => 1,
        Error::UnknownFormatter { .. } => 2,
        Error::InvalidForeignKeyArgs { .. } => 3,
        Error::DisabledFormatter { .. } => 4,
        _ => 99,
    }
}

fn decode(line: &str) -> String {
    line.split(',').filter(|x| !x.is_empty()).map(|x| char::from_u32(x.parse::<u32>().unwrap()).unwrap()).collect()
}

fn mode_parse() {
    let stdin = std::io::stdin();
    let mut o = std::io::BufWriter::new(std::io::stdout().lock());
    for line in stdin.lock().lines() {
        let s = decode(&line.unwrap());
        let r = std::panic::catch_unwind(|| {
            let kp = KeyPath::new(None);
            let loc = Key::new("en").unwrap();
            let f = ForeignKeysPaths::new();
            let mut out = String::new();
            let mut red = String::from("None");
            match ParsedValue::new(&s, &kp, &loc, &f) {
                Ok(mut v) => {
                    let mut has_fk = false;
                    out.push_str("(Ok ");
                    let ok = ppv(&v, &mut out, &mut has_fk);
                    out.push(')');
                    if !ok { out = "Unmodelled".to_string(); }
                    if ok && !has_fk {
                        v.reduce();
                        let mut r = String::from("(Some ");
                        let mut h = false;
                        if ppv(&v, &mut r, &mut h) { r.push(')'); red = r; }
                    }
                }
                Err(e) => out.push_str(&format!("(Err {})", err_kind(&e))),
            }
            format!("{}\t{}", out, red)
        });
        writeln!(o, "{}", r.unwrap_or_else(|_| "(Panic 0)\tNone".to_string())).unwrap();
    }
}

fn variant_name(dbg: &str) -> String {
    dbg.chars().take_while(|c| c.is_alphanumeric() || *c == '_').collect()
}

fn dump_level(
    ns: &str,
    locales: &[leptos_i18n_parser::parse_locales::locale::Locale],
    keys: &leptos_i18n_parser::parse_locales::locale::BuildersKeysInner,
    prefix: &str,
    o: &mut dyn Write,
) {
    use leptos_i18n_parser::parse_locales::locale::LocaleValue;
    for locale in locales {
        let top = &locale.top_locale_name.name;
        for (k, v) in &locale.keys {
            let path = if prefix.is_empty() { k.name.to_string() } else { format!("{}.{}", prefix, k.name) };
            match v {
                ParsedValue::Subkeys(_) => {}
                ParsedValue::Default => writeln!(o, "V\t{}\t{}\t{}\tDEFAULT", ns, top, path).unwrap(),
                v => {
                    let mut out = String::new();
                    let mut has_fk = false;
                    if ppv(v, &mut out, &mut has_fk) {
                        writeln!(o, "V\t{}\t{}\t{}\t{}", ns, top, path, out).unwrap();
                    } else {
                        writeln!(o, "V\t{}\t{}\t{}\tOTHER {:?}", ns, top, path, v).unwrap();
                    }
                }
            }
        }
        writeln!(o, "S\t{}\t{}\t{}\t{}\t{}", ns, top, prefix, locale.strings.len(), locale.top_locale_string_count).unwrap();
    }
    for (k, lv) in &keys.0 {
        if let LocaleValue::Subkeys { locales, keys } = lv {
            let path = if prefix.is_empty() { k.name.to_string() } else { format!("{}.{}", prefix, k.name) };
            dump_level(ns, locales, keys, &path, o);
        }
    }
}

/// one project directory per stdin line: the whole loading pipeline (parse_locales), final values per locale/key
fn mode_project() {
    use leptos_i18n_parser::parse_locales::{locale::BuildersKeys, parse_locales};
    let stdin = std::io::stdin();
    let mut o = std::io::BufWriter::new(std::io::stdout().lock());
    for line in stdin.lock().lines() {
        let dir = line.unwrap();
        let d2 = dir.clone();
        let r = std::panic::catch_unwind(move || {
            let mut buf: Vec<u8> = Vec::new();
            match parse_locales(false, Some(std::path::PathBuf::from(&d2))) {
                Ok((keys, warnings, _tracked)) => {
                    writeln!(buf, "RESULT\tok").unwrap();
                    match &keys {
                        BuildersKeys::Locales { locales, keys } => dump_level("-", locales, keys, "", &mut buf),
                        BuildersKeys::NameSpaces { namespaces, keys } => {
                            for ns in namespaces {
                                if let Some(k) = keys.get(&ns.key) {
                                    dump_level(&ns.key.name, &ns.locales, k, "", &mut buf);
                                }
                            }
                        }
                    }
                    let mut ws: Vec<String> = warnings.into_inner().iter().map(|w| format!("{:?}", w)).collect();
                    ws.sort();
                    for w in ws { writeln!(buf, "W\t{}", w.replace('\n', " ")).unwrap(); }
                }
                Err(e) => {
                    let dbg = format!("{:?}", e).replace('\n', " ");
                    writeln!(buf, "RESULT\terr\t{}\t{}", variant_name(&dbg), dbg).unwrap();
                }
            }
            buf
        });
        match r {
            Ok(buf) => o.write_all(&buf).unwrap(),
            Err(p) => {
                let msg = p.downcast_ref::<String>().cloned().or_else(|| p.downcast_ref::<&str>().map(|s| s.to_string())).unwrap_or_default();
                writeln!(o, "RESULT\tPANIC\t{}", msg.replace('\n', " ")).unwrap();
            }
        }
        writeln!(o, "END\t{}", dir).unwrap();
        o.flush().unwrap();
    }
}

fn main() {
    std::panic::set_hook(Box::new(|_| {}));
    let mode = std::env::args().nth(1).unwrap_or_default();
    match mode.as_str() {
        "parse" => mode_parse(),
        "project" => mode_project(),
        _ => { eprintln!("unknown mode {mode:?}"); std::process::exit(2); }
    }
}
