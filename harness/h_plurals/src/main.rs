//! C05 / C08 correspondence harness.
//! Modes (argv[1]):
//!   parse  — one generated project directory per stdin line; prints one JSON line per project
//!            (per-locale merge_plurals result, whole-pipeline builder keys, warnings, error)
//!   rt     — runtime dump over the fixed plural project (td_string!/td!/td_plural!/ICU4X table)
#![allow(dead_code, unused_imports, deprecated)]

leptos_i18n::load_locales!();

mod m_parse;
mod m_rt;

fn main() {
    std::panic::set_hook(Box::new(|_| {}));
    let mode = std::env::args().nth(1).unwrap_or_default();
    match mode.as_str() {
        "parse" => m_parse::run(),
        "rt" => m_rt::run(),
        "variants" => m_rt::variants(),
        _ => {
            eprintln!("unknown mode {mode:?}");
            std::process::exit(2);
        }
    }
}
