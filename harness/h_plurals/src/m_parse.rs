//! Parser level: for every project directory read from stdin print one JSON object
//! { "load_err": kind? ,
//!   "locales": [ {"name", "raw": tree, "merge": {"ok": tree} | {"err": {kind, locale, path}} | "PANIC", "unused": [[path, form, rule]..] } ],
//!   "pipeline": {"ok": {"keys": tree of interpolation keys, "warnings": [...] }} | {"err": {...}} | "PANIC" }
use leptos_i18n_parser::parse_locales::error::Error;
use leptos_i18n_parser::parse_locales::locale::{
    BuildersKeys, BuildersKeysInner, InterpolOrLit, Locale, LocaleValue, LocalesOrNamespaces, Namespace, RangeOrPlural,
};
use leptos_i18n_parser::parse_locales::parsed_value::{Literal, ParsedValue};
use leptos_i18n_parser::parse_locales::plurals::{PluralForm, PluralRuleType};
use leptos_i18n_parser::parse_locales::warning::{Warning, Warnings};
use leptos_i18n_parser::parse_locales::{make_builder_keys, parse_locales_raw};
use leptos_i18n_parser::utils::{Key, KeyPath};
use serde_json::{json, Value};
use std::io::{BufRead, Write};
use std::panic::{catch_unwind, AssertUnwindSafe};

fn form_name(f: PluralForm) -> &'static str {
    match f {
        PluralForm::Zero => "zero",
        PluralForm::One => "one",
        PluralForm::Two => "two",
        PluralForm::Few => "few",
        PluralForm::Many => "many",
        PluralForm::Other => "other",
    }
}

fn rule_name(r: PluralRuleType) -> &'static str {
    match r {
        PluralRuleType::Cardinal => "cardinal",
        PluralRuleType::Ordinal => "ordinal",
    }
}

fn path_json(p: &KeyPath) -> Value {
    let mut v: Vec<String> = vec![];
    if let Some(ns) = &p.namespace {
        v.push(format!("{}::", ns.name));
    }
    v.extend(p.path.iter().map(|k| k.name.to_string()));
    json!(v)
}

/// id of a leaf value: the digits after the first '#' of the first string literal found (generator convention)
fn find_id(v: &ParsedValue) -> Option<String> {
    match v {
        ParsedValue::Literal(Literal::String(s, _)) => {
            let i = s.find('#')?;
            let d: String = s[i + 1..].chars().take_while(|c| c.is_ascii_digit()).collect();
            if d.is_empty() {
                None
            } else {
                Some(d)
            }
        }
        ParsedValue::Literal(Literal::Unsigned(n)) => Some(n.to_string()),
        ParsedValue::Literal(_) => None,
        ParsedValue::Bloc(vs) => vs.iter().find_map(find_id),
        ParsedValue::Component { inner, .. } => find_id(inner),
        ParsedValue::Ranges(r) => {
            let mut out = None;
            let _ = r.try_for_each_value::<_, ()>(|v| {
                if out.is_none() {
                    out = find_id(v);
                }
                Ok(())
            });
            out
        }
        ParsedValue::Plurals(p) => find_id(&p.other),
        _ => None,
    }
}

/// the count keys (with their kind) of every Ranges / Plurals node inside a value
fn count_keys(v: &ParsedValue, out: &mut Vec<Value>) {
    match v {
        ParsedValue::Plurals(p) => {
            out.push(json!([&*p.count_key.name, "Plural"]));
            for f in p.forms.values() {
                count_keys(f, out);
            }
            count_keys(&p.other, out);
        }
        ParsedValue::Ranges(r) => {
            out.push(json!([&*r.count_key.name, format!("{:?}", r.get_type())]));
            let _ = r.try_for_each_value::<_, ()>(|v| {
                count_keys(v, out);
                Ok(())
            });
        }
        ParsedValue::Bloc(vs) => vs.iter().for_each(|v| count_keys(v, out)),
        ParsedValue::Component { inner, .. } => count_keys(inner, out),
        ParsedValue::ForeignKey(fk) => {
            if let leptos_i18n_parser::parse_locales::parsed_value::ForeignKey::Set(inner) = &*fk.borrow() {
                count_keys(inner, out)
            }
        }
        _ => {}
    }
}

fn value_tree(v: &ParsedValue) -> Value {
    match v {
        ParsedValue::Subkeys(Some(l)) => json!({"k": "sub", "keys": keys_tree(l)}),
        ParsedValue::Subkeys(None) => json!({"k": "sub", "keys": []}),
        ParsedValue::Ranges(_) => json!({"k": "ranges", "id": find_id(v)}),
        ParsedValue::Plurals(p) => {
            let forms: Vec<Value> = p.forms.iter().map(|(f, v)| json!([form_name(*f), value_tree(v)])).collect();
            json!({"k": "plural", "rule": rule_name(p.rule_type), "count": &*p.count_key.name, "other": value_tree(&p.other), "forms": forms})
        }
        ParsedValue::Default => json!({"k": "default"}),
        _ => json!({"k": "leaf", "id": find_id(v)}),
    }
}

fn keys_tree(l: &Locale) -> Value {
    Value::Array(l.keys.iter().map(|(k, v)| json!([&*k.name, value_tree(v)])).collect())
}

/// tree before merging; every key carries the answer of the real `Locale::is_possible_plural` and whether
/// `Key::new(base)` accepts the base key
fn raw_tree(l: &Locale) -> Value {
    Value::Array(
        l.keys
            .iter()
            .map(|(k, v)| {
                let pp = match Locale::is_possible_plural(k, v) {
                    Some((base, rule, form)) => json!([base, rule_name(rule), form_name(form), Key::new(base).is_some()]),
                    None => Value::Null,
                };
                let t = match v {
                    ParsedValue::Subkeys(Some(l)) => json!({"k": "sub", "keys": raw_tree(l)}),
                    _ => value_tree(v),
                };
                json!([&*k.name, t, pp])
            })
            .collect(),
    )
}

fn err_json(e: &Error) -> Value {
    match e {
        Error::ConflictingPluralRuleType { locale, key_path } => {
            json!({"kind": "ConflictingPluralRuleType", "locale": &*locale.name, "path": path_json(key_path)})
        }
        Error::PluralsAtNormalKey { locale, key_path } => {
            json!({"kind": "PluralsAtNormalKey", "locale": &*locale.name, "path": path_json(key_path)})
        }
        Error::RangeAndPluralsMix { key_path } => json!({"kind": "RangeAndPluralsMix", "path": path_json(key_path)}),
        Error::RangeTypeMissmatch { key_path, type1, type2 } => {
            json!({"kind": "RangeTypeMissmatch", "path": path_json(key_path), "type1": format!("{type1:?}"), "type2": format!("{type2:?}")})
        }
        Error::SubKeyMissmatch { locale, key_path } => {
            json!({"kind": "SubKeyMissmatch", "locale": &*locale.name, "path": path_json(key_path)})
        }
        Error::DisabledPlurals { locale, key_path } => {
            json!({"kind": "DisabledPlurals", "locale": &*locale.name, "path": path_json(key_path)})
        }
        Error::ExplicitDefaultInDefault(key_path) => json!({"kind": "ExplicitDefaultInDefault", "path": path_json(key_path)}),
        Error::MissingForeignKey { foreign_key, locale, key_path } => {
            json!({"kind": "MissingForeignKey", "locale": &*locale.name, "path": path_json(key_path), "foreign": path_json(foreign_key)})
        }
        Error::InvalidForeignKey { foreign_key, locale, key_path } => {
            json!({"kind": "InvalidForeignKey", "locale": &*locale.name, "path": path_json(key_path), "foreign": path_json(foreign_key)})
        }
        Error::RecursiveForeignKey { locale, key_path } => {
            json!({"kind": "RecursiveForeignKey", "locale": &*locale.name, "path": path_json(key_path)})
        }
        Error::InvalidCountArg { locale, key_path, foreign_key } => {
            json!({"kind": "InvalidCountArg", "locale": &*locale.name, "path": path_json(key_path), "foreign": path_json(foreign_key)})
        }
        Error::InvalidKey(key) => json!({"kind": "InvalidKey", "key": key}),
        Error::LocaleFileDeser { path, err } => {
            json!({"kind": "LocaleFileDeser", "file": path.file_name().map(|s| s.to_string_lossy().to_string()), "msg": err.to_string()})
        }
        other => {
            let dbg = format!("{other:?}");
            let kind: String = dbg.chars().take_while(|c| c.is_alphanumeric()).collect();
            json!({"kind": kind, "msg": other.to_string()})
        }
    }
}

fn warning_json(w: &Warning) -> Value {
    match w {
        Warning::MissingKey { locale, key_path } => json!(["MissingKey", &*locale.name, path_json(key_path)]),
        Warning::SurplusKey { locale, key_path } => json!(["SurplusKey", &*locale.name, path_json(key_path)]),
        Warning::UnusedForm { locale, key_path, form, rule_type } => {
            json!(["UnusedForm", &*locale.name, path_json(key_path), form_name(*form), rule_name(*rule_type)])
        }
        Warning::NonUnicodePath { locale, .. } => json!(["NonUnicodePath", &*locale.name]),
    }
}

fn iol_json(v: &InterpolOrLit) -> Value {
    match v {
        InterpolOrLit::Lit(t) => json!({"lit": format!("{t:?}")}),
        InterpolOrLit::Interpol(keys) => {
            let comps: Vec<String> = keys.iter_comps().map(|k| k.name.to_string()).collect();
            let vars: Vec<Value> = keys
                .iter_vars()
                .map(|(k, info)| {
                    let fmts: Vec<String> = info.formatters.iter().map(|f| format!("{f:?}")).collect();
                    let rc = match info.range_count {
                        None => Value::Null,
                        Some(RangeOrPlural::Plural) => json!("Plural"),
                        Some(RangeOrPlural::Range(t)) => json!(format!("{t:?}")),
                    };
                    json!([&*k.name, fmts, rc])
                })
                .collect();
            json!({"comps": comps, "vars": vars})
        }
    }
}

fn builder_keys_json(keys: &BuildersKeysInner) -> Value {
    Value::Array(
        keys.0
            .iter()
            .map(|(k, v)| match v {
                LocaleValue::Value { value, defaults } => {
                    let d: Vec<Value> = defaults
                        .compute()
                        .into_iter()
                        .map(|(to, from)| json!([&*to.name, from.iter().map(|k| k.name.to_string()).collect::<Vec<_>>()]))
                        .collect();
                    json!([&*k.name, {"value": iol_json(value), "defaults": d}])
                }
                LocaleValue::Subkeys { keys, .. } => json!([&*k.name, {"sub": builder_keys_json(keys)}]),
            })
            .collect(),
    )
}

fn locales_of(l: &LocalesOrNamespaces) -> Vec<(Option<Key>, &Locale)> {
    match l {
        LocalesOrNamespaces::Locales(ls) => ls.iter().map(|l| (None, l)).collect(),
        LocalesOrNamespaces::NameSpaces(nss) => {
            nss.iter().flat_map(|ns| ns.locales.iter().map(move |l| (Some(ns.key.clone()), l))).collect()
        }
    }
}

fn one_project(dir: &str) -> Value {
    let raw = catch_unwind(|| parse_locales_raw(false, Some(dir.into())));
    let (locales, cfg, fkp, warnings, _tracked) = match raw {
        Err(_) => return json!({"load": "PANIC"}),
        Ok(Err(e)) => return json!({"load": {"err": err_json(&e)}}),
        Ok(Ok(x)) => x,
    };
    let mut per_locale = vec![];
    for (ns, loc) in locales_of(&locales) {
        let raw_tree = raw_tree(loc);
        let mut l2 = loc.clone();
        let w = Warnings::new();
        let name = loc.name.clone();
        let r = catch_unwind(AssertUnwindSafe(|| {
            let mut kp = KeyPath::new(ns.clone());
            l2.merge_plurals(name.clone(), &mut kp, &w)
        }));
        let merge = match r {
            Err(_) => json!("PANIC"),
            Ok(Err(e)) => json!({"err": err_json(&e)}),
            Ok(Ok(())) => json!({"ok": keys_tree(&l2)}),
        };
        let ws: Vec<Value> = w.into_inner().iter().map(warning_json).collect();
        per_locale.push(json!({"name": &*loc.name.name, "ns": ns.as_ref().map(|k| k.name.to_string()), "raw": raw_tree, "merge": merge, "warnings": ws}));
    }
    // the whole plural-merging step (all locales of the project together), on a copy
    let project_merge = {
        let mut copy = match &locales {
            LocalesOrNamespaces::Locales(ls) => LocalesOrNamespaces::Locales(ls.clone()),
            LocalesOrNamespaces::NameSpaces(nss) => LocalesOrNamespaces::NameSpaces(
                nss.iter().map(|ns| Namespace { key: ns.key.clone(), locales: ns.locales.clone() }).collect(),
            ),
        };
        let w = Warnings::new();
        let r = catch_unwind(AssertUnwindSafe(|| copy.merge_plurals(&w)));
        // the warnings (UnusedForm) of the whole-project merging, for every locale
        let ws: Vec<Value> = w.into_inner().iter().map(warning_json).collect();
        match r {
            Err(_) => json!("PANIC"),
            Ok(Err(e)) => json!({"err": err_json(&e)}),
            Ok(Ok(())) => {
                let ls: Vec<Value> = locales_of(&copy)
                    .into_iter()
                    .map(|(ns, l)| json!({"name": &*l.name.name, "ns": ns.as_ref().map(|k| k.name.to_string()), "keys": keys_tree(l)}))
                    .collect();
                json!({"ok": ls, "warnings": ws})
            }
        }
    };
    let pipe = catch_unwind(AssertUnwindSafe(|| make_builder_keys(locales, &cfg, fkp, &warnings, false)));
    let pipeline = match pipe {
        Err(_) => json!("PANIC"),
        Ok(Err(e)) => json!({"err": err_json(&e)}),
        Ok(Ok(bk)) => {
            let keys = match &bk {
                BuildersKeys::Locales { keys, .. } => builder_keys_json(keys),
                BuildersKeys::NameSpaces { keys, .. } => {
                    Value::Array(keys.iter().map(|(ns, k)| json!([format!("{}::", ns.name), {"sub": builder_keys_json(k)}])).collect())
                }
            };
            // the final (resolved, reduced) value of every top-level key of every locale
            let finals: Vec<Value> = match &bk {
                BuildersKeys::Locales { locales, .. } => locales
                    .iter()
                    .map(|l| {
                        let counts: Vec<Value> = l
                            .keys
                            .iter()
                            .map(|(k, v)| {
                                let mut c = vec![];
                                count_keys(v, &mut c);
                                json!([&*k.name, c])
                            })
                            .collect();
                        json!({"name": &*l.name.name, "keys": keys_tree(l), "counts": counts})
                    })
                    .collect(),
                BuildersKeys::NameSpaces { namespaces, .. } => namespaces
                    .iter()
                    .flat_map(|ns| ns.locales.iter().map(move |l| json!({"name": &*l.name.name, "ns": &*ns.key.name, "keys": keys_tree(l)})))
                    .collect(),
            };
            json!({"ok": {"keys": keys, "final": finals}})
        }
    };
    let ws: Vec<Value> = warnings.into_inner().iter().map(warning_json).collect();
    json!({"locales": per_locale, "project_merge": project_merge, "pipeline": pipeline, "warnings": ws})
}

pub fn run() {
    let stdin = std::io::stdin();
    let mut o = std::io::stdout().lock();
    for line in stdin.lock().lines() {
        let line = line.unwrap();
        let v = one_project(line.trim());
        writeln!(o, "{}", v).unwrap();
    }
}
