//! Runtime level (fixed plural project in ./locales, compiled by load_locales!()):
//!   N <ints, comma separated>                      the integer operands used below
//!   D <decimal operand strings>                    the decimal operands
//!   C <locale> <c|o> <categories()>                ICU4X PluralRules::categories
//!   T <locale> <c|o> <category per integer>|<category per decimal>     ICU4X category table (the oracle)
//!   P <locale> <c|o> <td_plural!/td_plural_ordinal! result per integer>|<partial-arms variant per integer>
//!   F <locale> <ref key> <plural key> <count> <td_string!(locale, ref key)>: `$t(plural key, {"count": N})`, selected at parse time
//!   S <locale> <key> <td_string! text per integer, U+001F separated>
//!   H <locale> <key> <td!(..).to_html() per integer (first 41 integers), U+001F separated>
//!   O <locale> <key> <td_string! with PluralOperands parsed from the decimal strings>
use crate::i18n::*;
use icu_plurals::{PluralCategory, PluralOperands, PluralRuleType, PluralRules};
use leptos::prelude::*;
use leptos_i18n::plurals::{td_plural, td_plural_ordinal};
use leptos_i18n::{td, td_string};
use std::io::Write;

fn html<T: IntoView>(v: T) -> String {
    v.into_view().to_html()
}

include!("fixed_keys.rs");

fn cat_name(c: PluralCategory) -> &'static str {
    match c {
        PluralCategory::Zero => "zero",
        PluralCategory::One => "one",
        PluralCategory::Two => "two",
        PluralCategory::Few => "few",
        PluralCategory::Many => "many",
        PluralCategory::Other => "other",
    }
}

pub fn ints() -> Vec<u64> {
    let mut v: Vec<u64> = (0..=200).collect();
    v.extend([
        1000, 1001, 1002, 1003, 1011, 1012, 1021, 1100, 1111, 2000, 5000, 10000, 100000, 999999, 1000000, 1000001, 2000000, 3000000,
        1000000000, 1000000011, 1000000000000, 9007199254740993, 18446744073709551615,
    ]);
    v
}

pub const DECIMALS: &[&str] = &[
    "0.0", "0.5", "1.0", "1.00", "1.5", "2.0", "2.5", "3.0", "5.0", "6.0", "10.0", "11.0", "21.0", "0.1", "0.01", "1.1", "1.10", "100.0",
    "101.0", "1000000.0", "1000000.5", "3.14", "22.0", "0.2",
];

pub fn run() {
    let mut o = std::io::stdout().lock();
    let ns = ints();
    writeln!(o, "N {}", ns.iter().map(|n| n.to_string()).collect::<Vec<_>>().join(",")).unwrap();
    writeln!(o, "D {}", DECIMALS.join(",")).unwrap();
    let ops: Vec<PluralOperands> = DECIMALS.iter().map(|d| d.parse().unwrap()).collect();
    for (name, loc) in LOCALES {
        let icu: icu_locid::Locale = name.parse().unwrap();
        for (tag, rt) in [('c', PluralRuleType::Cardinal), ('o', PluralRuleType::Ordinal)] {
            let rules = PluralRules::try_new(&(&icu).into(), rt).unwrap();
            let cats: Vec<&str> = rules.categories().map(cat_name).collect();
            writeln!(o, "C {name} {tag} {}", cats.join(",")).unwrap();
            let t1: Vec<&str> = ns.iter().map(|n| cat_name(rules.category_for(*n))).collect();
            let t2: Vec<&str> = ops.iter().map(|n| cat_name(rules.category_for(*n))).collect();
            writeln!(o, "T {name} {tag} {}|{}", t1.join(","), t2.join(",")).unwrap();
            let r = std::panic::catch_unwind(|| {
                let p1: Vec<&str> = ns
                    .iter()
                    .map(|n| {
                        let n = *n;
                        if tag == 'c' {
                            td_plural!(*loc, count = move || n, zero => "zero", one => "one", two => "two", few => "few", many => "many", _ => "other")
                        } else {
                            td_plural_ordinal!(*loc, count = move || n, zero => "zero", one => "one", two => "two", few => "few", many => "many", _ => "other")
                        }
                    })
                    .collect();
                let p2: Vec<&str> = ns
                    .iter()
                    .map(|n| {
                        let n = *n;
                        if tag == 'c' {
                            td_plural!(*loc, count = move || n, one => "one", few => "few", _ => "fallback")
                        } else {
                            td_plural_ordinal!(*loc, count = move || n, one => "one", few => "few", _ => "fallback")
                        }
                    })
                    .collect();
                format!("{}|{}", p1.join(","), p2.join(","))
            });
            writeln!(o, "P {name} {tag} {}", r.unwrap_or_else(|_| "PANIC".into())).unwrap();
        }
        for (rkey, pk, n, f) in REFS {
            let r = std::panic::catch_unwind(|| f(*loc));
            writeln!(o, "F {name} {rkey} {pk} {n} {}", r.unwrap_or_else(|_| "PANIC".into())).unwrap();
        }
        for (key, _kind, fs, fh, fo) in KEYS {
            let r = std::panic::catch_unwind(|| ns.iter().map(|n| fs(*loc, *n)).collect::<Vec<_>>().join("\u{1f}"));
            writeln!(o, "S {name} {key} {}", r.unwrap_or_else(|_| "PANIC".into())).unwrap();
            let r = std::panic::catch_unwind(|| ns.iter().take(41).map(|n| fh(*loc, *n)).collect::<Vec<_>>().join("\u{1f}"));
            writeln!(o, "H {name} {key} {}", r.unwrap_or_else(|_| "PANIC".into())).unwrap();
            if let Some(fo) = fo {
                let r = std::panic::catch_unwind(|| ops.iter().map(|n| fo(*loc, *n)).collect::<Vec<_>>().join("\u{1f}"));
                writeln!(o, "O {name} {key} {}", r.unwrap_or_else(|_| "PANIC".into())).unwrap();
            }
        }
    }
}

/// Regional / script variants whose plural rules may differ from their bare language's.
/// Prints `V <variant> <c|o> same|differs <first differing operand>=<variant category>/<language category>`.
pub const VARIANTS: &[&str] = &[
    "pt-PT", "pt-BR", "pt-AO", "pt-MZ", "pt-CH", "pt-LU", "pt-CV", "pt-GW", "pt-MO", "pt-ST", "pt-TL", "pt-GQ",
    "es-419", "es-MX", "es-AR", "es-US", "es-ES", "en-GB", "en-US", "en-AU", "en-IN", "en-CA", "en-001", "en-150",
    "fr-CA", "fr-CH", "fr-BE", "fr-FR", "de-AT", "de-CH", "de-DE", "it-CH", "nl-BE", "sv-FI", "ru-UA", "ru-BY",
    "ar-EG", "ar-SA", "ar-MA", "ar-DZ", "ar-AE", "zh-Hans", "zh-Hant", "zh-Hant-TW", "zh-Hans-CN", "zh-HK", "zh-TW",
    "sr-Latn", "sr-Cyrl", "sr-Latn-RS", "sr-ME", "bs-Cyrl", "bs-Latn", "uz-Cyrl", "uz-Latn", "az-Cyrl", "az-Latn",
    "pa-Arab", "pa-Guru", "ks-Deva", "ks-Arab", "sd-Deva", "sd-Arab", "shi-Latn", "shi-Tfng", "vai-Latn", "vai-Vaii",
    "ha-NE", "ha-GH", "sw-KE", "sw-CD", "sw-UG", "ms-BN", "ms-SG", "ms-ID", "bn-IN", "ta-LK", "ta-SG", "ur-IN",
    "ro-MD", "hr-BA", "el-CY", "tr-CY", "ko-KP", "ca-AD", "ca-FR", "ca-ES-valencia", "eu-ES", "gl-ES", "ga-GB",
    "he-IL", "cy-GB", "ja-JP", "pl-PL", "ff-Adlm", "ff-Latn", "kk-KZ", "mn-Mong", "yue-Hans", "yue-Hant", "nb-SJ",
    "nn-NO", "no-NO", "fil-PH", "tl-PH", "iw-IL", "in-ID", "ji-001", "mo-MD", "sh-BA", "fa-AF", "ps-PK", "ne-IN",
    "so-KE", "ti-ER", "om-KE", "af-NA", "lt-LT", "lv-LV", "sl-SI", "cs-CZ", "sk-SK", "uk-UA", "be-BY", "mt-MT",
    "gd-GB", "br-FR", "gv-IM", "kw-GB", "se-FI", "se-SE", "smn-FI", "is-IS", "da-GL", "fo-DK", "hy-AM", "ka-GE",
];

pub fn variants() {
    let mut o = std::io::stdout().lock();
    let ns = ints();
    let ops: Vec<PluralOperands> = DECIMALS.iter().map(|d| d.parse().unwrap()).collect();
    let table = |loc: &icu_locid::Locale, rt: PluralRuleType| -> String {
        let r = PluralRules::try_new(&loc.into(), rt).unwrap();
        let mut t: Vec<&str> = ns.iter().map(|n| cat_name(r.category_for(*n))).collect();
        t.extend(ops.iter().map(|n| cat_name(r.category_for(*n))));
        t.join(",")
    };
    let und: icu_locid::Locale = "und".parse().unwrap();
    for (tag, rt) in [('c', PluralRuleType::Cardinal), ('o', PluralRuleType::Ordinal)] {
        writeln!(o, "V und und {tag} {}", table(&und, rt)).unwrap();
    }
    for v in VARIANTS {
        let Ok(icu) = v.parse::<icu_locid::Locale>() else {
            continue;
        };
        let lang = icu_locid::Locale::from(icu_locid::LanguageIdentifier::from(icu.id.language));
        for (tag, rt) in [('c', PluralRuleType::Cardinal), ('o', PluralRuleType::Ordinal)] {
            // V <variant> <bare language> <c|o> <category of every operand of the N and D lines of `rt`>
            writeln!(o, "V {v} {v} {tag} {}", table(&icu, rt)).unwrap();
            writeln!(o, "V {v} {lang} {tag} {}", table(&lang, rt)).unwrap();
        }
    }
}
