//! C20 correspondence harness (H6): `leptos_i18n_build::TranslationsInfos` on generated project directories.
//! stdin, one command per line:
//!   OPTS            -> `OPTS|<Option>=<data key paths of Options::into_data_keys, sorted>|...`
//!   <project dir>   -> `OK|K=<sorted set of data key paths of get_icu_keys()>|KN=<number of keys yielded>|L=<get_locales, in order>|N=<get_namespaces in order, or ->|I=<get_locales_langids>`
//!                      `ERR|<error>` when the project is rejected, `PANIC` when the call panics
use leptos_i18n_build::{Options, TranslationsInfos};
use std::collections::BTreeSet;
use std::io::{BufRead, Write};
use std::panic::{catch_unwind, AssertUnwindSafe};

const ALL: [(&str, Options); 5] = [
    ("Plurals", Options::Plurals),
    ("FormatDateTime", Options::FormatDateTime),
    ("FormatList", Options::FormatList),
    ("FormatNums", Options::FormatNums),
    ("FormatCurrency", Options::FormatCurrency),
];

fn opts() -> String {
    let mut out = vec!["OPTS".to_string()];
    for (name, o) in ALL {
        let keys: BTreeSet<String> = o.into_data_keys().iter().map(|k| k.path().get().to_string()).collect();
        out.push(format!("{}={}", name, keys.into_iter().collect::<Vec<_>>().join(",")));
    }
    out.join("|")
}

fn project(dir: &str) -> String {
    let infos = match TranslationsInfos::parse_at_dir(dir) {
        Ok(i) => i,
        Err(e) => return format!("ERR|{}", e.to_string().replace('\n', " ")),
    };
    let yielded: Vec<String> = infos.get_icu_keys().map(|k| k.path().get().to_string()).collect();
    let set: BTreeSet<String> = yielded.iter().cloned().collect();
    let locales: Vec<String> = infos.get_locales().map(|l| l.to_string()).collect();
    let ns = match infos.get_namespaces() {
        None => "-".to_string(),
        Some(it) => it.map(|n| n.to_string()).collect::<Vec<_>>().join(","),
    };
    let langids = catch_unwind(AssertUnwindSafe(|| {
        infos.get_locales_langids().map(|l| l.to_string()).collect::<Vec<_>>().join(",")
    }))
    .unwrap_or_else(|_| "PANIC".to_string());
    format!(
        "OK|K={}|KN={}|L={}|N={}|I={}",
        set.into_iter().collect::<Vec<_>>().join(","),
        yielded.len(),
        locales.join(","),
        ns,
        langids
    )
}

fn main() {
    std::panic::set_hook(Box::new(|_| {}));
    let stdin = std::io::stdin();
    let mut o = std::io::BufWriter::new(std::io::stdout().lock());
    for line in stdin.lock().lines() {
        let line = line.unwrap();
        let res = catch_unwind(AssertUnwindSafe(|| if line == "OPTS" { opts() } else { project(&line) }));
        writeln!(o, "{}", res.unwrap_or_else(|_| "PANIC".to_string())).unwrap();
    }
}
