//! Generic driver (also compiled into the generated probe crate of the thorough tier).
//! One command per stdin line, one answer line per command; strings travel as '.'-separated hex code points.
//!   N <set>            -> N|n=<len of get_all>|default=<Debug of Default::default()>
//!   T <set> <pos>      -> T|<fields of get_all()[pos]>   (OOB when pos is out of range)
//!   P <set> <hex>      -> P|<every parser applied to the string>
//!   O <hex>            -> O|<icu_locid / icu_locid_transform applied directly to the string>
//! A locale value is always identified by its derived `Debug` form (the enum variant's identifier), which
//! none of the identity methods under test produces.
use codee::{string::FromToStringCodec, Decoder, Encoder};
use icu_locid::{LanguageIdentifier, Locale as IcuLocale};
use icu_locid_transform::{Direction as IcuDir, LocaleDirectionality};
use leptos_i18n::{Direction, Locale};
use serde::de::value::{BorrowedStrDeserializer, Error as VErr, StrDeserializer, StringDeserializer};
use serde::Deserialize;
use std::io::{BufRead, Write};
use std::panic::{catch_unwind, AssertUnwindSafe};
use std::str::FromStr;

pub fn hex(s: &str) -> String {
    s.chars().map(|c| format!("{:x}", c as u32)).collect::<Vec<_>>().join(".")
}

pub fn unhex(s: &str) -> String {
    s.split('.').filter(|x| !x.is_empty()).map(|x| char::from_u32(u32::from_str_radix(x, 16).unwrap()).unwrap()).collect()
}

fn dir_str(d: Direction) -> &'static str {
    match d {
        Direction::LeftToRight => "ltr",
        Direction::RightToLeft => "rtl",
        Direction::Auto => "auto",
    }
}

fn dbg<T: std::fmt::Debug>(r: Result<T, ()>) -> String {
    match r {
        Ok(v) => format!("{v:?}"),
        Err(()) => "-".to_string(),
    }
}

/// every observable of one locale value, through the type X (the enum itself or a ScopedLocale over it)
fn row<B: Locale, X: Locale<B>>(x: X) -> String {
    let as_str = Locale::as_str(x);
    let disp = x.to_string();
    let asref: &str = x.as_ref();
    let json = serde_json::to_string(&x).unwrap_or_else(|e| format!("!{e}"));
    let enc = <FromToStringCodec as Encoder<X>>::encode(&x).unwrap_or_else(|_| "!".to_string());
    let rt_from = dbg(X::from_str(as_str).map_err(|_| ()));
    let rt_disp = dbg(X::from_str(&disp).map_err(|_| ()));
    let rt_json = dbg(serde_json::from_str::<X>(&json).map_err(|_| ()));
    let rt_codec = dbg(<FromToStringCodec as Decoder<X>>::decode(&enc).map_err(|_| ()));
    let icu = Locale::as_icu_locale(x);
    let lid = Locale::as_langid(x);
    let icu_ref: &IcuLocale = x.as_ref();
    let lid_ref: &LanguageIdentifier = x.as_ref();
    let refs_ok = icu_ref == icu && lid_ref == lid && &icu.id == lid;
    format!(
        "dbg={:?}|as_str={}|disp={}|asref={}|json={}|enc={}|rt_from={}|rt_disp={}|rt_json={}|rt_codec={}|icu={}|lid={}|refs={}|dir={}|base={:?}",
        x,
        hex(as_str),
        hex(&disp),
        hex(asref),
        hex(&json),
        hex(&enc),
        rt_from,
        rt_disp,
        rt_json,
        rt_codec,
        hex(&icu.to_string()),
        hex(&lid.to_string()),
        refs_ok,
        dir_str(Locale::direction(x)),
        x.to_base_locale()
    )
}

fn parse_all<B: Locale, X: Locale<B>>(_witness: X, s: &str) -> String {
    let f = dbg(X::from_str(s).map_err(|_| ()));
    let c = dbg(<FromToStringCodec as Decoder<X>>::decode(s).map_err(|_| ()));
    // serde through a real front end (JSON text of the string) ...
    let js = serde_json::to_string(s).unwrap();
    let j = dbg(serde_json::from_str::<X>(&js).map_err(|_| ()));
    // ... through a reader (owned / transient strings) ...
    let jr = dbg(serde_json::from_reader::<_, X>(js.as_bytes()).map_err(|_| ()));
    // ... and the three visitor entry points directly
    let vs = dbg(X::deserialize(StrDeserializer::<VErr>::new(s)).map_err(|_| ()));
    let vo = dbg(X::deserialize(StringDeserializer::<VErr>::new(s.to_string())).map_err(|_| ()));
    let vb = dbg(X::deserialize(BorrowedStrDeserializer::<VErr>::new(s)).map_err(|_| ()));
    format!("f={f}|c={c}|j={j}|jr={jr}|vs={vs}|vo={vo}|vb={vb}")
}

fn all_of<B: Locale, X: Locale<B>>(_witness: X) -> String {
    let all = X::get_all();
    let dbgs: Vec<String> = all.iter().map(|l| format!("{l:?}")).collect();
    format!("n={}|default={:?}|all={}", all.len(), X::default(), dbgs.join(","))
}

enum Op<'a> {
    Row,
    Parse(&'a str),
    All,
}

impl Op<'_> {
    fn go<B: Locale, X: Locale<B>>(&self, x: X) -> String {
        match self {
            Op::Row => row::<B, X>(x),
            Op::Parse(s) => parse_all::<B, X>(x, s),
            Op::All => all_of::<B, X>(x),
        }
    }
    /// the same observation through `ScopedLocale<L, _>` (not nameable from outside the crate: its type is
    /// inferred from the public helper that builds it)
    fn go_scoped<L: Locale>(&self, l: L) -> String {
        self.go::<L, _>(leptos_i18n::__private::scope_locale_util(l, |k: <L as Locale>::Keys| k))
    }
    fn both<L: Locale>(&self, l: L) -> String {
        let base = self.go::<L, L>(l);
        let sc = self.go_scoped::<L>(l);
        format!("{}|scoped_same={}", base, if base == sc { "true".to_string() } else { format!("false:{sc}") })
    }
}

pub struct Cmd<'a> {
    pub kind: char,
    pub pos: usize,
    pub s: &'a str,
    pub out: String,
}

impl Cmd<'_> {
    /// called by `sets::dispatch` with the generated enum of the chosen set
    pub fn visit<L: Locale>(&mut self) {
        let all = L::get_all();
        self.out = match self.kind {
            'N' => format!("N|{}", Op::All.both::<L>(L::default())),
            'T' => match all.get(self.pos) {
                None => "OOB".to_string(),
                Some(l) => format!("T|{}", Op::Row.both::<L>(*l)),
            },
            'P' => format!("P|{}", Op::Parse(self.s).both::<L>(L::default())),
            _ => "BADCMD".to_string(),
        };
    }
}

/// icu_locid / icu_locid_transform applied directly to a configured name (the oracle of the ICU part)
fn oracle(name: &str) -> String {
    let icu = IcuLocale::from_str(name).map(|l| hex(&l.to_string())).unwrap_or_else(|_| "!".to_string());
    let lid = LanguageIdentifier::from_str(name);
    let dir = match &lid {
        Err(_) => "!",
        Ok(l) => match LocaleDirectionality::new().get(l) {
            Some(IcuDir::LeftToRight) => "ltr",
            Some(IcuDir::RightToLeft) => "rtl",
            _ => "auto",
        },
    };
    let lid = lid.as_ref().map(|l| hex(&l.to_string())).unwrap_or_else(|_| "!".to_string());
    format!("O|icu={icu}|lid={lid}|dir={dir}")
}

pub fn run() {
    let stdin = std::io::stdin();
    let mut o = std::io::BufWriter::new(std::io::stdout().lock());
    for line in stdin.lock().lines() {
        let line = line.unwrap();
        let mut it = line.split(' ');
        let kind = it.next().unwrap_or("").chars().next().unwrap_or('?');
        let res = catch_unwind(AssertUnwindSafe(|| {
            if kind == 'O' {
                return oracle(&unhex(it.next().unwrap_or("")));
            }
            let set = it.next().unwrap_or("");
            let arg = it.next().unwrap_or("");
            let s = if kind == 'P' { unhex(arg) } else { String::new() };
            let pos = if kind == 'T' { arg.parse().unwrap_or(usize::MAX) } else { 0 };
            let mut cmd = Cmd { kind, pos, s: &s, out: String::new() };
            if !crate::sets::dispatch(set, &mut cmd) {
                return "NOSET".to_string();
            }
            cmd.out
        }));
        writeln!(o, "{}", res.unwrap_or_else(|_| "PANIC".to_string())).unwrap();
    }
}
