//! Order / format / run independence harness (property C10).  Built three times (features `json`, `yaml`, `json5`).
//! Modes (argv[1]), one project directory per stdin line:
//!   project : the whole loading pipeline (`parse_locales`) and a CANONICAL dump of everything it produced:
//!       RESULT ok | RESULT err <Variant> | RESULT PANIC <msg>
//!       E <error Debug, one line, project path replaced by $DIR>
//!       D <`{:?}` of BuildersKeys (keys, per-locale values with string indices, string tables, defaults), one line>
//!       W <n> <Debug of the n-th warning, in emission order>
//!       K <ns|-> <locale index> <locale> <key.path> <final value Debug>      (walk of every top locale, nested subkeys inline)
//!       P <ns|-> <locale index> <locale> <key.path> <idx:hex,idx:hex,...>     (its literal strings in index_strings order)
//!       T <ns|-> <locale index> <locale> <hex,hex,...>                        (Locale.strings of the top locale)
//!       END <dir>
//!   total   : property C09 (pipeline never panics), macro side; every stage under catch_unwind:
//!       P <ok | err <Variant> <Display text> | PANIC <msg>>      parse_locales(false, dir)   (parser with the `quote` feature)
//!       G <ok <token stream length> | err <Variant> <Display> | PANIC <msg> | skip>   load_locales() (only after P ok)
//!       D <ok <values> <locales defaulted> | PANIC <msg>>   DefaultedLocales::compute() and default_of(locale) on every value of
//!                                                           BuildersKeys, exactly what the code generator calls per key (after P ok)
//!       every line is flushed as soon as it is known: a stage that never returns is seen by the caller's watchdog
//!   defaults: `DefaultedLocales` driven directly, one mapping per line `<default>|<k>v,k>v,...>|<query,query,...>`:
//!       `R <query=default_of(query),...>|C <default_to:[locales...];...>`  (compute()), in a child process with a watchdog
//!   depth   : the same two calls WITHOUT catch_unwind, for child processes (a stack overflow aborts, it does not unwind)
//!   codegen : the macro crate's code generator, compiled from its source files, run in-process with
//!       CARGO_MANIFEST_DIR pointing at the project: `C ok <token stream text>` | `C err <Variant>` | `C PANIC`
#![allow(dead_code, unused_imports, clippy::all)]
extern crate proc_macro;

#[path = "/repo/leptos_i18n_macro/src/load_locales/mod.rs"]
pub mod load_locales;
#[path = "/repo/leptos_i18n_macro/src/utils/mod.rs"]
pub mod utils;

use leptos_i18n_parser::parse_locales::{
    locale::{BuildersKeys, BuildersKeysInner, Locale, LocaleValue},
    parse_locales,
    parsed_value::{Literal, ParsedValue},
};
use std::io::{BufRead, Write};

fn hex(s: &str) -> String {
    if s.is_empty() {
        return ".".to_string();
    }
    s.bytes().map(|b| format!("{:02x}", b)).collect()
}
fn one_line(s: &str) -> String {
    s.replace('\\', "\\\\").replace('\n', "\\n").replace('\t', "\\t")
}
fn variant_name(dbg: &str) -> String {
    dbg.chars().take_while(|c| c.is_alphanumeric() || *c == '_').collect()
}

/// literal strings of a final value in the order `index_strings` visits them
fn pieces(v: &ParsedValue, out: &mut Vec<(usize, String)>) {
    match v {
        ParsedValue::Literal(Literal::String(s, i)) => out.push((*i, s.clone())),
        ParsedValue::Literal(_) => {}
        ParsedValue::Ranges(r) => {
            let _ = r.try_for_each_value::<_, ()>(|x| {
                pieces(x, out);
                Ok(())
            });
        }
        ParsedValue::Component { inner, .. } => pieces(inner, out),
        ParsedValue::Plurals(p) => {
            for x in p.forms.values() {
                pieces(x, out);
            }
            pieces(&p.other, out);
        }
        ParsedValue::Bloc(l) => {
            for x in l {
                pieces(x, out);
            }
        }
        ParsedValue::Default | ParsedValue::ForeignKey(_) | ParsedValue::Variable { .. } | ParsedValue::Subkeys(_) => {}
    }
}

fn walk(ns: &str, li: usize, top: &str, locale: &Locale, bk: Option<&BuildersKeysInner>, prefix: &str, o: &mut Vec<u8>) {
    for (k, v) in &locale.keys {
        let path = if prefix.is_empty() { k.name.to_string() } else { format!("{}.{}", prefix, k.name) };
        match v {
            // a sub-locale that was not merged (key absent from the default locale): still in place
            ParsedValue::Subkeys(Some(sub)) => walk(ns, li, top, sub, None, &path, o),
            // merged: the sub-locale was moved into BuildersKeys (LocaleValue::Subkeys.locales, one per top locale)
            ParsedValue::Subkeys(None) => match bk.and_then(|b| b.0.get(k)) {
                Some(LocaleValue::Subkeys { locales, keys }) if li < locales.len() => {
                    walk(ns, li, top, &locales[li], Some(keys), &path, o)
                }
                _ => writeln!(o, "K\t{}\t{}\t{}\t{}\tSUBKEYS_NONE_UNRESOLVED", ns, li, top, path).unwrap(),
            },
            v => {
                writeln!(o, "K\t{}\t{}\t{}\t{}\t{}", ns, li, top, path, one_line(&format!("{:?}", v))).unwrap();
                let mut ps = vec![];
                pieces(v, &mut ps);
                let ps: Vec<String> = ps.iter().map(|(i, s)| format!("{}:{}", i, hex(s))).collect();
                writeln!(o, "P\t{}\t{}\t{}\t{}\t{}", ns, li, top, path, ps.join(",")).unwrap();
            }
        }
    }
}

fn dump_unit(ns: &str, locales: &[Locale], keys: &BuildersKeysInner, o: &mut Vec<u8>) {
    for (li, l) in locales.iter().enumerate() {
        walk(ns, li, &l.name.name, l, Some(keys), "", o);
        let t: Vec<String> = l.strings.iter().map(|s| hex(s)).collect();
        writeln!(o, "T\t{}\t{}\t{}\t{}", ns, li, l.name.name, t.join(",")).unwrap();
    }
}

fn run_project(dir: &str) -> Vec<u8> {
    let mut buf: Vec<u8> = Vec::new();
    match parse_locales(false, Some(std::path::PathBuf::from(dir))) {
        Ok((keys, warnings, _tracked)) => {
            writeln!(buf, "RESULT\tok").unwrap();
            writeln!(buf, "D\t{}", one_line(&format!("{:?}", keys).replace(dir, "$DIR"))).unwrap();
            match &keys {
                BuildersKeys::Locales { locales, keys } => dump_unit("-", locales, keys, &mut buf),
                BuildersKeys::NameSpaces { namespaces, keys } => {
                    for ns in namespaces {
                        match keys.get(&ns.key) {
                            Some(k) => dump_unit(&ns.key.name, &ns.locales, k, &mut buf),
                            None => writeln!(buf, "K\t{}\t-\t-\t-\tNAMESPACE_KEYS_MISSING", ns.key.name).unwrap(),
                        }
                    }
                }
            }
            for (i, w) in warnings.into_inner().iter().enumerate() {
                writeln!(buf, "W\t{}\t{}", i, one_line(&format!("{:?}", w).replace(dir, "$DIR"))).unwrap();
            }
        }
        Err(e) => {
            let dbg = format!("{:?}", e);
            writeln!(buf, "RESULT\terr\t{}", variant_name(&dbg)).unwrap();
            writeln!(buf, "E\t{}", one_line(&dbg.replace(dir, "$DIR"))).unwrap();
        }
    }
    buf
}

fn run_codegen(dir: &str) -> Vec<u8> {
    let mut buf: Vec<u8> = Vec::new();
    std::env::set_var("CARGO_MANIFEST_DIR", dir);
    match load_locales::load_locales() {
        Ok(ts) => writeln!(buf, "C\tok\t{}", one_line(&ts.to_string().replace(dir, "$DIR"))).unwrap(),
        Err(e) => writeln!(buf, "C\terr\t{}", variant_name(&format!("{:?}", e))).unwrap(),
    }
    buf
}

fn panic_msg(p: Box<dyn std::any::Any + Send>) -> String {
    p.downcast_ref::<String>().cloned().or_else(|| p.downcast_ref::<&str>().map(|s| s.to_string())).unwrap_or_default()
}

fn defaults_of_keys(keys: &BuildersKeysInner, locales: &[String], acc: &mut (usize, usize)) {
    for v in keys.0.values() {
        match v {
            LocaleValue::Value { defaults, .. } => {
                let c = defaults.compute();
                acc.0 += 1;
                acc.1 += c.values().map(|s| s.len()).sum::<usize>();
                for l in locales {
                    if let Some(k) = leptos_i18n_parser::utils::Key::new(l) {
                        let _ = defaults.default_of(&k);
                    }
                }
            }
            LocaleValue::Subkeys { keys, .. } => defaults_of_keys(keys, locales, acc),
        }
    }
}

fn run_defaults_line(line: &str) -> String {
    use leptos_i18n_parser::parse_locales::locale::DefaultedLocales;
    use leptos_i18n_parser::utils::Key;
    let f: Vec<&str> = line.split('|').collect();
    let k = |s: &str| Key::new(s).unwrap();
    let mut d = DefaultedLocales::new(k(f[0]));
    for pair in f[1].split(',').filter(|x| !x.is_empty()) {
        let (a, b) = pair.split_once('>').unwrap();
        d.push(k(a), k(b));
    }
    let r: Vec<String> = f[2].split(',').filter(|x| !x.is_empty()).map(|q| format!("{}={}", q, d.default_of(&k(q)).name)).collect();
    let c: Vec<String> = d
        .compute()
        .iter()
        .map(|(to, set)| format!("{}:[{}]", to.name, set.iter().map(|x| x.name.to_string()).collect::<Vec<_>>().join(" ")))
        .collect();
    format!("R {}|C {}", r.join(","), c.join(";"))
}

fn run_total(dir: &str, o: &mut dyn Write) {
    let d = dir.to_string();
    let p = std::panic::catch_unwind(move || parse_locales(false, Some(std::path::PathBuf::from(&d))).map(|(k, _, _)| k));
    let mut parsed = None;
    let p = match p {
        Err(e) => Err(e),
        Ok(Err(e)) => Ok(Err(e)),
        Ok(Ok(k)) => {
            parsed = Some(k);
            Ok(Ok(()))
        }
    };
    let ok = match p {
        Err(e) => {
            writeln!(o, "P\tPANIC\t{}", one_line(&panic_msg(e))).unwrap();
            false
        }
        Ok(Err(e)) => {
            writeln!(o, "P\terr\t{}\t{}", variant_name(&format!("{:?}", e)), one_line(&e.to_string().replace(dir, "$DIR"))).unwrap();
            false
        }
        Ok(Ok(())) => {
            writeln!(o, "P\tok").unwrap();
            true
        }
    };
    o.flush().unwrap();
    if !ok {
        writeln!(o, "G\tskip").unwrap();
        return;
    }
    if let Some(keys) = parsed {
        let r = std::panic::catch_unwind(std::panic::AssertUnwindSafe(|| {
            let mut acc = (0usize, 0usize);
            match &keys {
                BuildersKeys::Locales { locales, keys } => {
                    let names: Vec<String> = locales.iter().map(|l| l.name.name.to_string()).collect();
                    defaults_of_keys(keys, &names, &mut acc)
                }
                BuildersKeys::NameSpaces { namespaces, keys } => {
                    for ns in namespaces {
                        let names: Vec<String> = ns.locales.iter().map(|l| l.name.name.to_string()).collect();
                        if let Some(k) = keys.get(&ns.key) {
                            defaults_of_keys(k, &names, &mut acc)
                        }
                    }
                }
            }
            acc
        }));
        match r {
            Ok((n, m)) => writeln!(o, "D\tok\t{}\t{}", n, m).unwrap(),
            Err(e) => writeln!(o, "D\tPANIC\t{}", one_line(&panic_msg(e))).unwrap(),
        }
        o.flush().unwrap();
    }
    std::env::set_var("CARGO_MANIFEST_DIR", dir);
    match std::panic::catch_unwind(|| load_locales::load_locales().map(|ts| ts.to_string().len())) {
        Err(e) => writeln!(o, "G\tPANIC\t{}", one_line(&panic_msg(e))).unwrap(),
        Ok(Err(e)) => writeln!(o, "G\terr\t{}\t{}", variant_name(&format!("{:?}", e)), one_line(&e.to_string().replace(dir, "$DIR"))).unwrap(),
        Ok(Ok(n)) => writeln!(o, "G\tok\t{}", n).unwrap(),
    }
}

fn main() {
    let mode = std::env::args().nth(1).unwrap_or_default();
    if mode == "defaults" {
        let stdin = std::io::stdin();
        let mut o = std::io::BufWriter::new(std::io::stdout().lock());
        for line in stdin.lock().lines() {
            let line = line.unwrap();
            writeln!(o, "{}", run_defaults_line(&line)).unwrap();
            writeln!(o, "END\t{}", line).unwrap();
            o.flush().unwrap();
        }
        return;
    }
    if mode == "depth" || mode == "total" {
        if mode == "total" {
            std::panic::set_hook(Box::new(|_| {}));
        }
        let stdin = std::io::stdin();
        let mut o = std::io::BufWriter::new(std::io::stdout().lock());
        for line in stdin.lock().lines() {
            let dir = line.unwrap();
            if mode == "total" {
                run_total(&dir, &mut o);
            } else {
                let r = parse_locales(false, Some(std::path::PathBuf::from(&dir)));
                writeln!(o, "P\t{}", if r.is_ok() { "ok" } else { "err" }).unwrap();
                o.flush().unwrap();
                if r.is_ok() {
                    std::env::set_var("CARGO_MANIFEST_DIR", &dir);
                    let g = load_locales::load_locales();
                    writeln!(o, "G\t{}", if g.is_ok() { "ok" } else { "err" }).unwrap();
                }
            }
            writeln!(o, "END\t{}", dir).unwrap();
            o.flush().unwrap();
        }
        return;
    }
    std::panic::set_hook(Box::new(|_| {}));
    let stdin = std::io::stdin();
    let mut o = std::io::BufWriter::new(std::io::stdout().lock());
    for line in stdin.lock().lines() {
        let dir = line.unwrap();
        let d2 = dir.clone();
        let m = mode.clone();
        let r = std::panic::catch_unwind(move || match m.as_str() {
            "project" => run_project(&d2),
            "codegen" => run_codegen(&d2),
            _ => {
                eprintln!("unknown mode {m:?}");
                std::process::exit(2);
            }
        });
        match r {
            Ok(buf) => o.write_all(&buf).unwrap(),
            Err(p) => {
                let msg = p.downcast_ref::<String>().cloned().or_else(|| p.downcast_ref::<&str>().map(|s| s.to_string())).unwrap_or_default();
                if mode == "codegen" {
                    writeln!(o, "C\tPANIC\t{}", one_line(&msg)).unwrap();
                } else {
                    writeln!(o, "RESULT\tPANIC\t{}", one_line(&msg)).unwrap();
                }
            }
        }
        writeln!(o, "END\t{}", dir).unwrap();
        o.flush().unwrap();
    }
}
