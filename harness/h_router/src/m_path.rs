//! mode `path`: drives get_locale_from_path / get_new_path of the included routing.rs (protocol in main.rs)
use crate::dynloc::{self, DynLocale};
use crate::fixed::i18n::Locale as Fixed;
use crate::routing::{w_locale_from_path, w_new_path};
use leptos_i18n::Locale;
use leptos_router::PathSegment;
use std::collections::HashMap;
use std::io::{BufRead, Write};
use std::panic::{catch_unwind, AssertUnwindSafe};

type Tables = Vec<Option<Vec<Vec<PathSegment>>>>;

fn parse_seg(s: &str) -> PathSegment {
    let mut it = s.chars();
    let k = it.next().unwrap();
    let rest: String = it.collect();
    match k {
        'U' => PathSegment::Unit,
        'S' => PathSegment::Static(rest.into()),
        'P' => PathSegment::Param(rest.into()),
        'O' => PathSegment::OptionalParam(rest.into()),
        'W' => PathSegment::Splat(rest.into()),
        _ => panic!("bad segment kind"),
    }
}

fn parse_tables(s: &str) -> Tables {
    s.split('\u{1d}')
        .map(|t| {
            if t == "-" {
                return None;
            }
            Some(
                t.split('\u{1e}')
                    .filter(|r| !r.is_empty())
                    .map(|r| if r == "." { vec![] } else { r.split('\u{1c}').filter(|x| !x.is_empty()).map(parse_seg).collect() })
                    .collect(),
            )
        })
        .collect()
}

fn idx<L: Locale>(l: L) -> usize {
    L::get_all().iter().position(|x| *x == l).unwrap()
}

fn loc<L: Locale>(s: &str) -> Option<L> {
    if s == "-" {
        None
    } else {
        Some(L::get_all()[s.parse::<usize>().unwrap()])
    }
}

fn map_of<L: Locale>(tables: &Tables) -> HashMap<L, Vec<Vec<PathSegment>>> {
    let mut m = HashMap::new();
    for (i, t) in tables.iter().enumerate() {
        if let (Some(t), Some(l)) = (t, L::get_all().get(i)) {
            m.insert(*l, t.clone());
        }
    }
    m
}

/// splits a URL as the browser does: fragment after the first '#', query after the first '?'
fn split_url(u: &str) -> (String, String, String) {
    let (rest, hash) = match u.split_once('#') {
        Some((a, b)) => (a, b),
        None => (u, ""),
    };
    let (path, search) = match rest.split_once('?') {
        Some((a, b)) => (a, b),
        None => (rest, ""),
    };
    (path.to_string(), search.to_string(), hash.to_string())
}

fn exec<L: Locale>(f: &[&str], tables: &Tables) -> String {
    match f[0] {
        "L" => match w_locale_from_path::<L>(f[2], f[1]) {
            Some(l) => idx(l).to_string(),
            None => "-".to_string(),
        },
        "N" => {
            let new = loc::<L>(f[5]).unwrap();
            let old = loc::<L>(f[6]);
            w_new_path::<L>(f[2], f[3], f[4], f[1], new, old, &map_of::<L>(tables))
        }
        "H" => {
            let base = f[1];
            let (mut path, mut search, mut hash) = (f[2].to_string(), f[3].to_string(), f[4].to_string());
            let mut cur = loc::<L>(f[5]);
            let by_path = f[6] == "p";
            // the hash is fed at every step in the convention of the start URL: browser form ("#top", what
            // leptos_router stores on the client: window.location.hash unmodified) or bare ("top")
            let browser_form = f[4].starts_with('#');
            let map = map_of::<L>(tables);
            let mut outs = vec![];
            for step in f[7].split(',').filter(|x| !x.is_empty()) {
                let new = loc::<L>(step).unwrap();
                let old = if by_path { w_locale_from_path::<L>(&path, base) } else { cur };
                let u = w_new_path::<L>(&path, &search, &hash, base, new, old, &map);
                let (p, s, h) = split_url(&u);
                path = p;
                search = s;
                hash = if browser_form && !h.is_empty() { format!("#{h}") } else { h };
                cur = Some(new);
                outs.push(u);
            }
            outs.join("\u{1f}")
        }
        _ => "?".to_string(),
    }
}

pub fn run() {
    let stdin = std::io::stdin();
    let mut o = std::io::BufWriter::new(std::io::stdout().lock());
    let mut use_enum = false;
    let mut tables: Tables = vec![];
    for line in stdin.lock().lines() {
        let line = line.unwrap();
        let f: Vec<&str> = line.split('\u{1f}').collect();
        let res = catch_unwind(AssertUnwindSafe(|| match f[0] {
            "C" => {
                let names: Vec<&str> = f[1].split('\u{1e}').collect();
                dynloc::configure(&names, f[2].parse().unwrap());
                use_enum = false;
                "ok".to_string()
            }
            "E" => {
                use_enum = true;
                let names: Vec<&str> = Fixed::get_all().iter().map(|l| l.as_str()).collect();
                format!("E\u{1f}{}\u{1f}{}", names.join("\u{1e}"), idx(Fixed::default()))
            }
            "T" => {
                tables = parse_tables(f[1]);
                "ok".to_string()
            }
            _ => {
                if use_enum {
                    exec::<Fixed>(&f, &tables)
                } else {
                    exec::<DynLocale>(&f, &tables)
                }
            }
        }));
        writeln!(o, "{}", res.unwrap_or_else(|_| "PANIC".to_string())).unwrap();
    }
}
